package c09w

// "If a restart hook fails the actor becomes a zombie that runs no user code" - also for an actor assembled with the
// library's own NewComplexCombinationActor: 1-4 components, each with or without an OnPreRestart / OnRestarted /
// OnPrelaunch hook that succeeds or returns an error when the actor is restarted (every hook succeeds at spawn time).
// Reference model: a failing OnPreRestart is logged and the restart goes on; OnRestarted hooks run in component order up
// to the first failure, then the OnPrelaunch hooks likewise; any failure there => zombie: no component receives
// anything any more (neither OnLaunch nor the mail sent afterwards); otherwise every component receives OnLaunch and
// every later message exactly once, in component order.

import (
	"errors"
	"fmt"
	"strings"
	"testing"

	"github.com/kercylan98/vivid"
	"github.com/kercylan98/vivid/internal/actor"
	"github.com/kercylan98/vivid/verif/internal/hlog"
	"github.com/kercylan98/vivid/verif/internal/vstat"
	"github.com/kercylan98/vivid/verif/internal/vt"
	"pgregory.net/rapid"
)

type part struct {
	idx                          int
	preRestart, restarted, prela string // none | ok | err
	log                          *[]string
	launches                     int
	restarting                   *bool
}

func (p *part) OnReceive(ctx vivid.ActorContext) {
	switch m := ctx.Message().(type) {
	case *vivid.OnLaunch:
		*p.log = append(*p.log, fmt.Sprintf("launch:%d", p.idx))
	case string:
		*p.log = append(*p.log, fmt.Sprintf("recv:%d:%s", p.idx, m))
		if m == "boom" && p.idx == 0 {
			*p.restarting = true
			panic("verif: boom")
		}
	}
}

type partPre struct{ *part }
type partRes struct{ *part }
type partPreRes struct{ *part }
type partLa struct{ *part }
type partPreLa struct{ *part }
type partResLa struct{ *part }
type partPreResLa struct{ *part }

func (p *part) preRestartHook() error {
	*p.log = append(*p.log, fmt.Sprintf("prerestart:%d", p.idx))
	if p.preRestart == "err" {
		return errors.New("verif: prerestart failed")
	}
	return nil
}
func (p *part) restartedHook() error {
	*p.log = append(*p.log, fmt.Sprintf("restarted:%d", p.idx))
	if p.restarted == "err" {
		return errors.New("verif: restarted failed")
	}
	return nil
}
func (p *part) prelaunchHook() error {
	if !*p.restarting {
		return nil // at spawn time every hook succeeds
	}
	*p.log = append(*p.log, fmt.Sprintf("prelaunch:%d", p.idx))
	if p.prela == "err" {
		return errors.New("verif: prelaunch failed")
	}
	return nil
}

func (p partPre) OnPreRestart(vivid.RestartContext) error      { return p.preRestartHook() }
func (p partRes) OnRestarted(vivid.RestartContext) error       { return p.restartedHook() }
func (p partPreRes) OnPreRestart(vivid.RestartContext) error   { return p.preRestartHook() }
func (p partPreRes) OnRestarted(vivid.RestartContext) error    { return p.restartedHook() }
func (p partLa) OnPrelaunch(vivid.PrelaunchContext) error      { return p.prelaunchHook() }
func (p partPreLa) OnPreRestart(vivid.RestartContext) error    { return p.preRestartHook() }
func (p partPreLa) OnPrelaunch(vivid.PrelaunchContext) error   { return p.prelaunchHook() }
func (p partResLa) OnRestarted(vivid.RestartContext) error     { return p.restartedHook() }
func (p partResLa) OnPrelaunch(vivid.PrelaunchContext) error   { return p.prelaunchHook() }
func (p partPreResLa) OnPreRestart(vivid.RestartContext) error { return p.preRestartHook() }
func (p partPreResLa) OnRestarted(vivid.RestartContext) error  { return p.restartedHook() }
func (p partPreResLa) OnPrelaunch(vivid.PrelaunchContext) error {
	return p.prelaunchHook()
}

func wrap(p *part) vivid.Actor {
	a, b, c := p.preRestart != "none", p.restarted != "none", p.prela != "none"
	switch {
	case a && b && c:
		return partPreResLa{p}
	case a && b:
		return partPreRes{p}
	case a && c:
		return partPreLa{p}
	case b && c:
		return partResLa{p}
	case a:
		return partPre{p}
	case b:
		return partRes{p}
	case c:
		return partLa{p}
	}
	return p
}

func TestC09CombinationRestart(t *testing.T) {
	modes := []string{"none", "ok", "ok", "err"}
	rapid.Check(t, func(rt *rapid.T) {
		n := rapid.IntRange(1, 4).Draw(rt, "components")
		var log []string
		restarting := false
		var parts []*part
		var desc []string
		for i := 0; i < n; i++ {
			p := &part{idx: i, log: &log, restarting: &restarting}
			p.preRestart = rapid.SampledFrom([]string{"none", "ok", "err"}).Draw(rt, "preRestart")
			p.restarted = rapid.SampledFrom(modes).Draw(rt, "restarted")
			p.prela = rapid.SampledFrom(modes).Draw(rt, "prelaunch")
			parts = append(parts, p)
			desc = append(desc, fmt.Sprintf("{preRestart:%s restarted:%s prelaunch:%s}", p.preRestart, p.restarted, p.prela))
		}
		cs := "components " + strings.Join(desc, " ")
		vt.SetCase(map[string]any{"test": "TestC09CombinationRestart", "components": desc})
		res := vt.Run(t, func() {
			restart := vivid.OneForOneStrategy(vivid.SupervisionStrategyDecisionMakerFN(func(vivid.SupervisionContext) (vivid.SupervisionDecision, string) {
				return vivid.SupervisionDecisionRestart, "verif"
			}))
			sys := actor.NewSystem(vivid.WithActorSystemLogger(hlog.Nop), vivid.WithActorSystemSupervisionStrategy(restart))
			if err := sys.Start(); err != nil {
				panic(err)
			}
			defer func() { _ = sys.Stop() }()
			var as []vivid.Actor
			for _, p := range parts {
				as = append(as, wrap(p))
			}
			ref, err := sys.ActorOf(vivid.NewComplexCombinationActor(as...), vivid.WithActorName("combo"))
			if err != nil {
				panic(err)
			}
			vt.Settle()
			log = nil
			sys.Tell(ref, "boom")
			vt.Settle()
			sys.Tell(ref, "after-1")
			sys.Tell(ref, "after-2")
			vt.Settle()
			log = append([]string(nil), log...)
		})
		if res.Panic != nil {
			rt.Fatalf("harness: %v\n%s", res.Panic, res.Stack)
		}
		// ---- reference model
		want := []string{"recv:0:boom"}
		for _, p := range parts { // OnPreRestart: all of them up to the first error (an error is logged, the restart goes on)
			if p.preRestart == "none" {
				continue
			}
			want = append(want, fmt.Sprintf("prerestart:%d", p.idx))
			if p.preRestart == "err" {
				break
			}
		}
		zombie := false
		for _, p := range parts {
			if p.restarted == "none" {
				continue
			}
			want = append(want, fmt.Sprintf("restarted:%d", p.idx))
			if p.restarted == "err" {
				zombie = true
				break
			}
		}
		if !zombie {
			for _, p := range parts {
				if p.prela == "none" {
					continue
				}
				want = append(want, fmt.Sprintf("prelaunch:%d", p.idx))
				if p.prela == "err" {
					zombie = true
					break
				}
			}
		}
		if !zombie {
			for _, p := range parts {
				want = append(want, fmt.Sprintf("launch:%d", p.idx))
			}
			for _, m := range []string{"after-1", "after-2"} {
				for _, p := range parts {
					want = append(want, fmt.Sprintf("recv:%d:%s", p.idx, m))
				}
			}
		}
		// the Stop at the end is not part of the record (log was copied before it)
		var got []string
		for _, l := range log {
			if !strings.Contains(l, "OnKill") {
				got = append(got, l)
			}
		}
		vstat.Case(vstat.Hash(cs), zombie && n > 1, []string{"combination-actor-restart"}, func() any { return cs })
		if fmt.Sprint(got) != fmt.Sprint(want) {
			sig := "C09/zombie|combination|deliveries"
			if zombie {
				sig = "C09/zombie|combination|runs-user-code"
			}
			detail := fmt.Sprintf("%s: after a failure answered by Restart the components saw %v, expected %v (restart hooks in component order up to the first failure; a failure => zombie: nothing more)", cs, got, want)
			if !vstat.Fail(sig, detail, nil) {
				rt.Fatalf("VERIF-FAIL sig=%s :: %s", sig, detail)
			}
		}
	})
}
