// Package c09w: C09, unit "supwindow". A child fails; somewhere in what follows - the child reporting the failure, the
// supervisor deciding and applying the decision, the child being restarted / stopped / resumed - one of the actors
// involved is parked at a drawn statement boundary (window points inserted into copies of context.go,
// supervision_context.go and killed_handler.go at check time; DESIGN.md 3.2). While it stands there the outside world
// acts: kills (graceful or not) of the child, a sibling or the supervisor, a second failure, ordinary mail. Then the
// actor is released. Whatever the interleaving, C09 demands: at quiescence every surviving actor is unpaused and
// running (nobody paused, half-stopped or busy for ever), mail sent afterwards is processed by the living and
// dead-lettered for the dead, and every message sent in between ended in exactly one place.
package c09w

import (
	"encoding/json"
	"fmt"
	"os"
	"sort"
	"strings"
	"sync"
	"testing"
	"time"

	"github.com/kercylan98/vivid/internal/actor"
	"github.com/kercylan98/vivid/verif/internal/vstat"
	"github.com/kercylan98/vivid/verif/internal/vt"
	"github.com/kercylan98/vivid/verif/internal/world"
	"pgregory.net/rapid"
)

func TestMain(m *testing.M) {
	vt.StartWatchdog(30 * time.Second)
	vstat.Main(m.Run)
}

type SOp struct {
	Kind   string `json:"kind"`   // kill | fail | tell
	Target string `json:"target"` // s | s/x | s/y | s/x/z
	Poison bool   `json:"poison,omitempty"`
	Mode   string `json:"mode,omitempty"` // fail: panic | failed
	ID     int    `json:"id,omitempty"`
	Queued int    `json:"queued,omitempty"` // fail: this many messages are sent right behind the failing one
}

type SCase struct {
	Strategy  string   `json:"strategy"`            // of s: one | all
	Decisions []string `json:"decisions"`           // of s, one per consultation (last repeats)
	SysDec    []string `json:"sysDec"`              // system strategy (one-for-one), for escalations and for s itself
	Provider  bool     `json:"provider"`            // x has a provider
	Grandkid  bool     `json:"grandkid"`            // x has a child z
	XStrategy string   `json:"xStrategy,omitempty"` // x's own strategy for z (one | all; "" = it inherits the system's)
	XDec      []string `json:"xDec,omitempty"`
	First     string   `json:"first"`    // which child fails first: s/x | s/y
	FailMode  string   `json:"failMode"` // how it fails: panic | failed
	Queued    int      `json:"queued"`   // messages queued behind the failing one
	Park      string   `json:"park"`     // which actor is parked: s | s/x | s/y
	Point     int      `json:"point"`
	Intr      []SOp    `json:"intr"`
	Post      []SOp    `json:"post"`
}

func (c SCase) JSON() string { b, _ := json.Marshal(c); return string(b) }

func (c SCase) Describe() string {
	f := func(ops []SOp) string {
		var s []string
		for _, o := range ops {
			switch o.Kind {
			case "kill":
				s = append(s, fmt.Sprintf("kill(%s, poison=%v)", o.Target, o.Poison))
			case "fail":
				s = append(s, fmt.Sprintf("fail(%s, %s, %d queued behind)", o.Target, o.Mode, o.Queued))
			default:
				s = append(s, fmt.Sprintf("tell#%d(%s)", o.ID, o.Target))
			}
		}
		return strings.Join(s, " ")
	}
	return fmt.Sprintf("s{%s:%s} system{one:%s} children x(provider=%v, grandchild=%v, own strategy %q:%v) y | %s fails (%s) with %d messages queued behind | %s parked at its window point %d | meanwhile: %s | released | then: %s",
		c.Strategy, strings.Join(c.Decisions, ","), strings.Join(c.SysDec, ","), c.Provider, c.Grandkid, c.XStrategy, c.XDec, c.First, c.FailMode, c.Queued, c.Park, c.Point, f(c.Intr), f(c.Post))
}

var decisions = []string{"restart", "grestart", "stop", "gstop", "resume", "escalate"}

// the supervisor's own decisions: the immediate ones twice as often (the mail clauses are about them)
var supDecisions = []string{"restart", "resume", "restart", "resume", "grestart", "stop", "gstop", "escalate"}

func genOps(t *rapid.T, n int, id *int, grandkid bool) []SOp {
	targets := []string{"s/x", "s/x", "s/y", "s"}
	if grandkid {
		targets = append(targets, "s/x/z")
	}
	var ops []SOp
	for i := 0; i < n; i++ {
		o := SOp{Kind: rapid.SampledFrom([]string{"fail", "kill", "fail", "tell", "kill", "tell"}).Draw(t, "kind")}
		o.Target = rapid.SampledFrom(targets).Draw(t, "target")
		switch o.Kind {
		case "kill":
			o.Poison = rapid.Bool().Draw(t, "poison")
		case "fail":
			o.Mode = rapid.SampledFrom([]string{"panic", "failed"}).Draw(t, "mode")
			o.Queued = rapid.IntRange(0, 3).Draw(t, "queuedBehind")
			o.ID = *id + 1
			*id += o.Queued
		case "tell":
			*id++
			o.ID = *id
		}
		ops = append(ops, o)
	}
	return ops
}

func genCase(t *rapid.T) SCase {
	c := SCase{Strategy: rapid.SampledFrom([]string{"one", "all"}).Draw(t, "strategy")}
	for i, n := 0, rapid.IntRange(1, 3).Draw(t, "nDec"); i < n; i++ {
		c.Decisions = append(c.Decisions, rapid.SampledFrom(supDecisions).Draw(t, "decision"))
	}
	for i, n := 0, rapid.IntRange(1, 2).Draw(t, "nSysDec"); i < n; i++ {
		c.SysDec = append(c.SysDec, rapid.SampledFrom(decisions[:5]).Draw(t, "sysDecision"))
	}
	c.Provider = rapid.Bool().Draw(t, "provider")
	c.Grandkid = rapid.IntRange(0, 2).Draw(t, "grandkid") == 0
	firsts, parks := []string{"s/x", "s/x", "s/y"}, []string{"s", "s", "s/x", "s/x", "s/y"}
	if c.Grandkid {
		// a chain of two supervisors: z's failure is x's business first (x may escalate it to s)
		firsts, parks = append(firsts, "s/x/z", "s/x/z"), append(parks, "s/x/z")
		if rapid.Bool().Draw(t, "xOwnStrategy") {
			c.XStrategy = rapid.SampledFrom([]string{"one", "all"}).Draw(t, "xStrategy")
			for i, n := 0, rapid.IntRange(1, 2).Draw(t, "nXDec"); i < n; i++ {
				c.XDec = append(c.XDec, rapid.SampledFrom([]string{"escalate", "restart", "resume", "escalate", "grestart", "stop", "gstop"}).Draw(t, "xDecision"))
			}
		}
	}
	c.First = rapid.SampledFrom(firsts).Draw(t, "first")
	c.FailMode = rapid.SampledFrom([]string{"panic", "failed"}).Draw(t, "failMode")
	c.Queued = rapid.IntRange(0, 3).Draw(t, "queued")
	c.Park = rapid.SampledFrom(parks).Draw(t, "park")
	c.Point = rapid.IntRange(0, 70).Draw(t, "point")
	id := 2000
	c.Intr = genOps(t, rapid.IntRange(0, 4).Draw(t, "nIntr"), &id, c.Grandkid) // none: the rest of the system simply runs ahead of the parked actor
	c.Post = genOps(t, rapid.IntRange(0, 3).Draw(t, "nPost"), &id, c.Grandkid)
	return c
}

type verdict struct{ sig, detail string }

// run executes the case; when the parked actor passes fewer window points than the drawn index, the case is executed
// once more with the index folded into the number of points it did pass (every point of every chain equally likely).
func run(t *testing.T, c SCase) (v *verdict, nontrivial bool, labels []string) {
	point := c.Point
	for attempt := 0; ; attempt++ {
		var reached int
		v, nontrivial, labels, reached = runAt(t, c, point)
		if v != nil || nontrivial || attempt > 0 || reached == 0 {
			return
		}
		point = c.Point % reached
	}
}

func runAt(t *testing.T, c SCase, point int) (v *verdict, nontrivial bool, labels []string, reachedN int) {
	lab := map[string]bool{}
	res := vt.Run(t, func() {
		w := world.New(world.Options{SysDecisions: c.SysDec, SysStrategy: "one"})
		defer w.Close()
		_, _ = w.Spawn(world.Spec{Name: "s", Strategy: c.Strategy, Decisions: c.Decisions})
		vt.Settle()
		w.Tell("s", "", 0, []world.Step{{Op: "spawn", Spec: &world.Spec{Name: "x", Provider: c.Provider, Strategy: c.XStrategy, Decisions: c.XDec}}})
		w.Tell("s", "", 0, []world.Step{{Op: "spawn", Spec: &world.Spec{Name: "y"}}})
		vt.Settle()
		if c.Grandkid {
			w.Tell("s/x", "", 0, []world.Step{{Op: "spawn", Spec: &world.Spec{Name: "z"}}})
			vt.Settle()
		}
		var sent []int
		sentTo := map[int]string{}
		exec := func(o SOp) {
			switch o.Kind {
			case "kill":
				w.Kill(o.Target, "", o.Poison)
			case "fail":
				w.Tell(o.Target, "", 0, []world.Step{{Op: o.Mode}})
				for k := 0; k < o.Queued; k++ {
					w.Tell(o.Target, "", o.ID+k, nil)
					sent = append(sent, o.ID+k)
					sentTo[o.ID+k] = o.Target
				}
			case "tell":
				w.Tell(o.Target, "", o.ID, nil)
				sent = append(sent, o.ID)
				sentTo[o.ID] = o.Target
			}
		}
		// ---- arm the window, then x fails with mail queued behind the failing message
		ppath := world.Path(c.Park)
		var mu sync.Mutex
		armed, reached, site := true, 0, ""
		parked, release := make(chan struct{}), make(chan struct{})
		actor.VerifWindowHook = func(s string, path string) {
			if path != ppath {
				return
			}
			mu.Lock()
			if !armed {
				mu.Unlock()
				return
			}
			k := reached
			reached++
			hit := k == point
			if hit {
				armed, site = false, s
			}
			mu.Unlock()
			if hit {
				close(parked)
				<-release
			}
		}
		defer func() { actor.VerifWindowHook = nil }()
		first := c.First
		if first == "" {
			first = "s/x"
		}
		w.Tell(first, "", 0, []world.Step{{Op: c.FailMode}})
		for i := 0; i < c.Queued; i++ {
			id := 1000 + i
			w.Tell(first, "", id, nil)
			sent = append(sent, id)
			sentTo[id] = first
		}
		vt.Settle()
		isParked := false
		select {
		case <-parked:
			isParked = true
		default:
		}
		mu.Lock()
		armed = false
		n := reached
		mu.Unlock()
		reachedN = n
		if !isParked {
			lab["point-not-reached"] = true
			lab[fmt.Sprintf("points:%s=%d", c.Park, n)] = true
		} else {
			nontrivial = true
			lab["parked:"+c.Park+"@"+strings.SplitN(site, ":", 2)[0]] = true
			for _, o := range c.Intr {
				exec(o)
				vt.Settle()
			}
			close(release)
			vt.Settle()
		}
		for _, o := range c.Post {
			exec(o)
			vt.Settle()
		}
		if w.Overwork {
			v = &verdict{"C09/window|unbounded-work", "more than 2e6 deliveries; case: " + c.Describe()}
			return
		}
		where := "no actor was parked"
		if isParked {
			where = fmt.Sprintf("%s stood at %s, its window point %d", c.Park, site, point)
		}
		// ---- nobody paused, half-stopped
		alive := map[string]bool{}
		for _, st := range w.Sys.VerifActors() {
			if st.Path == "/zz-observer" || st.Path == "/" {
				continue
			}
			if st.Zombie {
				lab["zombie"] = true
				continue
			}
			if st.Paused {
				v = &verdict{"C09/window|left-paused", fmt.Sprintf("%s is alive (state %d) with its mailbox still paused at quiescence (%s); consults: %s; case: %s", st.Path, st.State, where, consults(w), c.Describe())}
				return
			}
			if st.State != 0 {
				v = &verdict{"C09/window|half-stopped", fmt.Sprintf("%s is registered in state %d (1=killing, 2=killed) at quiescence: neither running nor terminated (%s); consults: %s; case: %s", st.Path, st.State, where, consults(w), c.Describe())}
				return
			}
			alive[st.Path] = true
		}
		// ---- mail sent afterwards: processed by the living, dead-lettered for the dead
		probeID := 5000
		probes := map[string]int{}
		for _, name := range []string{"s", "s/x", "s/y", "s/x/z"} {
			if name == "s/x/z" && !c.Grandkid {
				continue
			}
			probeID++
			probes[name] = probeID
			w.Tell(name, "parse", probeID, nil)
		}
		vt.Settle()
		tr, obs := w.Snapshot()
		handled, dead := map[int]int{}, map[int]int{}
		for _, e := range tr {
			if e.Kind == "msg" && e.ID >= 1000 {
				handled[e.ID]++
			}
		}
		for _, o := range obs {
			if o.Type == "DeadLetter" && o.MsgID >= 1000 {
				dead[o.MsgID]++
			}
		}
		zombieEver := false
		for _, st := range w.Sys.VerifActors() {
			zombieEver = zombieEver || st.Zombie
		}
		for name, id := range probes {
			p := world.Path(name)
			switch {
			case alive[p] && handled[id] != 1:
				v = &verdict{"C09/window|not-processing", fmt.Sprintf("%s is alive, unpaused and running at quiescence, yet a message sent afterwards was handled %d times (dead letters %d) (%s); consults: %s; case: %s", p, handled[id], dead[id], where, consults(w), c.Describe())}
				return
			case !alive[p] && !zombieEver && handled[id]+dead[id] != 1:
				v = &verdict{"C09/window|probe-lost", fmt.Sprintf("%s is not registered at quiescence; a message sent to its address afterwards was handled %d times and dead-lettered %d times (%s); case: %s", p, handled[id], dead[id], where, c.Describe())}
				return
			}
		}
		// ---- nobody was killed and every decision taken was an immediate Restart or Resume: every actor lives on (in a new
		// incarnation or the old one), so every message has to be delivered - a dead letter means mail was dropped on the way
		// ("queued mail survives restart")
		immediateOnly := !zombieEver
		for _, o := range append(append([]SOp{}, c.Intr...), c.Post...) {
			if o.Kind == "kill" {
				immediateOnly = false
			}
		}
		for _, cs := range w.ConsultsCopy() {
			if cs.Decision != "restart" && cs.Decision != "resume" {
				immediateOnly = false
			}
		}
		if immediateOnly {
			lab["only-immediate-decisions"] = true
			// a restart terminates the children of the restarted actor for good: only addressees that are alive at the end
			// and none of whose ancestors was ever restarted are judged
			disturbed := map[string]bool{}
			for _, o := range obs {
				if o.Type == "Restarting" || o.Type == "Restarted" || o.Type == "Killed" {
					disturbed[o.Actor] = true
				}
			}
			for _, id := range sent {
				p := world.Path(sentTo[id])
				ok := alive[p]
				for a := p; ok && strings.LastIndex(a, "/") > 0; {
					a = a[:strings.LastIndex(a, "/")]
					if disturbed[a] {
						ok = false
					}
				}
				if !ok {
					continue
				}
				if dead[id] > 0 {
					v = &verdict{"C09/window|queued-mail|dropped", fmt.Sprintf("nobody was killed and every decision was Restart or Resume, yet message %d was dead-lettered instead of delivered (%s); consults: %s; case: %s", id, where, consults(w), c.Describe())}
					return
				}
			}
		}
		// ---- everything sent in between ended in exactly one place (zombies consume silently: the documented exception)
		if !zombieEver {
			for _, id := range sent {
				if h, d := handled[id], dead[id]; h+d != 1 {
					sig := "C09/window|queued-mail|lost"
					if h+d > 1 {
						sig = "C09/window|queued-mail|duplicated"
					}
					v = &verdict{sig, fmt.Sprintf("message %d was handled %d times and dead-lettered %d times (%s); consults: %s; case: %s", id, h, d, where, consults(w), c.Describe())}
					return
				}
			}
		}
	})
	if v == nil && res.Deadlock {
		v = &verdict{"C09/window|bubble-deadlock", fmt.Sprintf("the bubble deadlocked: %v; case: %s", res.Panic, c.Describe())}
	}
	if v == nil && res.Panic != nil {
		v = &verdict{"C09/window|harness-panic", fmt.Sprintf("%v\n%s", res.Panic, res.Stack)}
	}
	for l := range lab {
		labels = append(labels, l)
	}
	sort.Strings(labels)
	return
}

func consults(w *world.World) string {
	var s []string
	for _, c := range w.ConsultsCopy() {
		s = append(s, fmt.Sprintf("%s?%s=%s", c.Supervisor, c.Child, c.Decision))
	}
	return strings.Join(s, " ")
}

func check(t *testing.T, fatalf func(string, ...any), c SCase) {
	vt.SetCase(c)
	v, nt, labels := run(t, c)
	vstat.Case(vstat.Hash(c.JSON()), nt, labels, func() any { return c.Describe() })
	if v != nil {
		if vstat.Fail(v.sig, v.detail, c) {
			return
		}
		fatalf("VERIF-FAIL sig=%s :: %s\njson=%s", v.sig, v.detail, c.JSON())
	}
}

func TestC09SupervisionWindow(t *testing.T) {
	rapid.Check(t, func(rt *rapid.T) { check(t, rt.Fatalf, genCase(rt)) })
}

func TestReplay(t *testing.T) {
	p := os.Getenv("VERIF_REPLAY_CASE")
	if p == "" {
		t.Skip("no VERIF_REPLAY_CASE")
	}
	b, err := os.ReadFile(p)
	if err != nil {
		t.Fatal(err)
	}
	var c SCase
	var hr struct {
		Case *SCase `json:"case"`
	}
	if json.Unmarshal(b, &hr) == nil && hr.Case != nil && hr.Case.Park != "" {
		c = *hr.Case
	} else if err := json.Unmarshal(b, &c); err != nil {
		t.Fatal(err)
	}
	check(t, t.Fatalf, c)
}
