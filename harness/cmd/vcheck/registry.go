package main

import (
	"encoding/json"
	"fmt"
	"os"
	"path/filepath"
	"time"
)

// Unit is one test binary invocation pattern of a check.
type Unit struct {
	Name string
	Pkg  string // package dir below harness/
	Run  string // -test.run regexp

	QuickChecks     int // -rapid.checks per shard
	ThoroughChecks  int
	QuickShards     int
	ThoroughShards  int
	QuickTimeout    time.Duration
	ThoroughTimeout time.Duration

	Race         bool
	Tags         []string
	ThoroughOnly bool
	CaseFile     bool   // persist each case before executing it
	CrashOracle  string // clause name: death of the worker process is a verdict of this clause
	Env          map[string]string
	QuickEnv     map[string]string
	ThoroughEnv  map[string]string
	ExtraArgs    []string

	// overlay
	Inject  []Inject            // extra source files compiled into vivid packages
	Instr   []string            // repo-relative files rewritten by the yield-point instrumenter
	Windows map[string][]string // repo-relative file -> methods that get a window point before every statement (nil = all methods of *killedHandler / *Context in it)
}

// Inject adds a file to a package of /repo at build time (go build -overlay).
type Inject struct {
	RepoRel string // e.g. internal/actor/zz_verif_export.go
	Src     string // path below harness/, e.g. overlay/actor_export.go.txt
}

func (u *Unit) checks(tier string) int {
	if tier == "thorough" && u.ThoroughChecks > 0 {
		return u.ThoroughChecks
	}
	if u.QuickChecks > 0 {
		return u.QuickChecks
	}
	return 100
}

func (u *Unit) shards(tier string) int {
	n := u.QuickShards
	if tier == "thorough" {
		n = u.ThoroughShards
	}
	if n <= 0 {
		n = 1
	}
	return n
}

func (u *Unit) timeout(tier string) time.Duration {
	t := u.QuickTimeout
	if tier == "thorough" {
		t = u.ThoroughTimeout
	}
	if t == 0 {
		if tier == "thorough" {
			return 30 * time.Minute
		}
		return 5 * time.Minute
	}
	return t
}

func (u *Unit) tierEnv(tier string) map[string]string {
	if tier == "thorough" {
		return u.ThoroughEnv
	}
	return u.QuickEnv
}

// Check is everything registered for one property.
type Check struct {
	Units         []Unit
	Level         string
	Rule          string
	Assumptions   []string
	Serial        bool   // run shards one after the other (real-time checks)
	ExhaustiveKey string // description of the enumerated space, if any
}

func (c *Check) unit(name string) *Unit {
	for i := range c.Units {
		if c.Units[i].Name == name {
			return &c.Units[i]
		}
	}
	return &Unit{Name: name}
}

// makeOverlay writes the -overlay JSON for a unit ("" if it needs none).
func makeOverlay(u *Unit, work string) (string, error) {
	if len(u.Inject) == 0 && len(u.Instr) == 0 && len(u.Windows) == 0 {
		return "", nil
	}
	repl := map[string]string{}
	for _, in := range u.Inject {
		src := filepath.Join(harnessDir, in.Src)
		if _, err := os.Stat(src); err != nil {
			return "", err
		}
		repl[filepath.Join(repoDir, in.RepoRel)] = src
	}
	for _, rel := range u.Instr {
		src := filepath.Join(repoDir, rel)
		dst := filepath.Join(work, "instr-"+u.Name+"-"+filepath.Base(rel))
		if err := instrumentFile(src, dst); err != nil {
			return "", fmt.Errorf("instrument %s: %w", rel, err)
		}
		repl[src] = dst
	}
	for rel, fns := range u.Windows {
		src := filepath.Join(repoDir, rel)
		dst := filepath.Join(work, "win-"+u.Name+"-"+filepath.Base(rel))
		set := map[string]bool{}
		for _, fn := range fns {
			set[fn] = true
		}
		if err := instrumentWindows(src, dst, set); err != nil {
			return "", fmt.Errorf("window points %s: %w", rel, err)
		}
		repl[src] = dst
	}
	b, _ := json.MarshalIndent(map[string]any{"Replace": repl}, "", " ")
	p := filepath.Join(work, "overlay-"+u.Name+".json")
	return p, os.WriteFile(p, b, 0o644)
}

var registry = map[string]*Check{}

func init() {
	c07Overlay := []Inject{{RepoRel: "internal/actor/zz_verif_export.go", Src: "overlay/actor_export.go.txt"}}
	registry["C07"] = &Check{
		Rule: "generated histories of groups of {Start, Stop(timeout), cancel creating context} (a group is issued concurrently) over systems with a generated actor tree and an optional actor whose OnKill is gated; run inside a synctest bubble (virtual clock). Non-trivial = a concurrent group, or >=2 lifecycle calls with at least one issued after a successful Stop/cancel. Second unit ('any actor tree'): trees of 1-7 actors from the scenario engine of C03-C10 (own one-for-one / one-for-all strategies with every decision, failing OnLaunch incarnations, failing restart hooks = zombies, handlers that panic on OnKill / on a child's OnKilled / on their own OnKilled), a script of 1-5 failures / kills / spawns / watches executed right before - settled or racing - Stop(), Stop(50 ms | 1 s | 30 s) or the cancellation of the creating context; oracle: Stop returns nil within its timeout (no handler blocks in these trees), no actor context is registered afterwards (white-box table), no user code runs in the following 5 virtual minutes, a further Stop answers AlreadyStopped; slow terminators: 1-3 actors whose OnKill blocks on a gate that is opened after the Stop was issued, or only after a Stop(50 ms | 1 s) has timed out (then: the stop-failed error exactly at the timeout, later every actor gone and no goroutine left); non-trivial there = a nested tree or an actor that fails while terminating. Third unit ('with remoting', real sockets and clock): a system with 0-3 connections of kinds {answering vivid peer, dialled peer gone silent after the handshake, such a peer connected to the system, dialled peer that closed, a Tell to an unreachable address being retried, an actor that Tells an unreachable address from OnKill} is stopped by Stop() (timeout 8 s) or by cancelling its context; the system is a plain one, a self-seeded cluster node, a cluster node still joining an unreachable seed, or one whose Start cannot succeed (advertised address without a port; bind address in use - then: the following Stop and Start answer within 9 s and no library goroutine is left 15 s later); oracle: nil within the timeout, a further Stop answers AlreadyStopped within 500 ms, and after the answering peers are stopped too no goroutine with a frame of the library or its scheduler is left (polled for 25 s); non-trivial there = at least one connection. After every stop - clean or timed out - of the state-machine unit the goroutines of the bubble are counted once the slow actor has finished. Distinct = hash of the generated history. Unit spawnstop (generator-owned schedule): a top-level ActorOf issued from its own goroutine is parked at a drawn statement boundary of Context.ActorOf (window points inserted into a copy of context.go at check time, none inside a critical section) on a system with 0-3 top-level actors with 0-2 children each; meanwhile Stop (default or drawn timeout) or the context cancellation runs as far as it gets; then the spawn goes on (its actor may spawn 0-2 children in OnLaunch, a second ActorOf may follow). Oracle: ActorOf returns; Stop returns nil within its timeout; no actor is registered afterwards, the late actor - if it was launched - saw its own OnKilled, no user code runs later, a further Stop answers AlreadyStopped, no goroutine is left. Non-trivial there = the spawn was parked.",
		Assumptions: []string{
			"virtual clock and quiescence by testing/synctest (Go 1.26.8); goroutines of a concurrent group really run in parallel, their interleaving is the Go scheduler's",
			"remoting-enabled systems are exercised by the rlab-based checks (C11/C14), not here",
		},
		Units: []Unit{
			{Name: "sm", Pkg: "c07", Run: "^(TestC07StateMachine|TestC07Regressions)$", QuickChecks: 6000, ThoroughChecks: 60000, ThoroughShards: 16, CaseFile: true, Inject: c07Overlay},
			{Name: "net", Pkg: "c07", Run: "^TestC07StopWithRemoting$", Env: map[string]string{"VERIF_FAILFAST": "1"}, QuickChecks: 30, ThoroughChecks: 150, CaseFile: true, CrashOracle: "no-crash", Inject: c07Overlay, QuickTimeout: 15 * time.Minute, ThoroughTimeout: 60 * time.Minute},
			{Name: "tree", Pkg: "c07", Run: "^TestC07StopAnyTree$", QuickChecks: 6000, QuickShards: 4, ThoroughChecks: 80000, ThoroughShards: 16, CaseFile: true, CrashOracle: "no-crash", Inject: c07Overlay},
			{Name: "spawnstop", Pkg: "c07", Run: "^TestC07SpawnVsStop$", QuickChecks: 3000, ThoroughChecks: 10000, ThoroughShards: 8, CaseFile: true, CrashOracle: "no-crash", Inject: c07Overlay,
				Windows: map[string][]string{"internal/actor/context.go": {"ActorOf"}}},
		},
	}

	mbOverlay := []Inject{{RepoRel: "internal/mailbox/zz_verif_hooks.go", Src: "overlay/mailbox_hooks.go.txt"}}
	mbInstr := []string{"internal/mailbox/unbounded_mailbox.go"}
	registry["C01"] = &Check{
		Rule: "scenarios = ring size x 1-3 sender threads x 1-4 ops from {enqueue user, enqueue system, Pause, Resume}, messages may make the handler enqueue to / pause / resume its own mailbox; the interleaving of the real UnboundedMailbox code at every atomic op / queue op / handler call / goroutine spawn is chosen by the generator (random tape, sticky with drawn switch points) and, in the enumeration unit, ALL schedules with <= B preemptions of a finite scenario family. Non-trivial = at least one preemption between >= 2 threads actually occurred. Distinct = hash of (scenario, executed (thread, yield-site) sequence).",
		Assumptions: []string{
			"sync/atomic is sequentially consistent, RingQueue Push/Pop are linearizable under their mutex with a single consumer: so every execution produced by yielding before each shared access is a real behaviour and vice versa at this granularity",
			"instrumentation is generated from the working tree at check time (go build -overlay); nothing is committed to /repo",
		},
		ExhaustiveKey: "all schedules with <= B preemptions (B=2 quick on every 6th scenario, B=2 thorough on all) of 1-2 sender threads x 1-2 ops from 7 op shapes x ring {1,256}",
		Units: []Unit{
			{Name: "sched", Pkg: "c01", Run: "^(TestC01Schedules|TestC01Regressions)$", QuickChecks: 20000, ThoroughChecks: 150000, ThoroughShards: 14, Inject: mbOverlay, Instr: mbInstr, CaseFile: true},
			{Name: "enum", Pkg: "c01", Run: "^TestC01Exhaustive$", QuickShards: 8, ThoroughShards: 16, Inject: mbOverlay, Instr: mbInstr, CaseFile: true,
				QuickEnv: map[string]string{"VERIF_PREEMPT_BOUND": "2", "VERIF_SCENARIO_STRIDE": "6"}, ThoroughEnv: map[string]string{"VERIF_PREEMPT_BOUND": "2", "VERIF_SCENARIO_STRIDE": "1"}, ThoroughTimeout: 60 * time.Minute},
		},
	}

	registry["C16"] = &Check{
		Rule:        "triples (a,b,c) of version vectors over 1-6 node ids with counters from {0,1,2,3,small,2^62,2^63-2,2^63-1,uniform}, entries absent / explicit zero / present, built through Increment chains or ReadVersionVector on crafted bytes; b and c are sometimes derived as upper bounds so that chains and upper bounds are frequent. Oracle: pointwise reference order + the lattice laws on the implementation's own answers + operand snapshots + wire round trip. Non-trivial = the pair (a,b) is not identical and involves an absent-vs-zero entry, an explicit zero or a counter >= 2^62. Distinct = hash of the three vectors. Unit large: the same laws on vectors of 1 to 65535 generated ids (sizes at the implementation's own thresholds, unions on both sides of 65535 entries, id ranges disjoint / overlapping / nested, counter widths 2, 3, 1000, 2^40), reference = pointwise maximum and pointwise order over the union of ids; non-trivial there = union of at least 32768 ids.",
		Assumptions: []string{"vectors are built only through the package's public surface (Increment, Merge, Prune, Compact, ReadVersionVector)"},
		Units: []Unit{
			{Name: "laws", Pkg: "c16", Run: "^(TestC16Laws|TestC16Aliasing)$", QuickChecks: 60000, ThoroughChecks: 600000, ThoroughShards: 16},
			{Name: "large", Pkg: "c16", Run: "^TestC16Large$", QuickChecks: 12, QuickShards: 8, ThoroughChecks: 150, ThoroughShards: 16},
		},
	}
	registry["C17"] = &Check{
		Rule: "histories (1-25 steps) over 2-5 simulated nodes of bootstrap / join via a member seed (with tryJoinSeeds' generation bump) / restart / in-place suspect+recover / RemoveMember / IncrementVersion / epoch bump / gossip merge, every gossip merge checked for monotonicity and the changed flag; then a drawn triple of snapshots merged in every order under a drawn VersionConcurrentStrategy, MaxClockSkew and MaxVersionVectorEntries (0 or >= node count). Oracle: laws on the projection member -> (generation, logical clock). Non-trivial = the two views disagree on at least one shared member. Distinct = hash of the three views and options. The order-insensitivity laws (commutative, associative) are also checked on the records themselves (generation, logical clock, start stamp): two records of one member that agree in generation and logical clock but belong to different incarnations must not make the result depend on the merge order.",
		Assumptions: []string{
			"only nodes that are members of their own view act as join seed, failure detector or version incrementer (the default flow of NodeActor); a non-member incrementing its own vector entry lets a later merge prune that entry without reporting changed - observed, outside the generated domain, see DESIGN.md",
			"MaxVersionVectorEntries below the member count truncates by design and is not generated",
		},
		Units: []Unit{
			{Name: "laws", Pkg: "c17", Run: "^TestC17MergeLaws$", QuickChecks: 40000, ThoroughChecks: 400000, ThoroughShards: 16},
		},
	}

	registry["C15"] = &Check{
		Rule: "two real systems on loopback TCP (restarted every 25 cases and on every change of the Codec setting), with or without a user Codec on both; roles: operator X (an actor) and S (the system's root context) on system A, target T, forwarders F1 and F2 and a second watcher W on A or B by the generator (W, when on B, has the same path as X); a script of 1-7 operations from {Tell, Ask answered by an echo / a registered error / not at all, Ping, Watch and Unwatch by X or W (each followed by a Ping on the same ordered channel), ActorContext.PipeTo and Future.PipeTo with 1-2 forwarders out of F1, F2, X (request answered by an echo, a registered error, a plain Go error when T is on the asker's system, or not at all), Scheduler.Once, a burst of 8 messages to the other system whose registered writer fails (in both runs; only what follows is compared: every encode path shares pooled writers)}, payloads of 0-5000 bytes as a registered custom message or as a message only the Codec knows, optionally ending with Kill (poison or not, by X or S, reasons incl. commas and non-ASCII). The script runs twice on the same pair of systems: with every role on A, then with the drawn placement. Oracle (differential, the property's own statement): the ordered observations of every role (received payloads with content hash and sender role, ask results, pongs, OnKill with killer / poison / reason, OnKilled with the terminated role, PipeResult with payload and error class), references reduced to role names, are equal in both runs; no RemotingMessageDecodeFailedEvent. An expectation table (observations per operation) is used only to know when a step has settled; if the all-local run deviates from it the case is inconclusive (harness), never a verdict. Non-trivial = at least one role on the other system. Distinct = hash of the case.",
		Assumptions: []string{
			"a plain Go error is not a wire message: it is generated only as the result of a piped request whose target is local to the asker; error identity is compared by class (nil / *vivid.Error code and message / ErrorException for everything else), which is what the wire carries",
			"real-time waits are patience: an answered request gets 10 s, a step 12 s to produce its observations; absence of an observation is judged 150 ms after the last step",
			"observations are compared per role, not across roles (no global order between actors)",
		},
		Serial: true,
		Units: []Unit{
			{Name: "transparency", Pkg: "c15", Run: "^TestC15Transparency$", Env: map[string]string{"VERIF_FAILFAST": "1"}, QuickChecks: 60, ThoroughChecks: 1500, ThoroughShards: 4, CaseFile: true, CrashOracle: "no-crash", QuickTimeout: 20 * time.Minute, ThoroughTimeout: 120 * time.Minute},
		},
	}

	clusterOverlay := []Inject{{RepoRel: "internal/cluster/zz_verif_export.go", Src: "overlay/cluster_export.go.txt"}}
	registry["C18"] = &Check{
		Rule: "2-7 real cluster.NodeActor values in a deterministic discrete-event simulation on a virtual clock (package csim: one queue per node, handlers run to completion except inside Ask, per-link FIFO, every message through the library's remoting envelope codec, global math/rand seeded per case): seed layouts (one seed; two seeds listed by all = two self-seeded islands that must merge; mixed: every other node lists a drawn subset), start offsets 0-8 s in any order (a node may start before its seed: first join attempt fails), in regime S one case in five with a gossip rate limit of 1-3 messages per second and a burst of 1-2 on every node, per-message latencies 0-400 ms and losses from drawn tapes, a fault phase of 0-30 s (+ up to two detection timeouts) with 1-6 faults from {partition into two drawn sides, heal, reset of all connections (in-flight messages dropped), loss on/off, restart of a non-seed node (same address, or - 1 in 4 - a new one: the old address answers nobody any more), crash, graceful leave}; then every partition heals, losses stop and a quiet phase is observed. Regime S: failure-detection timeout longer than the scenario (no timeout can fire), quiet phase 180 s, strict oracle at its end: identical views (id, address, generation, incarnation stamp, status), membership == running nodes, every node computes the smallest running address as leader, exactly one node's last ClusterLeaderChangedEvent says IAmLeader and it is that node, no membership / leader event in the last third. Regime L: timeout 40 s (default), 10 s or 5 s, quiet phase 8 x (timeout + detection period) but at least 180 s, judged over its second half by sampling every timeout/8 (at least every 1.2 s): a running node absent from a running node's view in any sample, two nodes computing different leaders in any sample, membership or leader announcements inside the window, a dead node listed in every sample and never announced as removed = violations; a dead node that is listed again in some samples, and the membership announcements that follow from that in a case in which a node died, are the listed known findings (signatures dead-node-listed-again and ...|after-a-node-died). Both regimes: wherever a restarted node is listed in the window, the entry is its running incarnation's (stamp, address, generation); every node lists itself. Non-trivial = at least two kinds of fault happened, or a join attempt failed, or >= 3 nodes. Distinct = hash of the case.",
		Assumptions: []string{
			"'eventually' is read with a bounded horizon: 180 s (S) or 8 x 1.5 x the detection timeout, at least 180 s (L) after the last fault; a violation that needs longer to appear is missed, a convergence that needs longer would be reported - on the unchanged tree none of 16 000 generated cases needed longer",
			"the simulation replaces the actor runtime and TCP (covered by C01-C15) by their contracts; what the runtime adds (a Tell to an unreachable peer blocks the node for the reconnect back-off, known finding of C14) only delays a node",
			"a node that crashed or left without being restarted is only generated in regime L: without timeouts nothing can remove it",
			"white-box reads (NodeActor.clusterView) go through an overlay-only accessor file compiled into internal/cluster at check time",
		},
		Units: []Unit{
			{Name: "converge", Pkg: "c18", Run: "^TestC18Converges$", QuickChecks: 600, QuickShards: 8, ThoroughChecks: 20000, ThoroughShards: 16, CaseFile: true, CrashOracle: "no-crash", Inject: clusterOverlay, QuickTimeout: 20 * time.Minute, ThoroughTimeout: 120 * time.Minute},
		},
	}

	msgOverlay := []Inject{{RepoRel: "internal/messages/zz_verif_export.go", Src: "overlay/messages_export.go.txt"}}
	registry["C12"] = &Check{
		Rule: "message layer: for a registered wire type drawn from the registry (enumerated at run time through an overlay accessor; a type without a generator fails the harness) a value is generated field by field (empty/nil/zero/extreme constants mixed with uniform draws, nested messages to depth 3, nil message fields, absent refs), encoded with Writer.WriteMessage and decoded with Reader.ReadMessage; plus two messages back to back. Envelope layer: system flag x sender/receiver present/absent x internal/custom/Codec message. Primitive layer: 1-4 values of types drawn from a grammar (13 primitives, slices, arrays, structs, depth 3), both byte orders, by value and by pointer. Oracle: semantic equality (documented normalisations), reader position == bytes written. Non-trivial = the value differs from its type's zero value (message layer), contains a composite type (primitive layer), any envelope. Distinct = hash of the encoded bytes. Added: interface-typed message fields also carry messages only the Codec knows, one of them with an encoding of zero bytes; own test for the length-prefixed primitives (1-, 2-, 4-byte prefixes and WriteShortString) with lengths at and around 255 / 65535: whatever the writer accepts comes back unchanged with the following field in place, and it refuses only what the prefix cannot carry.",
		Assumptions: []string{
			"int-typed fields are drawn from the int32 range and time.Time from the UnixNano-representable range: the widths are the wire format's",
			"equality treats nil and empty slices/maps, a nil NodeState entry and an absent one, and errors with equal (code, message) as equal: the wire cannot tell them apart",
		},
		Units: []Unit{
			{Name: "rt", Pkg: "c12", Run: "^(TestC12Messages|TestC12Envelopes|TestC12Primitives|TestC12LengthPrefixes)$", QuickChecks: 15000, ThoroughChecks: 400000, ThoroughShards: 16, Inject: msgOverlay},
		},
	}
	c13Overlay := append(append([]Inject{}, msgOverlay...), Inject{RepoRel: "internal/remoting/zz_verif_export.go", Src: "overlay/remoting_export.go.txt"})
	registry["C13"] = &Check{
		Level: "fault_enumeration",
		Rule:  "decoders: for each sampled valid encoding (message and envelope encoding of a generated value of a registered type) EVERY truncation and EVERY single-byte replacement by {0x00,0x01,0x7f,0x80,0xff,+1,-1,space,tab,newline,'/',':','%','@'} (positions strided above 600 bytes) plus length fields overwritten with hostile constants, splices and random bytes are fed to DecodeEnvelopWithRemoting (also followed by the reference rebuilding of HandleRemotingEnvelop), Reader.ReadMessage, ReadVersionVector and (sampled) Handshake.Wait, with and without a Codec; every registered reader on crafted bodies; typed Reader.Read into destination types drawn from a grammar (incl. unsupported kinds) with a sentinel-filled destination. Encoders: values of types from a grammar that includes int, uint, uintptr, complex, map, chan, func, named scalars, nil interfaces, nil pointers at every depth; nil, non-pointer, typed-nil and nil-field messages with and without a Codec. Oracle: value or error - no panic, no worker death, allocation <= 64 x input + 16 MiB, destination unchanged on error. Non-trivial = every mutation case; typed reads / reader bodies with >= 4/8 input bytes. Distinct = hash of the case description. Frame level: the connection actor's own frame reader (overlay accessor to onReadConn, a pipe as the connection) is fed streams of 1-4 frames whose length fields are the exact length, every hostile 32-bit constant, off-by-one values and the neighbourhood of the 4 MiB limit, with valid, truncated or random bodies; oracle: no panic, memory bounded by the frame limit per frame, valid frames in front of the first hostile one reach the envelope handler. Encode unit, added: exported ActorRef fields hold a nil *actor.Ref (typed nil) in one draw of six.",
		Assumptions: []string{
			"allocation is measured with runtime/metrics /gc/heap/allocs:bytes around each decode (large allocations are accounted immediately)",
			"destination types with zero wire size per element ([]struct{}) are not generated: a transmitted count then drives a loop that consumes no input; no message of the library has such a field",
			"a worker killed by a fatal runtime error (stack overflow, out of memory) is a verdict of the clause no-crash; the case persisted before execution (test name + rapid seed) is the replay",
		},
		Units: []Unit{
			{Name: "enc", Pkg: "c13", Run: "^(TestC13EncodeValues|TestC13EncodeMessages)$", QuickChecks: 20000, ThoroughChecks: 300000, ThoroughShards: 4, Inject: c13Overlay, CaseFile: true, CrashOracle: "no-crash"},
			{Name: "dec", Pkg: "c13", Run: "^(TestC13RegisteredReaders|TestC13TypedRead)$", QuickChecks: 30000, ThoroughChecks: 400000, ThoroughShards: 4, Inject: c13Overlay, CaseFile: true, CrashOracle: "no-crash"},
			{Name: "frame", Pkg: "c13", Run: "^TestC13Frames$", QuickChecks: 3000, ThoroughChecks: 100000, ThoroughShards: 4, Inject: c13Overlay, CaseFile: true, CrashOracle: "no-crash"},
			{Name: "mut", Pkg: "c13", Run: "^TestC13DecodeMutations$", QuickChecks: 150, QuickShards: 4, ThoroughChecks: 2500, ThoroughShards: 8, Inject: c13Overlay, CaseFile: true, CrashOracle: "no-crash"},
		},
	}

	registry["C05"] = &Check{
		Rule: "world scenarios (DESIGN §3.5): trees of 1-5 probe actors (depth <= 3) with drawn supervision strategies / decision lists, providers, failing OnLaunch incarnations, failing restart hooks, failures while handling OnKill / OnKilled; scripts of 1-8 operations (tell with nested handler programs: tell, panic, Failed, kill, spawn, become/unbecome, watch/unwatch; kill poison or not; spawn incl. duplicate names) executed inside a synctest bubble, sequentially settled or racing (1 in 4); the system is stopped at the end. Oracle: per-actor lifecycle state machine over the complete behaviour trace + OnLaunch count = successful spawns + completed restarts per actor + instance rule (provider => fresh instance, none => same) + behaviour reset. Non-trivial = at least one completed restart. Distinct = hash of the scenario. Second unit: an actor assembled with the library's NewComplexCombinationActor from 1-4 components (nil entries in between), each with or without an OnPrelaunch hook that succeeds or returns an error; reference model: hooks in component order up to the first failure; a failure => ActorOf returns an error and no component ever receives a message, otherwise one OnLaunch per component in order; non-trivial there = a failing hook among several components. Actors of the lifecycle unit may also spawn a child while they are terminating (on a child's OnKilled). Unit window: the parked termination / restart chain of the window unit of C03 (see there: kill, graceful kill, restart, failure answered by Stop, kill of the parent; told, watched, killed again, name spawned again meanwhile), judged per actor instance: OnLaunch before anything else, nothing between the own OnKilled and the next OnLaunch of a restarted instance, never two OnLaunch in one incarnation, and a successor whose ActorOf returned no error is launched.",
		Assumptions: []string{
			"virtual clock / quiescence by testing/synctest; in racing mode the interleaving is the Go scheduler's",
			"a one-for-all Stop decision of the system (root) strategy is not generated: it also terminates the harness's observer actor",
		},
		Units: []Unit{
			{Name: "combo", Pkg: "c05", Run: "^TestC05Combination$", QuickChecks: 3000, ThoroughChecks: 30000, ThoroughShards: 2, CaseFile: true},
			{Name: "window", Pkg: "cwin", Run: "^TestC05Window$", Env: map[string]string{"VERIF_PROPERTY": "C05"}, QuickChecks: 6000, ThoroughChecks: 60000, ThoroughShards: 12, CaseFile: true, CrashOracle: "no-crash", Inject: []Inject{{RepoRel: "internal/actor/zz_verif_export.go", Src: "overlay/actor_export.go.txt"}},
				Windows: map[string][]string{"internal/actor/killed_handler.go": nil}},
			{Name: "life", Pkg: "c05", Run: "^TestC05Lifecycle$", QuickChecks: 6000, ThoroughChecks: 60000, ThoroughShards: 16, CaseFile: true, CrashOracle: "no-crash"},
		},
	}

	registry["C03"] = &Check{
		Rule: "world scenarios: trees of 1-5 actors with drawn supervision, providers, failing OnLaunch / restart hooks; scripts of 1-10 operations (tell with nested programs: tell, panic, Failed, kill, stash/unstash(n), spawn) where every tell draws its target (incl. paths that never existed) and the provenance of the reference (ref returned by ActorOf, Clone, ParseRef, CreateRef, FindActor); sequential or racing (1 in 4); 1 in 10 cases runs the whole script against an already stopped system. Oracle (conservation, evaluated at quiescence after all timers expired): every user message id handed to Tell ends in exactly one of {handled once, in the stash, one dead letter}; after Stop: no handler runs and the case becomes quiescent (bounded work). Non-trivial = a send whose target was not plainly running at send time (never existed / terminated / paused / zombie) or whose reference was not the cached one. Distinct = hash of the scenario. Unit window (generator-owned schedule): the termination / restart chain of one actor (top level or a child, with 0-2 children; kill, graceful kill, restart, failure answered by Stop, kill of its parent) is parked at a drawn statement boundary of killed_handler.go (window points inserted into a copy at check time); meanwhile and afterwards it is told through every kind of reference (spawn ref, clone, parsed, created, FindActor), watched, killed again, looked up, and its name is spawned again; every one of those user messages must end up processed (by the actor, the restarted actor or the successor) or dead-lettered, exactly once. Non-trivial there = the point was reached. Stash clause, restarted actors: an actor that was spawned once, was restarted and is running at the end still holds (white-box stash length) every message it stashed and never got back, unless that message was published as a dead letter (the stash belongs to the actor, not to the instance).",
		Assumptions: []string{
			"the documented zombie exception: a message sent to an actor that became a zombie in the run is exempt from the lost clause",
			"target state classes are derived from the behaviour trace and event stream up to the send; in racing mode the interleaving is the Go scheduler's",
		},
		Units: []Unit{
			{Name: "cons", Pkg: "c03", Run: "^TestC03Conservation$", QuickChecks: 5000, ThoroughChecks: 50000, ThoroughShards: 16, CaseFile: true, CrashOracle: "no-crash", Inject: []Inject{{RepoRel: "internal/actor/zz_verif_export.go", Src: "overlay/actor_export.go.txt"}}},
			{Name: "window", Pkg: "cwin", Run: "^TestC03Window$", Env: map[string]string{"VERIF_PROPERTY": "C03"}, QuickChecks: 6000, ThoroughChecks: 60000, ThoroughShards: 12, CaseFile: true, CrashOracle: "no-crash", Inject: []Inject{{RepoRel: "internal/actor/zz_verif_export.go", Src: "overlay/actor_export.go.txt"}},
				Windows: map[string][]string{"internal/actor/killed_handler.go": nil}},
		},
	}

	registry["C08"] = &Check{
		Rule: "sequential world scenarios: 2-7 actors (depth <= 3) each with its own strategy (one-for-one / one-for-all) and a list of 1-2 decisions from {restart, graceful restart, stop, graceful stop, resume, escalate} or inheriting the system strategy (library default Stop, or a drawn one); providers; failing OnLaunch incarnations; failures while handling OnKill / own OnKilled / a child's OnKilled; then 1-6 tells, each plain or failing by panic / ctx.Failed. The world is settled after every operation and a reference model of the supervision effect table predicts the consultations (supervisor, failing child, decision, in order), the ActorFailedEvents, the live set, each actor's OnLaunch count, the set of touched actors, the delivery count of the operation's message and the state counter of the handling instance. Cases are judged up to (not including) the first cascade of >= 2 failures or concurrent failures, where the outcome is the scheduler's. Non-trivial = a supervised failure with at least one untouched live actor or a failing child that has children. Distinct = hash of the case.",
		Assumptions: []string{
			"decision makers are harness closures keyed by supervisor; consultations of the library's own default strategy are not observable and not compared",
			"a one-for-all Stop of the system strategy is not generated (it stops the observer)",
		},
		Units: []Unit{
			{Name: "matrix", Pkg: "c08", Run: "^TestC08Matrix$", QuickChecks: 8000, ThoroughChecks: 80000, ThoroughShards: 16, CaseFile: true, CrashOracle: "no-crash"},
		},
	}

	actorOverlay := []Inject{{RepoRel: "internal/actor/zz_verif_export.go", Src: "overlay/actor_export.go.txt"}}
	registry["C09"] = &Check{
		Rule: "C08's trees (2-7 actors, every decision x strategy, providers, failing OnLaunch incarnations) plus failing restart hooks (OnPreRestart / OnRestarted / OnPrelaunch-on-restart, by error or panic); 1-3 bursts of 3-12 messages queued behind a gated handler with the failing message at a drawn position (optionally a second failing message), bursts released one after the other or together (concurrent failures of several actors); at quiescence probes are sent to every live actor, zombies are optionally killed. Oracle: white-box IsPaused / lifecycle state of every registered actor (overlay accessor) + conservation and order of the queued burst + delivery to a surviving target + probes handled exactly once + zombie clauses (no user code after the failed hook, no termination notice, released by Kill with exactly one OnKilled to its parent). Non-trivial = a message was queued behind the failing one or the target survived the failure. Distinct = hash of the case. Unit supwindow (generator-owned schedule): a supervisor s (one-for-one or one-for-all, 1-3 drawn decisions) with children x (optionally with a provider and a grandchild) and y under a drawn system strategy; x fails (panic or Failed) with 0-3 messages queued behind; one of s, x, y is parked at a drawn statement boundary of what follows (window points inserted at check time into copies of context.go: failed / onSupervise / onRestart / onKill / doKill / onCommand, supervision_context.go and killed_handler.go; the index is folded into the number of points the actor really passes) while the rest of the system runs ahead and 0-4 outside operations happen (kill or graceful kill of x, y, s or the grandchild, a second failure, ordinary mail); after the release 0-3 more. Oracle: at quiescence no registered non-zombie actor is paused or in a state other than running, a message sent afterwards to every address is handled exactly once by a living actor / handled or dead-lettered exactly once otherwise, every message sent in between ended in exactly one place. Non-trivial there = an actor was parked. Unit combo: an actor assembled with NewComplexCombinationActor from 1-4 components, each with or without OnPreRestart / OnRestarted / OnPrelaunch hooks that succeed or return an error on restart; a failure answered by Restart, then two more messages; reference model: hooks in component order up to the first failure, any failing OnRestarted / OnPrelaunch => zombie (no component sees OnLaunch or later mail), otherwise one OnLaunch and every later message per component, in order. Non-trivial there = a zombie with more than one component.",
		Assumptions: []string{
			"for a failing OnPreRestart both outcomes (restart continues / actor becomes a zombie) are accepted: the documentation and the code disagree and the property only requires 'not stuck'",
			"white-box reads go through an overlay-only accessor file compiled into internal/actor at check time",
		},
		Units: []Unit{
			{Name: "stuck", Pkg: "c08", Run: "^TestC09NotStuck$", QuickChecks: 8000, ThoroughChecks: 80000, ThoroughShards: 16, CaseFile: true, CrashOracle: "no-crash", Inject: actorOverlay},
			{Name: "supwindow", Pkg: "c09w", Run: "^TestC09SupervisionWindow$", QuickChecks: 3000, QuickShards: 4, ThoroughChecks: 80000, ThoroughShards: 16, CaseFile: true, CrashOracle: "no-crash", Inject: actorOverlay,
				Windows: map[string][]string{"internal/actor/context.go": {"failed", "onSupervise", "onRestart", "onKill", "doKill", "onCommand"}, "internal/actor/supervision_context.go": nil, "internal/actor/killed_handler.go": nil}},
			{Name: "combo", Pkg: "c09w", Run: "^TestC09CombinationRestart$", QuickChecks: 3000, ThoroughChecks: 30000, ThoroughShards: 4, Inject: actorOverlay},
		},
	}
	// C08's package also contains the C09 test file, which needs the accessor
	registry["C08"].Units[0].Inject = actorOverlay

	registry["C06"] = &Check{
		Rule:        "trees of 2-8 actors (depth <= 4; handlers that panic on OnKill / on their own OnKilled), a set-up of 0-8 Watch / Unwatch / Subscribe / Unsubscribe / Loop-job operations, then 1-4 kills (poison or not, from outside or from an actor, through the spawn ref, a clone or a parsed ref, repeated on the same victim, with or without settling in between), spawns in the victim right before / after the kill, late watchers racing the termination; afterwards 5 virtual seconds pass and one event of every type is published. Oracle over the complete trace, the event stream and white-box tables: every descendant of a victim terminated; ActorKilledEvent of an actor after those of all its descendants; one ActorKilledEvent per life, none for survivors; parent and every registered watcher (Watched / Unwatched events before the termination) got exactly one OnKilled, nobody else any; FindActor fails; no event-stream entry; no delivery and no dead letter of events or scheduled messages after the termination; the parent can reuse the name. Non-trivial = a victim with descendants, a notified watcher or a repeated kill. Distinct = hash of the case. Unit window: the same parked termination chain as in C03 (see there) judged by C06: exactly one ActorKilledEvent per termination, parent and every watcher registered before the termination began notified exactly once (watchers that register inside the window: at most once), children reported before the parent, and as soon as the actor has been reported terminated (the parent has handled its OnKilled or the ActorKilledEvent is out) FindActor fails and the parent can reuse the name - inside the window, after the release and at quiescence. Unit replace: a supervisor (top-level or nested) replaces its named child 1-3 times - in three cases of four inside ONE handler (kill, wait until FindActor fails, spawn the same name; the predecessor's OnKilled is still queued in the supervisor's mailbox when the successor is registered), otherwise in two settled steps - the child has 0-2 children of its own; then the supervisor or its parent is killed (poison or not). Oracle: every replacement succeeded, nothing at or below the killed actor is registered at quiescence, every life of the child terminated, the supervisor received one OnKilled per life, the child was reported before the supervisor. Non-trivial there = replaced inside one handler.",
		Assumptions: []string{"racing parts (kills without settling, late watchers) sample Go-scheduler interleavings; the oracle holds on every interleaving"},
		Units: []Unit{
			{Name: "kill", Pkg: "c06", Run: "^TestC06KillSubtree$", QuickChecks: 6000, ThoroughChecks: 60000, ThoroughShards: 12, CaseFile: true, CrashOracle: "no-crash", Inject: actorOverlay},
			{Name: "replace", Pkg: "c06", Run: "^TestC06ReplaceThenKill$", QuickChecks: 300, QuickShards: 2, ThoroughChecks: 3000, ThoroughShards: 8, CaseFile: true, CrashOracle: "no-crash", Inject: actorOverlay},
			{Name: "storm", Pkg: "c06", Run: "^TestC06RespawnStorm$", QuickChecks: 60, QuickShards: 4, ThoroughChecks: 600, ThoroughShards: 8, CaseFile: true, CrashOracle: "no-crash", Inject: actorOverlay},
			{Name: "window", Pkg: "cwin", Run: "^TestC06Window$", Env: map[string]string{"VERIF_PROPERTY": "C06"}, QuickChecks: 6000, ThoroughChecks: 60000, ThoroughShards: 12, CaseFile: true, CrashOracle: "no-crash", Inject: actorOverlay,
				Windows: map[string][]string{"internal/actor/killed_handler.go": nil}},
		},
	}

	registry["C04"] = &Check{
		Rule: "virtual time (synctest): 2-4 actors, 1-8 Asks from the system or from actors, issued at 0-3 ms, timeouts 1-5 ms, the target replying after a delay drawn around the timeout (0, t-1, t, t+1, any), never, twice or with an error value; 1-4 Result/Wait callers per future; Future.PipeTo with 1-3 forwarders at a drawn instant (before, at, after completion); ActorContext.PipeTo; Close(err) at a drawn instant; askers / targets / forwarders terminated at drawn instants (immediate or poison kill; a kill that abandons a restart waiting for a slow child; a kill that releases a zombie; a supervisor's Stop decision); in a third of the cases the system and some actors have their own default Ask timeout (1-6 ms) and Asks are issued without a timeout argument; a second Future.PipeTo call with an overlapping forwarder set right after the first. A reference model computes the earliest completing cause per Ask (ties accept either); oracle: every waiter returned, at exactly the model's virtual instant, with the model's value (own reply id, timeout not before t, actor-dead), all waiters agree, every live forwarder got exactly one matching PipeResult, and the white-box future tables are empty afterwards. Real clock (-race, real threads): 4-16 goroutines x 200 Asks with timeouts 1 ns - 50 ms, PipeTo racing the completion from another goroutine, askers killed while their futures complete; oracle: own reply or timeout, one PipeResult per piped future, tables empty, no race report, process alive. Non-trivial = two completion causes within 1 ms of each other (virtual) / every real-clock round. Distinct = hash of the case. Virtual unit, added: an actor that only asks may be killed and spawned again under its name at the same instant; its later asks are issued by the new incarnation while replies to the old one are still due (a reply must never complete a request of the new incarnation). Unit slowfwd (real clock, remoting enabled): a pending future is piped to a forwarder on a system that refuses connections (the delivery is retried with back-off for seconds on the completing goroutine), then completes by timeout, reply or Close; its 1-3 waiters must return when it completes, not when the delivery ends. Real-clock unit, added: a PipeResult that carries neither the reply nor an error is a violation (every future of the unit completes with one of them).",
		Assumptions: []string{
			"timeouts are > 0 (non-positive values are documented as 'no timer')",
			"the real-clock unit samples thread interleavings; the race detector only reports races that occur in an executed schedule",
		},
		Serial: false,
		Units: []Unit{
			{Name: "virt", Pkg: "c04", Run: "^TestC04Asks$", QuickChecks: 8000, ThoroughChecks: 80000, ThoroughShards: 12, CaseFile: true, CrashOracle: "no-crash", Inject: actorOverlay},
			{Name: "real", Pkg: "c04", Run: "^TestC04RealClock$", Race: true, QuickShards: 2, ThoroughShards: 4, CaseFile: true, CrashOracle: "no-crash", Inject: actorOverlay, QuickTimeout: 10 * time.Minute, ThoroughTimeout: 40 * time.Minute},
			{Name: "slowfwd", Pkg: "c04", Run: "^TestC04SlowForwarder$", QuickShards: 2, ThoroughShards: 4, CaseFile: true, CrashOracle: "no-crash", Inject: actorOverlay, QuickTimeout: 10 * time.Minute, ThoroughTimeout: 40 * time.Minute},
		},
	}

	registry["C02"] = &Check{
		Rule:          "(a) RingQueue as a rapid state machine against a Go-slice FIFO: initial size in {1..9,256}, push/pop ratio drawn per case, bursts up to 2x capacity, Pop / PopMany(n) / Length / Empty after every step; plus the exhaustive enumeration of every (initial size 1-9, pushed-before 0..2s+1, popped-before 0..pushed) boundary case pushed through two growths; (b) 2-8 real producer threads x 100-20000 items against the single consumer under -race; (c) runtime: 1-4 senders (goroutines or actors, sequential or concurrent) with bursts drawn around every growth boundary of the 256-slot mailbox ring (254..257, 511..513, 1023, 1025, 2049, 5000, +-1) into a target blocked in its first handler, one sender killing the target (poison or immediate) after a drawn number of its sends and sending on; stash scripts of 2-30 messages (Stash, Unstash(), Unstash(n) incl. n <= 0 and n > count) against a queue+stash reference model. Oracle: model equality (a, stash), per-producer order + multiset (b), per-sender order, exactly-once-or-dead-letter, nothing handled after OnKill, immediate kill overtakes all queued mail, poison kill after everything its sender enqueued before it (c). Non-trivial = growth while the content is wrapped (a), every concurrent round (b), a grown ring or a kill with >= 2 queued messages (c), a partial Unstash(1 < n < count). Distinct = hash of the case. A quarter of the stash scripts' messages are delivered by the scheduler (Once, delay 0, settled) instead of Tell. System-first unit: a supervisor that kills itself immediately from its handler of a child's OnKilled, with 1-6 user messages already waiting: none of them is handled, all are dead letters.",
		Assumptions:   []string{"the ring has exactly one consumer (the mailbox's contract); size 0 is outside the domain (division by zero; the only caller passes 256)"},
		ExhaustiveKey: "ring boundary enumeration: all (size 1-9, pushed-before, popped-before) cases",
		Units: []Unit{
			{Name: "ring", Pkg: "c02", Run: "^(TestC02RingModel|TestC02RingBoundaries)$", QuickChecks: 8000, ThoroughChecks: 200000, ThoroughShards: 8},
			{Name: "ringmt", Pkg: "c02", Run: "^TestC02RingConcurrent$", Race: true, QuickTimeout: 10 * time.Minute, ThoroughTimeout: 40 * time.Minute},
			{Name: "order", Pkg: "c02", Run: "^(TestC02Order|TestC02Stash|TestC02SystemFirst)$", QuickChecks: 1500, ThoroughChecks: 20000, ThoroughShards: 12, CaseFile: true, CrashOracle: "no-crash"},
		},
	}

	registry["C19"] = &Check{
		Rule:        "2-6 actors (some with providers), event types of value and pointer kind, a settled prefix of 0-10 and a script of 1-14 operations from {Subscribe (also repeated), Unsubscribe, UnsubscribeAll, Publish from an actor or from outside, kill a subscriber, restart a subscriber (failure answered by Restart)}, executed sequentially settled or racing (1 in 4). Sequential oracle: for every publication the receivers equal the reference model's subscriber set of that concrete type at that point, each exactly once, nobody else, no dead letter; racing oracle: never twice, never to an actor that was not subscribed at any time, exactly once to actors subscribed throughout. Always: per (publisher, subscriber) publication order, both event-stream tables at quiescence equal the model (white box), a final publication of every type reaches exactly the model's subscribers (restart keeps subscriptions). Non-trivial = a publication with >= 2 subscribers and >= 1 former subscriber (sequential) / >= 2 actors subscribed throughout (racing). Distinct = hash of the case. Unit handover (generator-owned schedule): the termination / restart chain of subscriber a (kill, graceful kill, restart, restart that fails in OnRestarted) is parked at a drawn statement boundary of killed_handler.go (window points inserted into a copy at check time); meanwhile the name is spawned again (the successor subscribes in OnLaunch or later), bystanders and the successor subscribe / unsubscribe / publish; after the release more of the same, a kill of the zombie, final publications. Oracle: exactly once to every party whose subscription is determined (bystanders, the successor, the restarted actor incl. publications made during its restart), nobody else, nothing to the terminated predecessor, tables at quiescence equal the model. Non-trivial there = the point was reached and the actor parked.",
		Assumptions: []string{"failures are answered by a one-for-one Restart of the system strategy so that 'restart keeps subscriptions' is exercised", "handover unit: what the terminating actor itself (or a zombie) still receives while it stands inside its termination is not judged"},
		Units: []Unit{
			{Name: "es", Pkg: "c19", Run: "^TestC19EventStream$", QuickChecks: 8000, ThoroughChecks: 80000, ThoroughShards: 16, CaseFile: true, CrashOracle: "no-crash", Inject: actorOverlay},
			{Name: "handover", Pkg: "c19", Run: "^TestC19Handover$", QuickChecks: 6000, ThoroughChecks: 60000, ThoroughShards: 16, CaseFile: true, CrashOracle: "no-crash", Inject: actorOverlay,
				Windows: map[string][]string{"internal/actor/killed_handler.go": nil}},
		},
	}

	registry["C20"] = &Check{
		Rule: "virtual time (synctest), 100 ms grid over a horizon of 1-4.5 s: 1-3 actors and 1-10 timed operations from {Once(delay in 0, 1 ns, 100 ms, 250 ms, 300 ms, 1 s, 2 h), Loop(interval in 100 ms .. 3 s), Cron(valid every-2-seconds expression / invalid expression), Cancel(reference), Cancel(unknown), Clear, kill the owner, restart the owner (failure answered by Restart)} with 3 shared reference names, self or another actor as receiver. A reference model computes for every job the exact firing instants up to its end (cancel / clear / owner termination / owner restart): instants strictly before the end must fire exactly once, instants after it never (neither as a delivery nor as a dead letter), the end instant itself may or may not fire; return values: invalid cron => parse error and no delivery ever, Cancel(unknown) => not-found, others nil; the delivery carries the original message value to the named receiver. A reference that is reused while its previous job may still be live is not judged (unspecified). Non-trivial = a job ended between two of its firing instants. Distinct = hash of the case. Unit mailbox: the receiver is busy (its handler waits at a gate) with 0-3 ordinary messages queued; a Once or Loop job of another actor or of the receiver itself fires meanwhile; 0-2 more messages follow; then the gate opens: the scheduled message is handled after everything queued before its firing instant and before everything sent after it. Non-trivial there = at least one message was queued before the firing instant.",
		Assumptions: []string{
			"go-quartz fires at exact instants on the virtual clock; two jobs due at the same instant may reach the mailbox in either order (compared per job, not across jobs)",
			"the cron clause uses one valid expression (*/2 * * * * *) on a clock that starts at a whole second",
		},
		Units: []Unit{
			{Name: "sched", Pkg: "c20", Run: "^TestC20Scheduler$", QuickChecks: 8000, ThoroughChecks: 80000, ThoroughShards: 16, CaseFile: true, CrashOracle: "no-crash"},
			{Name: "mailbox", Pkg: "c20", Run: "^TestC20ThroughTheMailbox$", QuickChecks: 300, ThoroughChecks: 2000, ThoroughShards: 2, CaseFile: true, CrashOracle: "no-crash"},
		},
	}

	registry["C10"] = &Check{
		Rule:        "real threads, real clock, -race: per round 4-32 goroutines x 150-400 operations drawn (from the round's seed) from System.ActorOf, Tell, Ask + Result/Wait/Close from three goroutines, Ask + Future.PipeTo from a second goroutine racing reply / timeout / Close (forwarders are three actors outside the pool of victims), Kill (poison or not), FindActor, Ref.Clone/String/Equals/GetPath/GetAddress/ToActorRefs on shared reference objects, messages that make actors spawn 1-3 children / panic / kill themselves, event-stream Publish / Subscribe / Unsubscribe from outside and from actors; the system strategy is one of Restart / Stop / Resume / graceful variants, one-for-one or one-for-all. Oracle: the process survives (worker death = verdict), zero race-detector reports (each reduced to the pair of vivid functions), own replies only, every forwarder received exactly one PipeResult per piped future (no successful result twice), and at quiescence (registry unchanged over 5 polls) the tree is consistent: registry == set reachable from the root through child tables, every child's parent registered, nobody registered while terminated / terminating / paused; Stop succeeds. Non-trivial = a round with >= 2 goroutines and >= 1 kill overlapping spawns. Distinct = hash of (seed, round).",
		Assumptions: []string{"dynamic race detection on sampled schedules: it reports only races that occur in an executed schedule", "quiescence is detected by polling the registry; a round that does not settle in 30 s is not judged for tree consistency (noted in evidence)"},
		Units: []Unit{
			{Name: "stress", Pkg: "c10", Run: "^TestC10Stress$", Race: true, QuickShards: 4, ThoroughShards: 8, CaseFile: true, CrashOracle: "no-crash", Inject: actorOverlay, QuickTimeout: 15 * time.Minute, ThoroughTimeout: 60 * time.Minute},
		},
	}

	registry["C11"] = &Check{
		Rule:        "two real systems on loopback TCP (fresh per case, real clock) with the generator's byte-level proxy between sender and receiver: 1-4 concurrent senders x bursts of 1-600 (2000 in thorough) messages with body sizes from {0,1,2,100,1000,4090,4094..4097,5000,65535,70000, 1 MiB, 4 MiB-1000, 4 MiB-400 (the envelope adds up to ~140 bytes)}, every k-th message an Ask (reply must come back), optionally a burst in the other direction, in one case of three every k-th Tell (k in 1,2,3,7) a message the receiving side's registered reader rejects (it cannot be delivered; everything around it must be, on the same connection); the proxy re-chunks the sender's byte stream by a drawn plan: frame-exact, 1-byte writes, 2-50 frames coalesced into one write, every frame split at a drawn offset 1-12, fixed chunks of 1-4096 bytes; two further shapes: frames whose announced length is exactly 4 MiB-d for d in 1..8 (the body length is computed with the library's own envelope encoder) alternating with tiny ones, and concurrent first contact (2-6 goroutines released together as the very first traffic towards the peer, sender 0 starting with a 70 KB-2 MiB message followed by tiny ones; also a unit of its own); plus fixed regression shapes incl. a connection that has been idle for 10.6 s. Loss is decided without a timeout oracle: after the burst, fence messages are sent one at a time on the idle link; once one is processed everything before it has been consumed (TCP order); if none arrives and the receiver reported nothing, the case is inconclusive (not counted). Oracle: per sender exactly 0..n-1 in order, byte-identical; every Ask got the reply to its own request; the sender reference seen by the receiver is the sending system; no RemotingMessageDecodeFailedEvent; an idle connection is not torn down by the library. Non-trivial = the proxy made at least one write that ended inside a frame or contained a frame boundary, or the case is a near-limit or concurrent-first-contact one. Distinct = hash of the case. Added: in one case in four the path towards the receiver holds the dialler's handshake back for 5-60 ms and hands over in one piece whatever the dialler has sent by then (a conforming dialler sends nothing before the handshake is answered, so on a correct tree this is a delay); near-limit frames now include the largest legal frame, exactly 4 MiB.",
		Assumptions: []string{"read boundaries at the receiver are influenced by the proxy's writes (with pauses), not dictated; the oracle does not depend on them", "real-time waits are patience only: a fence that never arrives without any receiver-side event makes the case inconclusive"},
		Serial:      true,
		Units: []Unit{
			{Name: "link", Pkg: "c11", Env: map[string]string{"VERIF_FAILFAST": "1"}, Run: "^(TestC11HealthyLink|TestC11Regressions)$", QuickChecks: 25, ThoroughChecks: 400, ThoroughShards: 4, CaseFile: true, CrashOracle: "no-crash", QuickTimeout: 15 * time.Minute, ThoroughTimeout: 90 * time.Minute},
			{Name: "first-contact", Pkg: "c11", Env: map[string]string{"VERIF_FAILFAST": "1"}, Run: "^TestC11FirstContact$", QuickChecks: 40, ThoroughChecks: 400, ThoroughShards: 2, CaseFile: true, CrashOracle: "no-crash", QuickTimeout: 15 * time.Minute, ThoroughTimeout: 90 * time.Minute},
		},
	}

	registry["C14"] = &Check{
		Level: "fault_enumeration",
		Rule:  "two real systems on loopback with the generator's fault proxy (fresh per case): (1) a stream of 3-6 frames (bodies 0-1000 bytes) with the connection cut after a byte offset - in the enumeration unit EVERY offset of a fixed 4-frame stream (thorough) or every frame boundary +-2 and the first bytes (quick), in the random unit offsets drawn near boundaries and anywhere; (2) the next 1-5 connection attempts refused against a ReconnectLimit of 0-3 or a negative one (set through the public options struct; documented as 'less than 1 means no retry'); (3) the peer stopped and restarted on the same addresses between bursts; (4) an injected well-framed but undecodable body of 1-5000 bytes before a drawn frame; (4b) an injected well-framed envelope that decodes but cannot be routed (empty / malformed sender address, sender path without a slash, receiver path with blanks or of no actor, malformed receiver address); (5) an injected length prefix above the 4 MiB limit; (2b, also a unit of its own) two outages of the same peer: the first survived by retrying (1..limit refusals), traffic, then the connection dropped and 1..limit-1 attempts refused - one failed write plus those refusals stay within the limit, so no message may be given up and the last one must arrive; after every fault the proxy heals and the sender sends again. Oracle: the receiver's sequence is a subsequence of what was sent (no duplicate, no reordering, bodies byte-identical, nothing invented); refused attempts >= limit+1 => exactly one dead letter on the sending side and no delivery, fewer => delivered by a retry and no dead letter; after an undecodable body or an unroutable envelope every real frame of the same connection is delivered; after any fault the link recovers (a probe is delivered within 8 attempts) and every message sent after that is delivered; no message is dead-lettered twice. (6) Tell with the peer unreachable: the caller's goroutine is looked for in the reconnect loop by a stack scan (the property's own observation point). Non-trivial = the cut fell strictly inside a frame, or a retry / refusal / injection / restart happened. Distinct = hash of the case. Added: undecodable injected frames whose announced length is the largest the receiver accepts (4 MiB) or one byte less, drawn and as two fixed cases.",
		Assumptions: []string{
			"frames that the kernel accepted before a cut may be lost (TCP): loss is allowed, only corruption / duplication / reordering is not",
			"after an invalid length prefix the stream cannot be resynchronised: only no-crash, no corrupted delivery and recovery on a new connection are required",
			"real-time waits (8 s per message) are patience; a case whose lab does not start is inconclusive and not counted",
		},
		ExhaustiveKey: "connection cut after every byte offset of a fixed 4-frame stream (thorough tier)",
		Units: []Unit{
			{Name: "faults", Pkg: "c14", Env: map[string]string{"VERIF_FAILFAST": "1"}, Run: "^TestC14Faults$", QuickChecks: 25, ThoroughChecks: 300, ThoroughShards: 4, CaseFile: true, CrashOracle: "no-crash", QuickTimeout: 20 * time.Minute, ThoroughTimeout: 120 * time.Minute},
			{Name: "outages", Pkg: "c14", Env: map[string]string{"VERIF_FAILFAST": "1"}, Run: "^TestC14TwoOutages$", QuickChecks: 6, ThoroughChecks: 40, ThoroughShards: 2, CaseFile: true, CrashOracle: "no-crash", QuickTimeout: 20 * time.Minute, ThoroughTimeout: 120 * time.Minute},
			{Name: "cuts", Pkg: "c14", Run: "^TestC14CutEveryOffset$", ThoroughShards: 8, CaseFile: true, CrashOracle: "no-crash", QuickTimeout: 20 * time.Minute, ThoroughTimeout: 120 * time.Minute},
			{Name: "tell", Pkg: "c14", Run: "^TestC14TellDoesNotBlock$", CaseFile: true},
		},
	}
}
