// vcheck is the driver of the /verif machinery: it builds the test binaries of
// one property against /repo's current working tree (with generated overlay
// instrumentation where a check needs it), runs them with a seed derived from
// VERIF_SEED, aggregates what they executed into /verif/evidence/<id>.json and
// maps the outcome to the exit code contract:
//
//	0  the property held on everything explored
//	1  a violation that /verif/known_findings.json does not list
//	   (stdout: VIOLATION property=<id> replay=<path>)
//	2  inconclusive (harness build failure, timeout, worker death that is not
//	   itself an oracle)
package main

import (
	"bytes"
	"encoding/json"
	"flag"
	"fmt"
	"os"
	"os/exec"
	"path/filepath"
	"regexp"
	"sort"
	"strconv"
	"strings"
	"sync"
	"time"
)

const goBin = "go1.26.8"

var (
	verifDir = envOr("VERIF_DIR", "/verif")
	repoDir  = envOr("VERIF_REPO", "/repo")
	// a seeded change is tried on a scratch worktree (VERIF_REPO) while other runs use /repo: such a
	// run keeps its scratch files, evidence and replays out of the registered locations
	workRoot    = envOr("VERIF_WORKROOT", "")
	evidenceDir = envOr("VERIF_EVIDENCE_DIR", "")
	replaysDir  = envOr("VERIF_REPLAYS_DIR", "")
	harnessDir  string
)

func envOr(k, d string) string {
	if v := os.Getenv(k); v != "" {
		return v
	}
	return d
}

// Summary mirrors vstat.Summary.
type Summary struct {
	Evaluations   int64             `json:"evaluations"`
	Nontrivial    int64             `json:"nontrivial"`
	Distinct      []uint64          `json:"distinct"`
	DistinctSat   bool              `json:"distinct_saturated"`
	Labels        map[string]int64  `json:"labels"`
	Samples       []any             `json:"samples"`
	Violations    []Violation       `json:"violations"`
	KnownHits     map[string]int64  `json:"known_hits"`
	KnownExamples map[string]string `json:"known_examples"`
	Excluded      int64             `json:"excluded_known"`
	Notes         []string          `json:"notes"`
	Extra         map[string]int64  `json:"extra"`
}

type Violation struct {
	Sig    string `json:"sig"`
	Detail string `json:"detail"`
	Case   any    `json:"case,omitempty"`
}

type Finding struct {
	ID        string `json:"id"`
	Property  string `json:"property"`
	Status    string `json:"status"`
	Clause    string `json:"clause,omitempty"`
	Signature string `json:"signature"`
	What      string `json:"what"`
	Commit    string `json:"commit,omitempty"`
	Example   string `json:"example,omitempty"`
}

type knownFile struct {
	Version  int       `json:"version"`
	Findings []Finding `json:"findings"`
}

type outcome struct {
	unit      string
	shard     int
	exit      int
	out       string
	sum       *Summary
	wall      time.Duration
	runDir    string
	statsPath string
	hangPath  string
	casePath  string
	timedOut  bool
}

type violation struct {
	sig, detail, replay string
}

func main() {
	tier := flag.String("tier", envOr("VERIF_TIER", "quick"), "quick|thorough")
	replay := flag.String("replay", "", "replay a saved failing case")
	list := flag.Bool("list", false, "list checks")
	keep := flag.Bool("keep", false, "keep work dir")
	flag.Usage = func() {
		fmt.Fprintf(os.Stderr, "usage: vcheck [--tier quick|thorough] [--replay path] <ID>\n")
	}
	// allow "<ID> --tier x" as well as "--tier x <ID>"
	args := os.Args[1:]
	var id string
	var rest []string
	for i := 0; i < len(args); i++ {
		a := args[i]
		if !strings.HasPrefix(a, "-") {
			if id == "" {
				id = a
			}
			continue
		}
		rest = append(rest, a)
		name := strings.TrimLeft(a, "-")
		if !strings.Contains(a, "=") && name != "list" && name != "keep" && i+1 < len(args) {
			i++
			rest = append(rest, args[i])
		}
	}
	_ = flag.CommandLine.Parse(rest)
	harnessDir = filepath.Join(verifDir, "harness")
	if workRoot == "" {
		workRoot = filepath.Join(verifDir, ".work")
	}
	if evidenceDir == "" {
		evidenceDir = filepath.Join(verifDir, "evidence")
	}
	if replaysDir == "" {
		replaysDir = filepath.Join(verifDir, "replays")
	}
	if *list {
		var ids []string
		for k := range registry {
			ids = append(ids, k)
		}
		sort.Strings(ids)
		fmt.Println(strings.Join(ids, "\n"))
		return
	}
	if id == "" {
		flag.Usage()
		os.Exit(2)
	}
	chk, ok := registry[id]
	if !ok {
		fmt.Fprintf(os.Stderr, "unknown check %q\n", id)
		os.Exit(2)
	}
	if *tier != "quick" && *tier != "thorough" {
		fmt.Fprintf(os.Stderr, "bad tier %q\n", *tier)
		os.Exit(2)
	}
	seed := int64(1)
	if s := os.Getenv("VERIF_SEED"); s != "" {
		if v, err := strconv.ParseInt(s, 10, 64); err == nil {
			seed = v
		}
	}
	os.Exit(run(id, chk, *tier, seed, *replay, *keep))
}

func run(id string, chk *Check, tier string, seed int64, replay string, keep bool) int {
	start := time.Now()
	work := filepath.Join(workRoot, id)
	_ = os.RemoveAll(work)
	must(os.MkdirAll(work, 0o755))
	if !keep {
		defer func() {
			// keep stats/logs small: remove binaries
			matches, _ := filepath.Glob(filepath.Join(work, "*.test"))
			for _, m := range matches {
				_ = os.Remove(m)
			}
		}()
	}
	repoStatusBefore := gitStatus()

	known := loadKnown()
	var inconclusive []string
	var outs []outcome
	var outsMu sync.Mutex

	// ---- build
	altMod := ""
	if repoDir != "/repo" {
		// the harness module replaces vivid by /repo: a run against another tree gets its own go.mod
		gm, err := os.ReadFile(filepath.Join(harnessDir, "go.mod"))
		must(err)
		altMod = filepath.Join(work, "go.alt.mod")
		must(os.WriteFile(altMod, []byte(strings.Replace(string(gm), "=> /repo", "=> "+repoDir, 1)), 0o644))
		if gs, err := os.ReadFile(filepath.Join(harnessDir, "go.sum")); err == nil {
			must(os.WriteFile(filepath.Join(work, "go.alt.sum"), gs, 0o644))
		}
	}
	type built struct {
		u   *Unit
		bin string
	}
	var bins []built
	for i := range chk.Units {
		u := &chk.Units[i]
		if replay != "" && !strings.HasPrefix(filepath.Base(replay), u.Name+"@") && len(chk.Units) > 1 {
			continue
		}
		if tier == "quick" && u.ThoroughOnly {
			continue
		}
		if only := os.Getenv("VERIF_ONLY_UNIT"); only != "" && only != u.Name {
			continue // sensitivity experiments only: which unit catches a change (never set by a registered command)
		}
		bin := filepath.Join(work, u.Name+".test")
		ov, err := makeOverlay(u, work)
		if err != nil {
			fmt.Fprintf(os.Stderr, "overlay for %s: %v\n", u.Name, err)
			return finish(id, chk, tier, seed, start, nil, nil, []string{"overlay generation failed: " + err.Error()}, known)
		}
		args := []string{"test", "-c", "-vet=off", "-o", bin}
		if altMod != "" {
			args = append(args, "-modfile="+altMod)
		}
		if u.Race {
			args = append(args, "-race")
		}
		if ov != "" {
			args = append(args, "-overlay="+ov)
		}
		if len(u.Tags) > 0 {
			args = append(args, "-tags="+strings.Join(u.Tags, ","))
		}
		args = append(args, "./"+u.Pkg+"/")
		cmd := exec.Command(goBin, args...)
		cmd.Dir = harnessDir
		cmd.Env = goEnv()
		if out, err := cmd.CombinedOutput(); err != nil {
			fmt.Fprintf(os.Stderr, "BUILD FAILED (%s): %v\n%s\n", u.Name, err, out)
			return finish(id, chk, tier, seed, start, nil, nil, []string{"harness build failed for unit " + u.Name + ": " + firstLines(string(out), 30)}, known)
		}
		bins = append(bins, built{u, bin})
	}

	// ---- run
	type job struct {
		b     built
		shard int
	}
	var jobs []job
	for _, b := range bins {
		n := 1
		if replay == "" {
			n = b.u.shards(tier)
		}
		for s := 0; s < n; s++ {
			jobs = append(jobs, job{b, s})
		}
	}
	par := 16
	if chk.Serial {
		par = 1
	}
	sem := make(chan struct{}, par)
	var wg sync.WaitGroup
	for ji, j := range jobs {
		wg.Add(1)
		sem <- struct{}{}
		go func(ji int, j job) {
			defer wg.Done()
			defer func() { <-sem }()
			o := runUnit(id, j.b.u, j.b.bin, work, tier, seed, j.shard, replay)
			outsMu.Lock()
			outs = append(outs, o)
			outsMu.Unlock()
		}(ji, j)
	}
	wg.Wait()
	sort.Slice(outs, func(i, j int) bool {
		if outs[i].unit != outs[j].unit {
			return outs[i].unit < outs[j].unit
		}
		return outs[i].shard < outs[j].shard
	})

	// ---- classify
	var viols []violation
	for _, o := range outs {
		u := chk.unit(o.unit)
		vs, inc := classify(id, u, o, known)
		viols = append(viols, vs...)
		inconclusive = append(inconclusive, inc...)
	}
	if after := gitStatus(); after != repoStatusBefore {
		inconclusive = append(inconclusive, "the run changed `git -C /repo status`: before="+repoStatusBefore+" after="+after)
	}
	return finish(id, chk, tier, seed, start, outs, viols, inconclusive, known)
}

func gitStatus() string {
	out, _ := exec.Command("git", "-C", repoDir, "status", "--porcelain").Output()
	return string(out)
}

func goEnv() []string {
	env := os.Environ()
	env = append(env, "GOFLAGS=-mod=mod", "GOPROXY=off", "GOSUMDB=off", "GOTOOLCHAIN=local", "GONOSUMDB=*", "GONOSUMCHECK=1")
	return env
}

func must(err error) {
	if err != nil {
		fmt.Fprintln(os.Stderr, "vcheck:", err)
		os.Exit(2)
	}
}

func firstLines(s string, n int) string {
	l := strings.Split(s, "\n")
	if len(l) > n {
		l = l[:n]
	}
	return strings.Join(l, "\n")
}

func mixSeed(seed int64, unit string, shard int) uint64 {
	h := uint64(1469598103934665603)
	for _, b := range []byte(fmt.Sprintf("%d|%s|%d", seed, unit, shard)) {
		h ^= uint64(b)
		h *= 1099511628211
	}
	h &= (1 << 62) - 1
	if h == 0 {
		h = 1
	}
	return h
}

func runUnit(id string, u *Unit, bin, work, tier string, seed int64, shard int, replay string) outcome {
	o := outcome{unit: u.Name, shard: shard}
	o.runDir = filepath.Join(work, fmt.Sprintf("run-%s-%d", u.Name, shard))
	must(os.MkdirAll(o.runDir, 0o755))
	o.statsPath = filepath.Join(work, fmt.Sprintf("stats-%s-%d.json", u.Name, shard))
	o.hangPath = filepath.Join(work, fmt.Sprintf("hang-%s-%d.json", u.Name, shard))
	o.casePath = filepath.Join(work, fmt.Sprintf("case-%s-%d.json", u.Name, shard))
	rseed := mixSeed(seed, u.Name, shard)
	timeout := u.timeout(tier)
	args := []string{"-test.count=1", "-test.timeout=" + timeout.String()}
	env := append(os.Environ(),
		"VERIF_STATS="+o.statsPath, "VERIF_KNOWN="+filepath.Join(verifDir, "known_findings.json"),
		"VERIF_HANG="+o.hangPath, "VERIF_TIER="+tier, "VERIF_HARNESS="+harnessDir,
		"VERIF_SHARD="+strconv.Itoa(shard), "VERIF_NSHARDS="+strconv.Itoa(u.shards(tier)),
		"VERIF_RSEED="+strconv.FormatUint(rseed, 10),
		"VERIF_WORK="+o.runDir,
		"GOTRACEBACK=all",
	)
	if u.CaseFile {
		env = append(env, "VERIF_CASEFILE="+o.casePath)
	}
	if u.Race {
		env = append(env, "GORACE=halt_on_error=0 log_path="+filepath.Join(o.runDir, "race"))
	}
	for k, v := range u.Env {
		env = append(env, k+"="+v)
	}
	for k, v := range u.tierEnv(tier) {
		env = append(env, k+"="+v)
	}
	switch {
	case replay != "" && strings.HasSuffix(replay, ".fail"):
		abs, _ := filepath.Abs(replay)
		name := filepath.Base(replay)
		parts := strings.Split(name, "@")
		test := u.Run
		if len(parts) >= 3 {
			test = "^" + parts[1] + "$"
		}
		args = append(args, "-test.run="+test, "-rapid.failfile="+abs, "-test.v")
	case replay != "":
		abs, _ := filepath.Abs(replay)
		// a case that killed its worker is recorded as (test, rapid seed): re-run that test with that seed
		var rec struct {
			Test string `json:"test"`
			Seed string `json:"rapid_seed"`
		}
		if b, err := os.ReadFile(abs); err == nil && json.Unmarshal(b, &rec) == nil && rec.Test != "" && rec.Seed != "" {
			args = append(args, "-test.run=^"+rec.Test+"$", "-rapid.checks="+strconv.Itoa(u.checks(tier)), "-rapid.seed="+rec.Seed, "-test.v")
			break
		}
		env = append(env, "VERIF_REPLAY_CASE="+abs)
		args = append(args, "-test.run=^TestReplay$", "-test.v")
	default:
		args = append(args, "-test.run="+u.Run,
			"-rapid.checks="+strconv.Itoa(u.checks(tier)),
			"-rapid.seed="+strconv.FormatUint(rseed, 10),
			"-rapid.shrinktime=20s")
		args = append(args, u.ExtraArgs...)
	}
	cmd := exec.Command(bin, args...)
	cmd.Dir = o.runDir
	cmd.Env = env
	var buf bytes.Buffer
	cmd.Stdout = &buf
	cmd.Stderr = &buf
	t0 := time.Now()
	err := cmd.Run()
	o.wall = time.Since(t0)
	o.out = buf.String()
	if err != nil {
		if ee, ok := err.(*exec.ExitError); ok {
			o.exit = ee.ExitCode()
		} else {
			o.exit = 127
			o.out += "\nexec error: " + err.Error()
		}
	}
	if strings.Contains(o.out, "panic: test timed out after") {
		o.timedOut = true
	}
	_ = os.WriteFile(filepath.Join(work, fmt.Sprintf("log-%s-%d.txt", u.Name, shard)), buf.Bytes(), 0o644)
	if b, err := os.ReadFile(o.statsPath); err == nil {
		var s Summary
		if json.Unmarshal(b, &s) == nil {
			o.sum = &s
		}
	}
	return o
}

var failLine = regexp.MustCompile(`VERIF-FAIL sig=(\S+) :: ([^\n]*)`)

func saveReplay(id, unit, test, src string, data []byte, ext string) string {
	dir := filepath.Join(replaysDir, id)
	_ = os.MkdirAll(dir, 0o755)
	if data == nil {
		b, err := os.ReadFile(src)
		if err != nil {
			return src
		}
		data = b
	}
	name := fmt.Sprintf("%s@%s@%d%s", unit, test, time.Now().UnixNano()%1e10, ext)
	dst := filepath.Join(dir, name)
	if err := os.WriteFile(dst, data, 0o644); err != nil {
		return src
	}
	return dst
}

func isKnown(known []Finding, id, sig string) *Finding {
	for i := range known {
		if known[i].Property == id && known[i].Status == "known" && known[i].Signature == sig {
			return &known[i]
		}
	}
	return nil
}

var raceHdr = regexp.MustCompile(`WARNING: DATA RACE`)

func classify(id string, u *Unit, o outcome, known []Finding) (viols []violation, inconclusive []string) {
	// 1. violations recorded by the test process itself
	recorded := map[string]bool{}
	if o.sum != nil {
		for _, v := range o.sum.Violations {
			recorded[v.Sig] = true
		}
	}
	if o.exit == 0 {
		if o.sum == nil {
			inconclusive = append(inconclusive, fmt.Sprintf("unit %s shard %d wrote no statistics", o.unit, o.shard))
		}
		return
	}
	// hang detected by the watchdog
	if o.exit == 3 {
		var hr struct {
			Sig string `json:"sig"`
		}
		if b, err := os.ReadFile(o.hangPath); err == nil && json.Unmarshal(b, &hr) == nil {
			if strings.HasPrefix(hr.Sig, "hang/mutex") || strings.HasPrefix(hr.Sig, "hang/spin") {
				sig := id + "/" + hr.Sig
				if isKnown(known, id, sig) != nil {
					return
				}
				rp := saveReplay(id, o.unit, "hang", o.hangPath, nil, ".json")
				viols = append(viols, violation{sig, "the case never became quiescent; stuck goroutines are in the report", rp})
				return
			}
		}
		inconclusive = append(inconclusive, fmt.Sprintf("unit %s shard %d: watchdog fired without a classifiable stuck goroutine (see %s)", o.unit, o.shard, o.hangPath))
		return
	}
	if o.timedOut {
		inconclusive = append(inconclusive, fmt.Sprintf("unit %s shard %d: go test deadline reached after %v", o.unit, o.shard, o.wall.Round(time.Second)))
		return
	}
	// failures reported through testing / rapid
	ms := failLine.FindAllStringSubmatch(o.out, -1)
	seen := map[string]bool{}
	var failfiles []string
	_ = filepath.Walk(filepath.Join(o.runDir, "testdata"), func(p string, info os.FileInfo, err error) error {
		if err == nil && !info.IsDir() && strings.HasSuffix(p, ".fail") {
			failfiles = append(failfiles, p)
		}
		return nil
	})
	for _, m := range ms {
		sig := m[1]
		if seen[sig] {
			continue
		}
		seen[sig] = true
		if isKnown(known, id, sig) != nil {
			continue
		}
		rp := ""
		if len(failfiles) > 0 {
			test := filepath.Base(filepath.Dir(failfiles[0]))
			rp = saveReplay(id, o.unit, test, failfiles[0], nil, ".fail")
		} else if o.sum != nil {
			for _, v := range o.sum.Violations {
				if v.Sig == sig && v.Case != nil {
					b, _ := json.MarshalIndent(v.Case, "", " ")
					rp = saveReplay(id, o.unit, "case", "", b, ".json")
				}
			}
		}
		if rp == "" {
			rp = saveReplay(id, o.unit, "log", "", []byte(o.out), ".log")
		}
		viols = append(viols, violation{sig, m[2], rp})
	}
	// race detector reports (units built with -race): one signature per pair of vivid functions
	if u.Race {
		for _, rs := range raceSignatures(o.out) {
			sig := id + "/data-race|" + rs
			if seen[sig] {
				continue
			}
			seen[sig] = true
			if isKnown(known, id, sig) != nil {
				continue
			}
			rp := saveReplay(id, o.unit, "race", "", []byte(o.out), ".log")
			viols = append(viols, violation{sig, "the race detector reported unsynchronised accesses by these two functions (full report in the replay log)", rp})
		}
	}
	if len(viols) > 0 || len(seen) > 0 {
		return
	}
	// the process died without a recorded oracle failure
	crashed := strings.Contains(o.out, "fatal error:") || strings.Contains(o.out, "panic:") || strings.Contains(o.out, "signal:") || o.exit > 2 || o.exit < 0
	if crashed && u.CrashOracle != "" {
		what := crashSignature(o.out)
		sig := id + "/" + u.CrashOracle + "|" + what
		if isKnown(known, id, sig) != nil {
			return
		}
		var data []byte
		if b, err := os.ReadFile(o.casePath); err == nil {
			data = b
		}
		rp := ""
		if data != nil {
			rp = saveReplay(id, o.unit, "crash", "", data, ".json")
		} else {
			rp = saveReplay(id, o.unit, "crashlog", "", []byte(o.out), ".log")
		}
		viols = append(viols, violation{sig, "the worker process died: " + firstLines(crashExcerpt(o.out), 6), rp})
		return
	}
	if strings.Contains(o.out, "--- FAIL") || strings.Contains(o.out, "FAIL") {
		// a failing test without a VERIF-FAIL line is a harness problem (assertion of the
		// harness itself, rapid generator health check, ...): never a verdict
		inconclusive = append(inconclusive, fmt.Sprintf("unit %s shard %d failed without an oracle verdict (exit %d): %s", o.unit, o.shard, o.exit, firstLines(tail(o.out, 40), 40)))
		return
	}
	inconclusive = append(inconclusive, fmt.Sprintf("unit %s shard %d exited with %d: %s", o.unit, o.shard, o.exit, firstLines(tail(o.out, 30), 30)))
	return
}

var raceFrame = regexp.MustCompile(`(?m)^  (github\.com/kercylan98/vivid/[^\s(]+(?:\([^)]*\))?[^\s(]*)\(`)

// raceSignatures reduces every "WARNING: DATA RACE" report to the unordered pair of the first
// vivid (non-harness) functions on the two access stacks.
func raceSignatures(out string) []string {
	var sigs []string
	seen := map[string]bool{}
	for _, rep := range strings.Split(out, "WARNING: DATA RACE")[1:] {
		if i := strings.Index(rep, "=================="); i >= 0 {
			rep = rep[:i]
		}
		// the two access stacks are the first two blocks
		blocks := strings.Split(rep, "\n\n")
		var firsts []string
		for _, b := range blocks {
			if len(firsts) == 2 {
				break
			}
			if !(strings.Contains(b, " at 0x") || strings.Contains(b, "Previous ")) {
				continue
			}
			f := "?"
			for _, m := range raceFrame.FindAllStringSubmatch(b, -1) {
				fn := strings.TrimPrefix(m[1], "github.com/kercylan98/vivid/")
				if strings.HasPrefix(fn, "verif/") {
					continue
				}
				if i := strings.Index(fn, "["); i > 0 { // generic instantiation suffix
					fn = fn[:i]
				}
				f = fn
				break
			}
			firsts = append(firsts, f)
		}
		sort.Strings(firsts)
		sig := strings.Join(firsts, "×")
		if !seen[sig] {
			seen[sig] = true
			sigs = append(sigs, sig)
		}
	}
	return sigs
}

func tail(s string, n int) string {
	l := strings.Split(strings.TrimRight(s, "\n"), "\n")
	if len(l) > n {
		l = l[len(l)-n:]
	}
	return strings.Join(l, "\n")
}

var vividFrame = regexp.MustCompile(`github\.com/kercylan98/vivid/((?:internal|pkg)/[^\s(]+|[a-zA-Z_.()*]+)\(`)

func crashExcerpt(out string) string {
	i := strings.Index(out, "fatal error:")
	if i < 0 {
		i = strings.Index(out, "panic:")
	}
	if i < 0 {
		return tail(out, 10)
	}
	return out[i:]
}

// crashSignature = kind of crash + first vivid frame on the crashing stack
func crashSignature(out string) string {
	ex := crashExcerpt(out)
	kind := "crash"
	if strings.HasPrefix(ex, "fatal error:") {
		line, _, _ := strings.Cut(ex, "\n")
		kind = strings.TrimSpace(strings.TrimPrefix(line, "fatal error:"))
		kind = strings.ReplaceAll(kind, " ", "-")
	} else if strings.HasPrefix(ex, "panic:") {
		kind = "panic"
	}
	// first goroutine block after the header
	blk := ex
	if j := strings.Index(ex, "\n\ngoroutine "); j >= 0 {
		rest := ex[j+2:]
		if k := strings.Index(rest, "\n\n"); k >= 0 {
			blk = rest[:k]
		} else {
			blk = rest
		}
	}
	for _, m := range vividFrame.FindAllStringSubmatch(blk, -1) {
		if strings.HasPrefix(m[1], "verif/") {
			continue
		}
		return kind + "|" + m[1]
	}
	return kind
}

func loadKnown() []Finding {
	b, err := os.ReadFile(filepath.Join(verifDir, "known_findings.json"))
	if err != nil {
		return nil
	}
	var kf knownFile
	if err := json.Unmarshal(b, &kf); err != nil {
		fmt.Fprintf(os.Stderr, "known_findings.json: %v\n", err)
		os.Exit(2)
	}
	return kf.Findings
}

func finish(id string, chk *Check, tier string, seed int64, start time.Time, outs []outcome, viols []violation, inconclusive []string, known []Finding) int {
	agg := Summary{Labels: map[string]int64{}, KnownHits: map[string]int64{}, KnownExamples: map[string]string{}, Extra: map[string]int64{}}
	distinct := map[uint64]struct{}{}
	perUnit := map[string]map[string]any{}
	for _, o := range outs {
		pu := perUnit[o.unit]
		if pu == nil {
			pu = map[string]any{"evaluations": int64(0), "shards": 0, "wall_s": 0.0}
			perUnit[o.unit] = pu
		}
		pu["shards"] = pu["shards"].(int) + 1
		pu["wall_s"] = pu["wall_s"].(float64) + o.wall.Seconds()
		if o.sum == nil {
			continue
		}
		s := o.sum
		pu["evaluations"] = pu["evaluations"].(int64) + s.Evaluations
		agg.Evaluations += s.Evaluations
		agg.Nontrivial += s.Nontrivial
		agg.Excluded += s.Excluded
		agg.DistinctSat = agg.DistinctSat || s.DistinctSat
		for _, h := range s.Distinct {
			distinct[h] = struct{}{}
		}
		for k, v := range s.Labels {
			agg.Labels[k] += v
		}
		for k, v := range s.Extra {
			agg.Extra[k] += v
		}
		for k, v := range s.KnownHits {
			agg.KnownHits[k] += v
			if _, ok := agg.KnownExamples[k]; !ok {
				agg.KnownExamples[k] = s.KnownExamples[k]
			}
		}
		for _, smp := range s.Samples {
			if len(agg.Samples) < 16 {
				agg.Samples = append(agg.Samples, smp)
			}
		}
		for _, n := range s.Notes {
			agg.Notes = append(agg.Notes, n)
		}
	}
	level := chk.Level
	if level == "" {
		level = "exploration"
	}
	cov := map[string]any{
		"evaluations":         agg.Evaluations,
		"nontrivial_total":    agg.Nontrivial,
		"distinct_nontrivial": len(distinct),
		"rule":                chk.Rule,
		"samples":             append([]any{}, agg.Samples...),
		"classes":             agg.Labels,
		"excluded_known":      agg.Excluded,
		"units":               perUnit,
	}
	if agg.DistinctSat {
		cov["distinct_note"] = "distinct-hash table saturated; distinct_nontrivial is a lower bound"
	}
	for k, v := range agg.Extra {
		cov[k] = v
	}
	if len(agg.KnownHits) > 0 {
		cov["known_finding_hits"] = agg.KnownHits
	}
	if len(agg.Notes) > 0 {
		cov["notes"] = dedupStr(agg.Notes)
	}
	if len(inconclusive) > 0 {
		cov["inconclusive"] = inconclusive
	}
	if len(viols) > 0 {
		var vs []map[string]string
		for _, v := range viols {
			vs = append(vs, map[string]string{"signature": v.sig, "detail": cut(v.detail, 2000), "replay": v.replay})
		}
		cov["violations"] = vs
	}
	if ex, ok := agg.Extra["exhaustive_done"]; ok && chk.ExhaustiveKey != "" {
		cov["exhaustive"] = ex > 0 && agg.Extra["exhaustive_incomplete"] == 0
		cov["exhaustive_scope"] = chk.ExhaustiveKey
	}
	ev := map[string]any{
		"property_id": id,
		"tier":        tier,
		"seed":        seed,
		"level":       level,
		"coverage":    cov,
		"assumptions": chk.Assumptions,
		"wall_s":      time.Since(start).Seconds(),
		"violations":  len(viols),
	}
	_ = os.MkdirAll(evidenceDir, 0o755)
	b, _ := json.MarshalIndent(ev, "", " ")
	if agg.Evaluations > 0 || len(viols) > 0 {
		must(os.WriteFile(filepath.Join(evidenceDir, id+".json"), b, 0o644))
	} else {
		// nothing was evaluated (build failure, every shard inconclusive): the previous evidence stays, this run has none
		fmt.Printf("%s: no case was evaluated - evidence file left as it was\n", id)
	}

	// ---- report
	for _, f := range known {
		if f.Property == id && f.Status == "known" {
			hits := agg.KnownHits[f.Signature]
			fmt.Printf("KNOWN-FINDING: property=%s %s [%s; reproduced %d times in this run]\n", id, f.What, f.Signature, hits)
		}
	}
	fmt.Printf("%s tier=%s seed=%d evaluations=%d distinct_nontrivial=%d wall=%.1fs\n", id, tier, seed, agg.Evaluations, len(distinct), time.Since(start).Seconds())
	if len(viols) > 0 {
		seen := map[string]bool{}
		for _, v := range viols {
			if seen[v.sig] {
				continue
			}
			seen[v.sig] = true
			fmt.Printf("violation signature=%s\n  %s\n", v.sig, cut(v.detail, 1500))
			fmt.Printf("VIOLATION property=%s replay=%s\n", id, v.replay)
		}
		return 1
	}
	if len(inconclusive) > 0 {
		for _, s := range inconclusive {
			fmt.Printf("INCONCLUSIVE: %s\n", s)
		}
		return 2
	}
	if agg.Evaluations < 1 || len(distinct) < 2 {
		fmt.Printf("INCONCLUSIVE: too little was explored (evaluations=%d distinct_nontrivial=%d)\n", agg.Evaluations, len(distinct))
		return 2
	}
	return 0
}

func cut(s string, n int) string {
	if len(s) > n {
		return s[:n] + "…"
	}
	return s
}

func dedupStr(in []string) []string {
	m := map[string]bool{}
	var out []string
	for _, s := range in {
		if !m[s] {
			m[s] = true
			out = append(out, s)
		}
	}
	return out
}
