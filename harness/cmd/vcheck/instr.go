package main

import (
	"fmt"
	"go/ast"
	"go/parser"
	"go/token"
	"os"
	"sort"
	"strings"
)

// instrumentFile copies a Go source file of /repo's working tree and inserts
// scheduling points for the controlled scheduler (harness/internal/ctl):
//
//   - `verifYield("<func>:<line>")` before every simple statement (and before
//     every if/switch whose header) contains a sync/atomic call, a queue
//     Push/Pop/PopMany call or a HandleEnvelop call;
//   - `go f(x)` becomes `verifGo(func() { f(x) })`.
//
// The edits are textual insertions on the same line, so line numbers (and the
// rest of the file, whatever the working tree contains) stay exactly as they
// are. The hook functions live in an overlay-only file of the same package.
func instrumentFile(src, dst string) error {
	b, err := os.ReadFile(src)
	if err != nil {
		return err
	}
	fset := token.NewFileSet()
	f, err := parser.ParseFile(fset, src, b, parser.ParseComments)
	if err != nil {
		return err
	}
	type edit struct {
		off  int
		end  int // >off: replace [off,end)
		text string
	}
	var edits []edit
	interesting := func(n ast.Node) bool {
		found := false
		ast.Inspect(n, func(x ast.Node) bool {
			if found {
				return false
			}
			if _, ok := x.(*ast.FuncLit); ok {
				return false
			}
			call, ok := x.(*ast.CallExpr)
			if !ok {
				return true
			}
			sel, ok := call.Fun.(*ast.SelectorExpr)
			if !ok {
				return true
			}
			if id, ok := sel.X.(*ast.Ident); ok && id.Name == "atomic" {
				found = true
				return false
			}
			switch sel.Sel.Name {
			case "Push", "Pop", "PopMany", "HandleEnvelop", "Load", "Store", "CompareAndSwap", "Add", "Swap":
				found = true
				return false
			}
			return true
		})
		return found
	}
	var curFunc string
	var walkBlock func(list []ast.Stmt)
	var walkStmt func(s ast.Stmt)
	var walkIf func(st *ast.IfStmt, canYield bool)
	yieldAt := func(s ast.Stmt) {
		pos := fset.Position(s.Pos())
		edits = append(edits, edit{off: pos.Offset, text: fmt.Sprintf("verifYield(%q); ", fmt.Sprintf("%s:%d", curFunc, pos.Line))})
	}
	walkIf = func(st *ast.IfStmt, canYield bool) {
		hdr := (st.Init != nil && interesting(st.Init)) || interesting(st.Cond)
		if hdr && canYield {
			yieldAt(st)
		}
		walkBlock(st.Body.List)
		switch el := st.Else.(type) {
		case *ast.IfStmt:
			walkIf(el, false) // no statement can be put in front of an "else if"
		case *ast.BlockStmt:
			walkBlock(el.List)
		}
	}
	walkStmt = func(s ast.Stmt) {
		switch st := s.(type) {
		case *ast.BlockStmt:
			walkBlock(st.List)
		case *ast.LabeledStmt:
			// a yield must stay inside the loop the label heads
			inner := st.Stmt
			switch in := inner.(type) {
			case *ast.ExprStmt, *ast.AssignStmt, *ast.IncDecStmt, *ast.ReturnStmt:
				if interesting(in) {
					yieldAt(in)
				}
			default:
				walkStmt(inner)
			}
		case *ast.IfStmt:
			walkIf(st, true)
		case *ast.ForStmt:
			walkBlock(st.Body.List)
		case *ast.RangeStmt:
			walkBlock(st.Body.List)
		case *ast.SwitchStmt:
			if (st.Init != nil && interesting(st.Init)) || (st.Tag != nil && interesting(st.Tag)) {
				yieldAt(st)
			}
			walkBlock(st.Body.List)
		case *ast.TypeSwitchStmt:
			walkBlock(st.Body.List)
		case *ast.SelectStmt:
			walkBlock(st.Body.List)
		case *ast.CaseClause:
			walkBlock(st.Body)
		case *ast.CommClause:
			walkBlock(st.Body)
		case *ast.GoStmt:
			p0 := fset.Position(st.Pos()).Offset
			p1 := fset.Position(st.End()).Offset
			callSrc := string(b[fset.Position(st.Call.Pos()).Offset:p1])
			yieldAt(st)
			edits = append(edits, edit{off: p0, end: p1, text: "verifGo(func() { " + callSrc + " })"})
		case *ast.ExprStmt, *ast.AssignStmt, *ast.IncDecStmt, *ast.ReturnStmt, *ast.DeferStmt:
			if interesting(st) {
				yieldAt(st)
			}
		}
	}
	walkBlock = func(list []ast.Stmt) {
		for _, s := range list {
			walkStmt(s)
		}
	}
	for _, d := range f.Decls {
		fd, ok := d.(*ast.FuncDecl)
		if !ok || fd.Body == nil {
			continue
		}
		curFunc = fd.Name.Name
		walkBlock(fd.Body.List)
	}
	// apply from the end; at equal offsets insertions go before replacements
	sort.SliceStable(edits, func(i, j int) bool {
		if edits[i].off != edits[j].off {
			return edits[i].off > edits[j].off
		}
		return edits[i].end > edits[j].end // replacement first (applied first = lands after the inserted text)
	})
	out := string(b)
	for _, e := range edits {
		if e.end > e.off {
			out = out[:e.off] + e.text + out[e.end:]
		} else {
			out = out[:e.off] + e.text + out[e.off:]
		}
	}
	if !strings.Contains(out, "verifYield(") {
		return fmt.Errorf("no scheduling point could be placed in %s", src)
	}
	return os.WriteFile(dst, []byte(out), 0o644)
}

// instrumentWindows copies a Go source file of /repo's working tree and puts a
// `verifWindow("<func>:<line>", <ctx>)` call in front of every statement (at
// any nesting depth, closures excluded) of every method whose receiver is
// *killedHandler (ctx = recv.ctx), *Context (ctx = recv) or *supervisionContext
// (ctx = its *Context parameter) and whose name is in funcs (empty = all such
// methods). Statements inside a critical section get no point. Insertions stay on the statement's own
// line, so line numbers are those of the working tree.
func instrumentWindows(src, dst string, funcs map[string]bool) error {
	b, err := os.ReadFile(src)
	if err != nil {
		return err
	}
	fset := token.NewFileSet()
	f, err := parser.ParseFile(fset, src, b, parser.ParseComments)
	if err != nil {
		return err
	}
	type edit struct {
		off  int
		text string
	}
	var edits []edit
	var curFunc, ctxExpr string
	var walkBlock func(list []ast.Stmt)
	var walkStmt func(s ast.Stmt, canInsert bool)
	point := func(s ast.Stmt) {
		pos := fset.Position(s.Pos())
		edits = append(edits, edit{off: pos.Offset, text: fmt.Sprintf("verifWindow(%q, %s); ", fmt.Sprintf("%s:%d", curFunc, pos.Line), ctxExpr)})
	}
	// no point inside a critical section: a goroutine parked there keeps the mutex, and whoever waits for a mutex is
	// not durably blocked for synctest - the bubble would never settle (an artefact of parking, not of the library)
	locked := 0
	lockCall := func(s ast.Stmt) (name string, deferred bool) {
		var call *ast.CallExpr
		switch st := s.(type) {
		case *ast.ExprStmt:
			call, _ = st.X.(*ast.CallExpr)
		case *ast.DeferStmt:
			call, deferred = st.Call, true
		}
		if call == nil {
			return "", false
		}
		if sel, ok := call.Fun.(*ast.SelectorExpr); ok {
			return sel.Sel.Name, deferred
		}
		return "", false
	}
	walkStmt = func(s ast.Stmt, canInsert bool) {
		name, deferred := lockCall(s)
		if (name == "Unlock" || name == "RUnlock") && !deferred && locked > 0 {
			locked--
			return // the unlocking statement itself gets no point in front of it either
		}
		if canInsert && locked == 0 {
			switch s.(type) {
			case *ast.LabeledStmt, *ast.CaseClause, *ast.CommClause, *ast.BlockStmt, *ast.EmptyStmt:
			default:
				point(s)
			}
		}
		if name == "Lock" || name == "RLock" {
			locked++
			return
		}
		switch st := s.(type) {
		case *ast.BlockStmt:
			walkBlock(st.List)
		case *ast.LabeledStmt:
			walkStmt(st.Stmt, false)
		case *ast.IfStmt:
			walkBlock(st.Body.List)
			switch el := st.Else.(type) {
			case *ast.IfStmt:
				walkStmt(el, false)
			case *ast.BlockStmt:
				walkBlock(el.List)
			}
		case *ast.ForStmt:
			walkBlock(st.Body.List)
		case *ast.RangeStmt:
			walkBlock(st.Body.List)
		case *ast.SwitchStmt:
			walkBlock(st.Body.List)
		case *ast.TypeSwitchStmt:
			walkBlock(st.Body.List)
		case *ast.SelectStmt:
			walkBlock(st.Body.List)
		case *ast.CaseClause:
			walkBlock(st.Body)
		case *ast.CommClause:
			walkBlock(st.Body)
		}
	}
	depth := 0
	walkBlock = func(list []ast.Stmt) {
		// an Unlock inside a nested block belongs to an early exit of that block: the enclosing section stays locked
		saved := locked
		depth++
		for _, s := range list {
			walkStmt(s, true)
		}
		depth--
		if depth > 0 {
			locked = saved
		}
	}
	for _, d := range f.Decls {
		fd, ok := d.(*ast.FuncDecl)
		if !ok || fd.Body == nil || fd.Recv == nil || len(fd.Recv.List) != 1 || len(fd.Recv.List[0].Names) != 1 {
			continue
		}
		if len(funcs) > 0 && !funcs[fd.Name.Name] {
			continue
		}
		star, ok := fd.Recv.List[0].Type.(*ast.StarExpr)
		if !ok {
			continue
		}
		id, ok := star.X.(*ast.Ident)
		if !ok {
			continue
		}
		recv := fd.Recv.List[0].Names[0].Name
		switch id.Name {
		case "killedHandler":
			ctxExpr = recv + ".ctx"
		case "Context":
			ctxExpr = recv
		case "supervisionContext":
			// the acting actor is the *Context parameter (applyDecision, broadcastAllTargets)
			ctxExpr = ""
			for _, prm := range fd.Type.Params.List {
				if st, ok := prm.Type.(*ast.StarExpr); ok {
					if pid, ok := st.X.(*ast.Ident); ok && pid.Name == "Context" && len(prm.Names) == 1 {
						ctxExpr = prm.Names[0].Name
					}
				}
			}
			if ctxExpr == "" {
				continue
			}
		default:
			continue
		}
		curFunc = fd.Name.Name
		locked = 0
		walkBlock(fd.Body.List)
	}
	sort.SliceStable(edits, func(i, j int) bool { return edits[i].off > edits[j].off })
	out := string(b)
	for _, e := range edits {
		out = out[:e.off] + e.text + out[e.off:]
	}
	if !strings.Contains(out, "verifWindow(") {
		return fmt.Errorf("no window point could be placed in %s", src)
	}
	return os.WriteFile(dst, []byte(out), 0o644)
}
