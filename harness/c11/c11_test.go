// C11 — remote delivery over a healthy link: exactly once, intact, in order,
// for Tell, Ask and the replies, whatever the burst size, message size and the
// way TCP splits or coalesces the byte stream. Real systems on loopback with
// the generator's byte-level proxy in between (no faults here).
package c11

import (
	"encoding/json"
	"fmt"
	"os"
	"sort"
	"sync"
	"sync/atomic"
	"testing"
	"time"

	"github.com/kercylan98/vivid"
	"github.com/kercylan98/vivid/internal/actor"
	"github.com/kercylan98/vivid/internal/mailbox"
	"github.com/kercylan98/vivid/internal/remoting/serialize"
	"github.com/kercylan98/vivid/verif/internal/rlab"
	"github.com/kercylan98/vivid/verif/internal/vstat"
	"github.com/kercylan98/vivid/verif/internal/vt"
	"pgregory.net/rapid"
)

func TestMain(m *testing.M) { vstat.Main(m.Run) }

type Case struct {
	Senders  int    `json:"senders"`
	Burst    int    `json:"burst"`
	Size     int    `json:"size"`     // body bytes
	AskEvery int    `json:"askEvery"` // every k-th message is an Ask (0 = none)
	Mode     string `json:"mode"`
	N        int    `json:"n"`
	Reverse  bool   `json:"reverse"`          // the receiver also sends a burst back (direct link)
	IdleMs   int    `json:"idleMs,omitempty"` // a warm-up message, then the link stays idle this long before the burst
	// Race: all senders are released together as the very first traffic towards the peer; only message 0
	// of sender 0 has Size bytes, everything else is tiny (a later message must not overtake it)
	Race bool `json:"race,omitempty"`
	// NearLimit d > 0: the even messages are sized so that the frame announces exactly 4 MiB - (d-1) bytes: d = 1
	// is the largest legal frame (exactly 4 MiB)
	// (legal: the receiver rejects more than 4 MiB), the odd ones are tiny
	NearLimit int `json:"nearLimit,omitempty"`
	// BadEvery k > 0: every k-th Tell (i % k == k-1) is a message the receiving side cannot decode (its registered
	// reader returns an error): it cannot be delivered, everything around it must be
	BadEvery int `json:"badEvery,omitempty"`
	// HoldMs > 0: the path towards the receiver holds the dialler's handshake back this long and hands over, in
	// one piece, whatever the dialler has sent by then
	HoldMs int `json:"holdMs,omitempty"`
}

func (c Case) bad(i int) bool {
	return c.BadEvery > 0 && i%c.BadEvery == c.BadEvery-1 && !(c.AskEvery > 0 && i%c.AskEvery == 0)
}

const frameLimit = 4 << 20

// bodySize is the body length of message i of sender s.
func (c Case) bodySize(s int32, i int64, near int) int {
	switch {
	case c.Race:
		if s == 0 && i == 0 {
			return c.Size
		}
		return 8
	case c.NearLimit > 0:
		if i%2 == 0 {
			return near
		}
		return 16
	}
	return c.Size
}

// nearLimitBody finds the body length for which the envelope of a Tell from the system to target is
// exactly want bytes long (the number the 4-byte prefix announces).
func nearLimitBody(from *actor.System, target vivid.ActorRef, want int) (int, error) {
	n := want - 200
	for k := 0; k < 6; k++ {
		b, err := serialize.EncodeEnvelopWithRemoting(nil, mailbox.NewEnvelop(false, from.Ref(), target, &rlab.Msg{Sender: 0, Seq: 2, Kind: rlab.KData, Body: make([]byte, n)}))
		if err != nil {
			return 0, err
		}
		if len(b) == want {
			return n, nil
		}
		n += want - len(b)
	}
	return 0, fmt.Errorf("no body length gives a frame of %d bytes", want)
}

func (c Case) JSON() string { b, _ := json.Marshal(c); return string(b) }

var sizes = []int{0, 1, 2, 100, 1000, 4090, 4094, 4095, 4096, 4097, 5000, 65535, 70000}
var bigSizes = []int{1 << 20, 4<<20 - 1000, 4<<20 - 400} // the envelope adds up to ~140 bytes (an Ask carries a future path as sender)

func genCase(t *rapid.T) Case {
	c := Case{Senders: rapid.IntRange(1, 4).Draw(t, "senders")}
	c.Burst = rapid.SampledFrom([]int{1, 2, 3, 10, 50, 200, 600}).Draw(t, "burst")
	if os.Getenv("VERIF_TIER") == "thorough" && rapid.IntRange(0, 4).Draw(t, "huge") == 0 {
		c.Burst = 2000
	}
	c.Size = rapid.SampledFrom(sizes).Draw(t, "size")
	if rapid.IntRange(0, 11).Draw(t, "big") == 0 {
		c.Size = rapid.SampledFrom(bigSizes).Draw(t, "bigSize")
		c.Burst = rapid.IntRange(1, 4).Draw(t, "bigBurst")
		c.Senders = 1
	}
	if c.Size >= 65535 && c.Burst > 50 {
		c.Burst = 50
	}
	c.AskEvery = rapid.SampledFrom([]int{0, 0, 1, 3, 10}).Draw(t, "askEvery")
	c.Mode = rapid.SampledFrom([]string{"exact", "bytewise", "coalesce", "coalesce", "split", "chunks"}).Draw(t, "mode")
	switch c.Mode {
	case "coalesce":
		c.N = rapid.SampledFrom([]int{2, 3, 8, 50}).Draw(t, "frames")
	case "split":
		c.N = rapid.IntRange(1, 12).Draw(t, "offset")
	case "chunks":
		c.N = rapid.SampledFrom([]int{1, 3, 5, 7, 1000, 4096}).Draw(t, "chunk")
	case "bytewise":
		if c.Burst > 50 {
			c.Burst = 50
		}
	}
	if c.Size >= 1<<20 && c.Mode == "chunks" && c.N < 1000 {
		c.N = 4096 // millions of tiny writes only make the case slow
	}
	c.Reverse = rapid.IntRange(0, 3).Draw(t, "reverse") == 0
	if rapid.IntRange(0, 2).Draw(t, "withBad") == 0 && c.Burst >= 2 {
		c.BadEvery = rapid.SampledFrom([]int{2, 3, 1, 7}).Draw(t, "badEvery")
	}
	hold := 0
	if rapid.IntRange(0, 3).Draw(t, "holdHandshake") == 0 {
		hold = rapid.SampledFrom([]int{5, 20, 60}).Draw(t, "holdMs")
	}
	switch rapid.IntRange(0, 9).Draw(t, "shape") {
	case 0: // concurrent first contact
		c = genRace(t)
	case 1, 2: // frames just under the limit
		c = Case{Senders: 1, Burst: rapid.IntRange(1, 4).Draw(t, "nearBurst"), NearLimit: rapid.IntRange(1, 8).Draw(t, "belowLimit"),
			Mode: rapid.SampledFrom([]string{"exact", "chunks", "split"}).Draw(t, "nearMode"), N: 4096}
	}
	c.HoldMs = hold
	return c
}

func genRace(t *rapid.T) Case {
	return Case{Race: true, Senders: rapid.IntRange(2, 6).Draw(t, "racers"), Burst: rapid.IntRange(2, 4).Draw(t, "raceBurst"),
		Size: rapid.SampledFrom([]int{70000, 1 << 20, 2 << 20}).Draw(t, "raceSize"), Mode: rapid.SampledFrom([]string{"exact", "chunks"}).Draw(t, "raceMode"), N: 4096}
}

type verdict struct{ sig, detail string }

// run returns (verdict, inconclusive reason, nontrivial, labels)
func run(c Case) (v *verdict, inconclusive string, nontrivial bool, labels []string) {
	pB := rlab.FreePort()
	bindB := fmt.Sprintf("127.0.0.1:%d", pB)
	proxy := rlab.NewProxy(bindB, rlab.ConnPlan{Mode: c.Mode, N: c.N, CutAfter: -1, HoldHandshake: time.Duration(c.HoldMs) * time.Millisecond})
	defer proxy.Close()
	B, err := rlab.StartNode(rlab.NodeOpt{Bind: bindB, Advertise: proxy.Addr, ReconnectLimit: -1})
	if err != nil {
		return nil, "receiver did not start: " + err.Error(), false, nil
	}
	defer B.Stop()
	bindA := fmt.Sprintf("127.0.0.1:%d", rlab.FreePort())
	A, err := rlab.StartNode(rlab.NodeOpt{Bind: bindA, Advertise: bindA, ReconnectLimit: -1})
	if err != nil {
		return nil, "sender did not start: " + err.Error(), false, nil
	}
	defer A.Stop()
	target := B.RemoteSink(A.Sys)

	if c.IdleMs > 0 {
		// a connection that has been up for a while is still a healthy link
		A.Sys.Tell(target, &rlab.Msg{Sender: 777, Seq: 0, Kind: rlab.KFence})
		if !rlab.WaitUntil(5*time.Second, func() bool { return len(B.Sink.Got()) > 0 }) {
			return nil, "the warm-up message did not arrive", false, nil
		}
		time.Sleep(time.Duration(c.IdleMs) * time.Millisecond)
	}
	near := 0
	if c.NearLimit > 0 {
		if near, err = nearLimitBody(A.Sys, target, frameLimit-(c.NearLimit-1)); err != nil {
			return nil, "cannot size the message: " + err.Error(), false, nil
		}
	}
	var release atomic.Bool
	var ready atomic.Int32
	type askRec struct {
		sender int32
		seq    int64
		f      vivid.Future[vivid.Message]
	}
	var amu sync.Mutex
	var asks []askRec
	var wg sync.WaitGroup
	for s := 0; s < c.Senders; s++ {
		wg.Add(1)
		go func(s int32) {
			defer wg.Done()
			bodies := make([][]byte, c.Burst)
			for i := range bodies {
				bodies[i] = rlab.Body(s, int64(i), c.bodySize(s, int64(i), near))
			}
			if c.Race {
				ready.Add(1)
				for !release.Load() {
				}
			}
			for i := 0; i < c.Burst; i++ {
				body := bodies[i]
				if c.AskEvery > 0 && i%c.AskEvery == 0 {
					f := A.Sys.Ask(target, &rlab.Msg{Sender: s, Seq: int64(i), Kind: rlab.KAsk, Body: body}, 20*time.Second)
					amu.Lock()
					asks = append(asks, askRec{s, int64(i), f})
					amu.Unlock()
				} else if c.bad(i) {
					A.Sys.Tell(target, &rlab.Msg{Sender: s, Seq: int64(i), Kind: rlab.KBad, Body: body})
				} else {
					A.Sys.Tell(target, &rlab.Msg{Sender: s, Seq: int64(i), Kind: rlab.KData, Body: body})
				}
			}
		}(int32(s))
	}
	if c.Reverse {
		back := A.RemoteSink(B.Sys)
		wg.Add(1)
		go func() {
			defer wg.Done()
			for i := 0; i < c.Burst; i++ {
				B.Sys.Tell(back, &rlab.Msg{Sender: 100, Seq: int64(i), Kind: rlab.KData, Body: rlab.Body(100, int64(i), c.Size%5000)})
			}
		}()
	}
	if c.Race {
		for int(ready.Load()) != c.Senders {
			time.Sleep(time.Millisecond)
		}
		release.Store(true)
	}
	wg.Wait()
	// fences, one at a time on an idle link: once one is processed, everything sent before it on that
	// connection has been consumed by the receiver (TCP is ordered)
	fence := func(from *rlab.Node, to *rlab.Node, ref vivid.ActorRef, sender int32) bool {
		for k := 0; k < 6; k++ {
			time.Sleep(40 * time.Millisecond)
			from.Sys.Tell(ref, &rlab.Msg{Sender: sender, Seq: int64(k), Kind: rlab.KFence})
			ok := rlab.WaitUntil(4*time.Second, func() bool {
				for _, r := range to.Sink.Got() {
					if r.Kind == rlab.KFence && r.Sender == sender && r.Seq == int64(k) {
						return true
					}
				}
				return false
			})
			if ok {
				return true
			}
		}
		return false
	}
	fenced := fence(A, B, target, 999)
	if c.Reverse {
		fenced = fence(B, A, A.RemoteSink(B.Sys), 998) && fenced
	}
	evB := B.Events.Snapshot()
	if !fenced && evB.DecodeFail == 0 && evB.ConnClosed == 0 {
		return nil, fmt.Sprintf("no fence message arrived within the budget and the receiver reported neither a decode failure nor a closed connection (case %s)", c.JSON()), false, nil
	}
	// ---- oracle
	check := func(got []rlab.Rec, senders []int32, burst int, size func(int32, int64) int, wantAddr string, dir string, bad func(int) bool) *verdict {
		per := map[int32][]rlab.Rec{}
		for _, r := range got {
			if r.Kind == rlab.KData || r.Kind == rlab.KAsk {
				per[r.Sender] = append(per[r.Sender], r)
			}
		}
		for _, s := range senders {
			rs := per[s]
			seen := map[int64]int{}
			last := int64(-1)
			for _, r := range rs {
				seen[r.Seq]++
				if seen[r.Seq] > 1 {
					return &verdict{"C11/exactly-once|duplicate", fmt.Sprintf("%s: message %d of sender %d delivered %d times; case %s", dir, r.Seq, s, seen[r.Seq], c.JSON())}
				}
				if r.Seq < last {
					return &verdict{"C11/in-order", fmt.Sprintf("%s: sender %d: message %d delivered after %d; case %s", dir, s, r.Seq, last, c.JSON())}
				}
				last = r.Seq
				want := rlab.Body(s, r.Seq, size(s, r.Seq))
				if r.Len != len(want) || r.Sum != rlabSum(want) {
					return &verdict{"C11/intact", fmt.Sprintf("%s: message %d of sender %d arrived with %d bytes (sent %d) or a different content; case %s", dir, r.Seq, s, r.Len, len(want), c.JSON())}
				}
				if wantAddr != "" && r.SenderAddr != wantAddr {
					return &verdict{"C11/sender-ref", fmt.Sprintf("%s: the receiver saw sender address %q, the sending system is %q", dir, r.SenderAddr, wantAddr)}
				}
			}
			deliverable := 0
			for i := 0; i < burst; i++ {
				if !bad(i) {
					deliverable++
				} else if seen[int64(i)] > 0 {
					return &verdict{"C11/intact", fmt.Sprintf("%s: message %d of sender %d, which the receiving side's reader rejects, was delivered all the same; case %s", dir, i, s, c.JSON())}
				}
			}
			if len(rs) != deliverable {
				var missing []int64
				for i := int64(0); i < int64(burst) && len(missing) < 10; i++ {
					if seen[i] == 0 && !bad(int(i)) {
						missing = append(missing, i)
					}
				}
				return &verdict{"C11/exactly-once|lost", fmt.Sprintf("%s: sender %d sent %d deliverable messages over a healthy link, the receiver got %d (first missing: %v); proxy: %d writes, %d multi-frame, %d split; receiver events: %+v; case %s", dir, s, deliverable, len(rs), missing, proxy.Writes.Load(), proxy.WritesMultiFrame.Load(), proxy.WritesSplitFrame.Load(), evB, c.JSON())}
			}
		}
		return nil
	}
	var ss []int32
	for s := 0; s < c.Senders; s++ {
		ss = append(ss, int32(s))
	}
	if v = check(B.Sink.Got(), ss, c.Burst, func(s int32, i int64) int { return c.bodySize(s, i, near) }, A.Addr, "A->B", c.bad); v != nil {
		return
	}
	if c.Reverse {
		if v = check(A.Sink.Got(), []int32{100}, c.Burst, func(int32, int64) int { return c.Size % 5000 }, B.Addr, "B->A", func(int) bool { return false }); v != nil {
			return
		}
	}
	for _, a := range asks {
		done := make(chan struct{})
		var m vivid.Message
		var err error
		go func() { m, err = a.f.Result(); close(done) }()
		select {
		case <-done:
		case <-time.After(25 * time.Second):
			return &verdict{"C11/ask-reply|none", fmt.Sprintf("Ask %d of sender %d got no result in 25 s; case %s", a.seq, a.sender, c.JSON())}, "", false, nil
		}
		if err != nil {
			return &verdict{"C11/ask-reply|error", fmt.Sprintf("Ask %d of sender %d over a healthy link: %v; case %s", a.seq, a.sender, err, c.JSON())}, "", false, nil
		}
		rp, ok := m.(*rlab.Msg)
		if !ok || rp.Kind != rlab.KReply || rp.Sender != a.sender || rp.Seq != a.seq || rlabSum(rp.Body) != rlabSum(rlab.Body(a.sender, a.seq, c.bodySize(a.sender, a.seq, near))) {
			return &verdict{"C11/ask-reply|foreign", fmt.Sprintf("Ask %d of sender %d got the reply %+v; case %s", a.seq, a.sender, m, c.JSON())}, "", false, nil
		}
	}
	if c.IdleMs > 0 && (evB.ConnClosed > 0 || evB.Established > 1) {
		return &verdict{"C11/connection-stays-up", fmt.Sprintf("an idle healthy connection was closed and re-established by the library itself after %d ms (closed events %d, established %d)", c.IdleMs, evB.ConnClosed, evB.Established)}, "", false, nil
	}
	if evB.DecodeFail > 0 && c.BadEvery == 0 {
		return &verdict{"C11/decode-failure", fmt.Sprintf("the receiver published %d RemotingMessageDecodeFailedEvent on a healthy link; case %s", evB.DecodeFail, c.JSON())}, "", false, nil
	}
	nontrivial = proxy.WritesMultiFrame.Load() > 0 || proxy.WritesSplitFrame.Load() > 0
	labels = []string{"mode:" + c.Mode}
	if c.HoldMs > 0 {
		labels = append(labels, "handshake-held-back")
	}
	if c.Race {
		labels = append(labels, "concurrent-first-contact")
		nontrivial = true
	}
	switch {
	case c.NearLimit > 0:
		labels = append(labels, "size:within-8-bytes-of-the-limit")
		nontrivial = true
	case c.Size >= 1<<20:
		labels = append(labels, "size:>=1MiB")
	case c.Size >= 4096:
		labels = append(labels, "size:>=4096")
	default:
		labels = append(labels, "size:<4096")
	}
	if c.AskEvery > 0 {
		labels = append(labels, "with-asks")
	}
	if c.BadEvery > 0 {
		labels = append(labels, "with-undecodable-messages")
	}
	if c.Reverse {
		labels = append(labels, "both-directions")
	}
	sort.Strings(labels)
	vstat.Add("frames_forwarded", proxy.FramesSeen.Load())
	vstat.Add("proxy_writes_ending_inside_a_frame", proxy.WritesSplitFrame.Load())
	vstat.Add("proxy_writes_with_several_frames", proxy.WritesMultiFrame.Load())
	return
}

func rlabSum(b []byte) uint64 {
	// same FNV as the sink's
	var h uint64 = 14695981039346656037
	for _, x := range b {
		h ^= uint64(x)
		h *= 1099511628211
	}
	return h
}

func check(fatalf func(string, ...any), c Case) {
	vt.SetCase(c)
	v, inc, nt, labels := run(c)
	if inc != "" {
		vstat.Note("inconclusive case (not counted): " + inc)
		vstat.Add("inconclusive_cases", 1)
		return
	}
	vstat.Case(vstat.Hash(c.JSON()), nt, labels, func() any { return c })
	if v != nil {
		if vstat.Fail(v.sig, v.detail, c) {
			return
		}
		vstat.FailFast(v.sig, v.detail)
		fatalf("VERIF-FAIL sig=%s :: %s", v.sig, v.detail)
	}
}

func TestC11HealthyLink(t *testing.T) {
	rapid.Check(t, func(rt *rapid.T) { check(rt.Fatalf, genCase(rt)) })
}

// several goroutines of one system contact the peer for the first time at the same instant
func TestC11FirstContact(t *testing.T) {
	rapid.Check(t, func(rt *rapid.T) { check(rt.Fatalf, genRace(rt)) })
}

// the shapes the generator found on the pinned tree
func TestC11Regressions(t *testing.T) {
	for _, c := range []Case{
		{Senders: 1, Burst: 200, Size: 100, Mode: "exact"},
		{Senders: 1, Burst: 50, Size: 10, Mode: "coalesce", N: 8},
		{Senders: 1, Burst: 5, Size: 10, Mode: "exact", HoldMs: 40},
		{Senders: 2, Burst: 10, Size: 4097, Mode: "split", N: 3, AskEvery: 3},
		{Senders: 1, Burst: 20, Size: 64, Mode: "exact", IdleMs: 10600}, // a connection older than the 10 s handshake deadline
		{Senders: 1, Burst: 4, NearLimit: 1, Mode: "exact"},
		{Senders: 1, Burst: 3, NearLimit: 4, Mode: "chunks", N: 4096},
		{Senders: 4, Burst: 3, Size: 2 << 20, Race: true, Mode: "exact"},
	} {
		check(t.Fatalf, c)
	}
}

func TestReplay(t *testing.T) {
	p := os.Getenv("VERIF_REPLAY_CASE")
	if p == "" {
		t.Skip("no VERIF_REPLAY_CASE")
	}
	b, err := os.ReadFile(p)
	if err != nil {
		t.Fatal(err)
	}
	var c Case
	var hr struct {
		Case *Case `json:"case"`
	}
	if json.Unmarshal(b, &hr) == nil && hr.Case != nil && hr.Case.Senders > 0 {
		c = *hr.Case
	} else if err := json.Unmarshal(b, &c); err != nil {
		t.Fatal(err)
	}
	check(t.Fatalf, c)
}
