// C20 — scheduled messages fire as specified and die with their actor.
// Virtual time (synctest): exact instants.
package c20

import (
	"encoding/json"
	"fmt"
	"os"
	"sort"
	"strings"
	"testing"
	"time"

	"github.com/kercylan98/vivid/verif/internal/vstat"
	"github.com/kercylan98/vivid/verif/internal/vt"
	"github.com/kercylan98/vivid/verif/internal/world"
	"pgregory.net/rapid"
)

func TestMain(m *testing.M) {
	vt.StartWatchdog(30 * time.Second)
	vstat.Main(m.Run)
}

const tick = 100 * time.Millisecond

type Op struct {
	At    int    `json:"at"`   // tick
	Kind  string `json:"kind"` // once | loop | cron | badcron | cancel | clear | kill | restart | cancelunknown
	Owner string `json:"owner"`
	To    string `json:"to,omitempty"`
	Ref   string `json:"ref,omitempty"`
	D     int64  `json:"d,omitempty"` // ns
	ID    int    `json:"id,omitempty"`
}

type Case struct {
	Actors  []string `json:"actors"`
	Ops     []Op     `json:"ops"`
	Horizon int      `json:"horizon"` // ticks
	// Launch: jobs (once / loop, to the actor itself) that an actor arms in its OnLaunch handler, i.e. in every life;
	// every life's job has its own message id (ID + 1000 x life) and reference
	Launch map[string][]Op `json:"launch,omitempty"`
}

func (c Case) JSON() string { b, _ := json.Marshal(c); return string(b) }

func (c Case) Describe() string {
	var s []string
	for _, o := range c.Ops {
		x := fmt.Sprintf("@%dms %s.%s", o.At*100, o.Owner, o.Kind)
		switch o.Kind {
		case "once", "loop":
			x += fmt.Sprintf("(→%s %v ref=%s #%d)", o.To, time.Duration(o.D), o.Ref, o.ID)
		case "cron", "badcron":
			x += fmt.Sprintf("(→%s ref=%s #%d)", o.To, o.Ref, o.ID)
		case "cancel", "cancelunknown":
			x += "(" + o.Ref + ")"
		}
		s = append(s, x)
	}
	return strings.Join(s, " ") + fmt.Sprintf(" | horizon %dms", c.Horizon*100)
}

func genCase(t *rapid.T) Case {
	var c Case
	n := rapid.IntRange(1, 3).Draw(t, "nActors")
	for i := 0; i < n; i++ {
		c.Actors = append(c.Actors, string("abc"[i]))
	}
	c.Horizon = rapid.IntRange(10, 45).Draw(t, "horizon")
	nops := rapid.IntRange(1, 10).Draw(t, "nOps")
	id := 0
	refs := []string{"r1", "r2", "r3"}
	for i := 0; i < nops; i++ {
		o := Op{At: rapid.IntRange(0, c.Horizon-1).Draw(t, "at"), Owner: rapid.SampledFrom(c.Actors).Draw(t, "owner")}
		o.Kind = rapid.SampledFrom([]string{"once", "once", "loop", "loop", "loop", "cron", "badcron", "cancel", "cancel", "clear", "kill", "restart", "cancelunknown"}).Draw(t, "kind")
		switch o.Kind {
		case "once", "loop", "cron", "badcron":
			o.To = o.Owner
			if rapid.IntRange(0, 3).Draw(t, "other") == 0 {
				o.To = rapid.SampledFrom(c.Actors).Draw(t, "to")
			}
			o.Ref = rapid.SampledFrom(refs).Draw(t, "ref")
			id++
			o.ID = id
			switch o.Kind {
			case "once":
				o.D = rapid.SampledFrom([]int64{0, 1, int64(tick), int64(3 * tick), int64(250 * time.Millisecond), int64(time.Second), int64(2 * time.Hour)}).Draw(t, "delay")
			case "loop":
				o.D = rapid.SampledFrom([]int64{int64(tick), int64(2 * tick), int64(250 * time.Millisecond), int64(time.Second), int64(3 * time.Second)}).Draw(t, "interval")
			}
		case "cancel":
			o.Ref = rapid.SampledFrom(refs).Draw(t, "ref")
		case "cancelunknown":
			o.Ref = "never-used"
		}
		c.Ops = append(c.Ops, o)
	}
	sort.SliceStable(c.Ops, func(i, j int) bool { return c.Ops[i].At < c.Ops[j].At })
	for _, a := range c.Actors {
		if rapid.IntRange(0, 2).Draw(t, "launchJobs") != 0 {
			continue
		}
		if c.Launch == nil {
			c.Launch = map[string][]Op{}
		}
		k := rapid.IntRange(1, 2).Draw(t, "nLaunchJobs")
		for i := 0; i < k; i++ {
			id++
			o := Op{Kind: rapid.SampledFrom([]string{"once", "loop"}).Draw(t, "launchKind"), Owner: a, To: a, Ref: fmt.Sprintf("L%d", i), ID: 100 + id}
			if o.Kind == "once" {
				o.D = rapid.SampledFrom([]int64{0, int64(tick), int64(3 * tick), int64(time.Second)}).Draw(t, "launchDelay")
			} else {
				o.D = rapid.SampledFrom([]int64{int64(tick), int64(2 * tick), int64(time.Second)}).Draw(t, "launchInterval")
			}
			c.Launch[a] = append(c.Launch[a], o)
		}
	}
	return c
}

type job struct {
	op        Op
	t0        int64 // ns since world start
	end       int64 // cancel / clear / owner death / restart instant (-1 = none)
	uncertain bool  // reference reused while active, or rescheduled under a finished once: not judged
}

type verdict struct{ sig, detail string }

func run(t *testing.T, c Case) (v *verdict, nontrivial bool, labels []string) {
	lab := map[string]bool{}
	res := vt.Run(t, func() {
		w := world.New(world.Options{SysDecisions: []string{"restart"}, SysStrategy: "one"})
		defer w.Close()
		spawnedAt := w.Now()
		for _, a := range c.Actors {
			sp := world.Spec{Name: a}
			for _, o := range c.Launch[a] {
				sp.OnLaunch = append(sp.OnLaunch, world.Step{Op: o.Kind, To: o.To, D: o.D, ID: o.ID, S: o.Ref, PerLife: true})
			}
			_, _ = w.Spawn(sp)
		}
		vt.Settle()
		alive := map[string]bool{}
		for _, a := range c.Actors {
			alive[a] = true
		}
		var jobs []*job
		active := map[string]*job{} // owner|ref -> running job
		known := map[string]bool{}  // owner|ref ever scheduled and not cancelled (the owner's reference table)
		tainted := map[string]bool{}
		type callExp struct {
			who, op, note string
			err           []string // acceptable
		}
		var exps []callExp
		endJob := func(j *job, at int64) {
			if j.end < 0 {
				j.end = at
			}
		}
		life := map[string]int{}
		armLaunchJobs := func(a string, at int64) {
			// what the actor's OnLaunch handler does at the start of every life
			for _, o := range c.Launch[a] {
				lo := o
				lo.ID = o.ID + 1000*life[a]
				lo.Ref = fmt.Sprintf("%s#%d", o.Ref, life[a])
				exps = append(exps, callExp{a, lo.Kind, lo.Ref, []string{""}})
				j := &job{op: lo, t0: at, end: -1}
				active[a+"|"+lo.Ref] = j
				known[a+"|"+lo.Ref] = true
				jobs = append(jobs, j)
				lab["job-armed-in-OnLaunch"] = true
			}
			life[a]++
		}
		for _, a := range c.Actors {
			armLaunchJobs(a, spawnedAt)
		}
		for tk := 0; tk <= c.Horizon; tk++ {
			now := w.Now()
			for _, o := range c.Ops {
				if o.At != tk {
					continue
				}
				lab["op:"+o.Kind] = true
				key := o.Owner + "|" + o.Ref
				switch o.Kind {
				case "once", "loop", "cron", "badcron":
					if !alive[o.Owner] {
						continue
					}
					st := world.Step{To: o.To, D: o.D, ID: o.ID, S: o.Ref}
					switch o.Kind {
					case "once":
						st.Op = "once"
					case "loop":
						st.Op = "loop"
					case "cron":
						st.Op, st.L = "cron", []string{"*/2 * * * * *"}
					case "badcron":
						st.Op, st.L = "cron", []string{"not a cron"}
					}
					w.Tell(o.Owner, "", 0, []world.Step{st})
					if o.Kind == "badcron" {
						exps = append(exps, callExp{o.Owner, "cron", o.Ref, []string{"CronParse"}})
						continue
					}
					exps = append(exps, callExp{o.Owner, st.Op, o.Ref, []string{""}})
					j := &job{op: o, t0: now, end: -1}
					if prev := active[key]; prev != nil && (tainted[key] || !(prev.end >= 0 && prev.end < now || prev.op.Kind == "once" && prev.t0+prev.op.D < now)) {
						// a job that is (or may still be) live under the same key: what happens to either is
						// not specified; the key is not judged any more in this case
						prev.uncertain, j.uncertain = true, true
						tainted[key] = true
						lab["reference-reused-while-active"] = true
					}
					active[key] = j
					known[key] = true
					jobs = append(jobs, j)
				case "cancel", "cancelunknown":
					if !alive[o.Owner] {
						continue
					}
					w.Tell(o.Owner, "", 0, []world.Step{{Op: "cancel", S: o.Ref}})
					if !known[key] {
						exps = append(exps, callExp{o.Owner, "cancel", o.Ref, []string{"NotFound"}})
					} else {
						j := active[key]
						if tainted[key] || (j != nil && j.op.Kind == "once" && finished(j, now)) {
							// the reference of a run-once job that has fired: any answer
							exps = append(exps, callExp{o.Owner, "cancel", o.Ref, nil})
						} else {
							exps = append(exps, callExp{o.Owner, "cancel", o.Ref, []string{""}})
						}
						if j != nil {
							endJob(j, now)
						}
						delete(known, key)
						delete(active, key)
					}
				case "clear":
					if !alive[o.Owner] {
						continue
					}
					w.Tell(o.Owner, "", 0, []world.Step{{Op: "clear"}})
					for k, j := range active {
						if strings.HasPrefix(k, o.Owner+"|") {
							endJob(j, now)
							delete(active, k)
							delete(known, k)
						}
					}
				case "kill", "restart":
					if !alive[o.Owner] {
						continue
					}
					if o.Kind == "kill" {
						w.Kill(o.Owner, "", false)
						alive[o.Owner] = false
					} else {
						w.Tell(o.Owner, "", 0, []world.Step{{Op: "panic"}})
					}
					for k, j := range active {
						if strings.HasPrefix(k, o.Owner+"|") {
							endJob(j, now)
							delete(active, k)
							delete(known, k)
						}
					}
					if o.Kind == "restart" {
						// the new life starts at once and arms its own jobs
						armLaunchJobs(o.Owner, now)
						if len(c.Launch[o.Owner]) > 0 {
							lab["restart-of-an-actor-that-arms-jobs-in-OnLaunch"] = true
						}
					}
				}
				vt.Settle() // operations of one tick are applied in script order
			}
			vt.Settle()
			if tk < c.Horizon {
				vt.Advance(tick)
			}
		}
		endT := w.Now()
		tr, obs := w.Snapshot()
		// ---- return values of the scheduling calls, in order per actor
		calls := w.CallsCopy()
		cursor := map[string]int{} // per actor: its calls are recorded in the order its handler made them
		for _, e := range exps {
			var mine []world.CallResult
			for _, cl := range calls {
				if cl.Who == e.who && (cl.Op == "once" || cl.Op == "loop" || cl.Op == "cron" || cl.Op == "cancel") {
					mine = append(mine, cl)
				}
			}
			i := cursor[e.who]
			if i >= len(mine) {
				continue // the operation was not carried out (the actor was gone)
			}
			cl := mine[i]
			cursor[e.who] = i + 1
			if cl.Op != e.op || cl.Note != e.note {
				continue // cannot be attributed: skip rather than guess
			}
			if e.err != nil {
				ok := false
				for _, acc := range e.err {
					if cl.Err == acc {
						ok = true
					}
				}
				if !ok {
					clause := "call-result"
					if e.op == "cron" {
						clause = "cron-parse"
					} else if e.op == "cancel" {
						clause = "cancel-result"
					}
					v = &verdict{"C20/" + clause, fmt.Sprintf("%s.%s(%s) returned %q, expected one of %q; case: %s", e.who, e.op, e.note, cl.Err, e.err, c.Describe())}
					return
				}
			}
		}
		// ---- deliveries per job
		for _, j := range jobs {
			if j.uncertain {
				continue
			}
			var times []int64
			for _, e := range tr {
				if e.Kind == "msg" && e.ID == j.op.ID {
					if !e.Sched {
						v = &verdict{"C20/original-value", fmt.Sprintf("the scheduled message %d arrived without its original content", j.op.ID)}
						return
					}
					if e.Actor != "/"+j.op.To {
						v = &verdict{"C20/receiver", fmt.Sprintf("job %d was delivered to %s instead of %s", j.op.ID, e.Actor, j.op.To)}
						return
					}
					times = append(times, e.T)
				}
			}
			var deadTimes []int64
			for _, o := range obs {
				if o.Type == "DeadLetter" && o.MsgID == j.op.ID {
					deadTimes = append(deadTimes, o.T)
				}
			}
			// receiver's life: deliveries after its death are dead letters; treat both as "fired"
			fired := append(append([]int64{}, times...), deadTimes...)
			sort.Slice(fired, func(a, b int) bool { return fired[a] < fired[b] })
			limit := endT
			if j.end >= 0 {
				limit = j.end
			}
			var want []int64 // must fire (strictly before limit)
			var optional []int64
			add := func(at int64) {
				switch {
				case at < limit:
					want = append(want, at)
				case at == limit:
					optional = append(optional, at)
				}
			}
			switch j.op.Kind {
			case "once":
				add(j.t0 + j.op.D)
			case "loop":
				for k := int64(1); j.t0+k*j.op.D <= limit; k++ {
					add(j.t0 + k*j.op.D)
				}
			case "cron":
				period := int64(2 * time.Second)
				for at := (j.t0/period + 1) * period; at <= limit; at += period {
					add(at)
				}
			}
			desc := func() string {
				return fmt.Sprintf("job #%d %s.%s(→%s, %v, ref %s) scheduled at %v, ended at %v; fired at %v; expected %v (optional %v); case: %s", j.op.ID, j.op.Owner, j.op.Kind, j.op.To, time.Duration(j.op.D), j.op.Ref, time.Duration(j.t0), time.Duration(j.end), durs(fired), durs(want), durs(optional), c.Describe())
			}
			wi := 0
			for _, ft := range fired {
				switch {
				case wi < len(want) && ft == want[wi]:
					wi++
				case contains(optional, ft):
				default:
					clause := "unexpected-firing"
					if j.end >= 0 && ft >= j.end {
						clause = "fired-after-end|" + endKind(c, j)
					} else if j.op.Kind == "once" && ft < j.t0+j.op.D {
						clause = "once-too-early"
					} else if j.op.Kind == "once" && len(fired) > 1 {
						clause = "once-twice"
					}
					v = &verdict{"C20/" + clause, desc()}
					return
				}
			}
			if wi != len(want) {
				clause := "missed-firing|" + j.op.Kind
				v = &verdict{"C20/" + clause, desc()}
				return
			}
			if j.end >= 0 && len(want) > 0 {
				nontrivial = true
			}
			if j.op.Kind == "loop" && j.end >= 0 {
				nontrivial = true
			}
		}
		// ---- an invalid cron schedules nothing
		for _, o := range c.Ops {
			if o.Kind == "badcron" {
				for _, e := range tr {
					if e.Kind == "msg" && e.ID == o.ID {
						v = &verdict{"C20/cron-parse|scheduled-anyway", fmt.Sprintf("an invalid cron expression still produced a delivery of message %d", o.ID)}
						return
					}
				}
			}
		}
	})
	if v == nil && res.Panic != nil {
		v = &verdict{"C20/harness-panic", fmt.Sprintf("%v\n%s", res.Panic, res.Stack)}
	}
	for l := range lab {
		labels = append(labels, l)
	}
	sort.Strings(labels)
	return
}

func endKind(c Case, j *job) string {
	// the operation that ended the job
	best := "end"
	for _, o := range c.Ops {
		if int64(o.At)*int64(tick) <= j.end && o.Owner == j.op.Owner {
			switch o.Kind {
			case "cancel":
				if o.Ref == j.op.Ref {
					best = "cancel"
				}
			case "clear", "kill", "restart":
				best = o.Kind
			}
		}
	}
	return best
}

func finished(j *job, now int64) bool {
	if j.end >= 0 {
		return true
	}
	return j.op.Kind == "once" && j.t0+j.op.D <= now
}

func contains(xs []int64, x int64) bool {
	for _, v := range xs {
		if v == x {
			return true
		}
	}
	return false
}

func durs(xs []int64) []time.Duration {
	var out []time.Duration
	for _, x := range xs {
		out = append(out, time.Duration(x))
	}
	if len(out) > 12 {
		out = append(out[:12], -1)
	}
	return out
}

func check(t *testing.T, fatalf func(string, ...any), c Case) {
	vt.SetCase(c)
	v, nt, labels := run(t, c)
	vstat.Case(vstat.Hash(c.JSON()), nt, labels, func() any { return c.Describe() })
	if v != nil {
		if vstat.Fail(v.sig, v.detail, c) {
			return
		}
		fatalf("VERIF-FAIL sig=%s :: %s\njson=%s", v.sig, v.detail, c.JSON())
	}
}

func TestC20Scheduler(t *testing.T) {
	rapid.Check(t, func(rt *rapid.T) { check(t, rt.Fatalf, genCase(rt)) })
}

func TestReplay(t *testing.T) {
	p := os.Getenv("VERIF_REPLAY_CASE")
	if p == "" {
		t.Skip("no VERIF_REPLAY_CASE")
	}
	b, err := os.ReadFile(p)
	if err != nil {
		t.Fatal(err)
	}
	var c Case
	var hr struct {
		Case *Case `json:"case"`
	}
	if json.Unmarshal(b, &hr) == nil && hr.Case != nil && len(hr.Case.Actors) > 0 {
		c = *hr.Case
	} else if err := json.Unmarshal(b, &c); err != nil {
		t.Fatal(err)
	}
	check(t, t.Fatalf, c)
}

// TestC20ThroughTheMailbox: "delivery goes through the receiver's mailbox like any other message". The receiver is busy
// (its handler waits at a gate) with k ordinary messages queued behind; a job of another actor (or its own) fires
// meanwhile; more ordinary messages follow; then the gate opens. The scheduled message takes its place in the queue: it
// is handled after everything that was queued before its firing instant and before everything sent after it.
func TestC20ThroughTheMailbox(t *testing.T) {
	rapid.Check(t, func(rt *rapid.T) {
		before := rapid.IntRange(0, 3).Draw(rt, "queuedBefore")
		after := rapid.IntRange(0, 2).Draw(rt, "sentAfter")
		self := rapid.IntRange(0, 3).Draw(rt, "selfAddressed") == 0
		loop := rapid.Bool().Draw(rt, "loop")
		desc := fmt.Sprintf("receiver busy, %d messages queued before the firing instant, %d sent after it, job of %s, loop=%v", before, after, map[bool]string{true: "the receiver itself", false: "another actor"}[self], loop)
		vt.SetCase(map[string]any{"test": "TestC20ThroughTheMailbox", "case": desc})
		var order []int
		res := vt.Run(t, func() {
			w := world.New(world.Options{})
			defer w.Close()
			_, _ = w.Spawn(world.Spec{Name: "r"})
			_, _ = w.Spawn(world.Spec{Name: "o"})
			vt.Settle()
			owner := "o"
			if self {
				owner = "r"
			}
			op := "once"
			if loop {
				op = "loop"
			}
			// the job is armed first (by a message the owner handles at once), then the receiver gets busy
			w.Tell(owner, "", 0, []world.Step{{Op: op, To: "r", D: int64(100 * time.Millisecond), ID: 500, S: "job"}})
			vt.Settle()
			w.Tell("r", "", 1, []world.Step{{Op: "gate", S: "busy"}})
			vt.Settle()
			for i := 0; i < before; i++ {
				w.Tell("r", "", 10+i, nil)
			}
			vt.Advance(150 * time.Millisecond) // the job fires once (a loop: at +100 ms; its next instant is +200 ms)
			for i := 0; i < after; i++ {
				w.Tell("r", "", 20+i, nil)
			}
			vt.Settle()
			w.Open("busy")
			vt.Settle()
			tr, _ := w.Snapshot()
			for _, e := range tr {
				if e.Actor == "/r" && e.Kind == "msg" && e.ID != 0 {
					order = append(order, e.ID)
				}
			}
		})
		if res.Panic != nil {
			rt.Fatalf("harness: %v\n%s", res.Panic, res.Stack)
		}
		want := []int{1}
		for i := 0; i < before; i++ {
			want = append(want, 10+i)
		}
		want = append(want, 500)
		for i := 0; i < after; i++ {
			want = append(want, 20+i)
		}
		vstat.Case(vstat.Hash(desc), before > 0, []string{"through-the-mailbox"}, func() any { return desc })
		if fmt.Sprint(order) != fmt.Sprint(want) {
			sig, detail := "C20/through-the-mailbox|order", fmt.Sprintf("%s: the receiver handled %v, expected %v (500 = the scheduled message)", desc, order, want)
			if !vstat.Fail(sig, detail, nil) {
				rt.Fatalf("VERIF-FAIL sig=%s :: %s", sig, detail)
			}
		}
	})
}
