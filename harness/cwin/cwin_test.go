// Package cwin: "window" units of C03 and C06. The termination / restart chain of one actor is parked at a drawn
// statement boundary of killed_handler.go (window points inserted into a copy of the file at check time, see
// cmd/vcheck/instr.go and DESIGN.md 3.2); while it stands there other parties act on it - tell it through every kind of
// reference, watch it, kill it again, look it up, spawn its name again - then the chain is released and the script goes
// on. A random scheduler practically never lands in windows that are a few instructions wide; here the position is a
// generated dimension of the case. The oracles are the clauses of C03 and C06 themselves.
package cwin

import (
	"encoding/json"
	"fmt"
	"os"
	"sort"
	"strings"
	"sync"
	"testing"
	"time"

	"github.com/kercylan98/vivid/internal/actor"
	"github.com/kercylan98/vivid/verif/internal/vstat"
	"github.com/kercylan98/vivid/verif/internal/vt"
	"github.com/kercylan98/vivid/verif/internal/world"
	"pgregory.net/rapid"
)

func TestMain(m *testing.M) {
	vt.StartWatchdog(30 * time.Second)
	vstat.Main(m.Run)
}

type WOp struct {
	Kind   string `json:"kind"` // tell | watch | kill | spawn | find
	Via    string `json:"via,omitempty"`
	By     string `json:"by,omitempty"` // watch: b | c
	ID     int    `json:"id,omitempty"`
	Poison bool   `json:"poison,omitempty"`
}

type WCase struct {
	Nested   bool   `json:"nested"`   // target is p/a (its parent is a probe) or the top-level a
	Children int    `json:"children"` // children of the target
	Trigger  string `json:"trigger"`  // kill | poison | restart | stop (a failure answered by Stop) | parentkill (the parent is killed)
	Point    int    `json:"point"`
	Pre      []WOp  `json:"pre"`
	Intr     []WOp  `json:"intr"`
	Post     []WOp  `json:"post"`
}

func (c WCase) JSON() string { b, _ := json.Marshal(c); return string(b) }

func (c WCase) target() string {
	if c.Nested {
		return "p/a"
	}
	return "a"
}

func (c WCase) Describe() string {
	f := func(ops []WOp) string {
		var s []string
		for _, o := range ops {
			switch o.Kind {
			case "tell":
				s = append(s, fmt.Sprintf("tell#%d(via %q)", o.ID, o.Via))
			case "watch":
				s = append(s, fmt.Sprintf("%s.watch(via %q)", o.By, o.Via))
			case "kill":
				s = append(s, fmt.Sprintf("kill(poison=%v)", o.Poison))
			default:
				s = append(s, o.Kind)
			}
		}
		return strings.Join(s, " ")
	}
	return fmt.Sprintf("target %s with %d children | pre: %s | trigger %s, parked at window point %d | meanwhile: %s | released | then: %s", c.target(), c.Children, f(c.Pre), c.Trigger, c.Point, f(c.Intr), f(c.Post))
}

var vias = []string{"", "clone", "parse", "find", "create"}

func genOps(t *rapid.T, n int, id *int, phase string) []WOp {
	var ops []WOp
	for i := 0; i < n; i++ {
		kinds := []string{"tell", "tell", "tell", "watch", "watch"}
		if phase != "pre" {
			kinds = append(kinds, "kill", "spawn", "spawn", "find")
		}
		o := WOp{Kind: rapid.SampledFrom(kinds).Draw(t, "kind")}
		switch o.Kind {
		case "tell":
			*id++
			o.ID = *id
			o.Via = rapid.SampledFrom(vias).Draw(t, "via")
		case "watch":
			o.By = rapid.SampledFrom([]string{"b", "c"}).Draw(t, "watcher")
			o.Via = rapid.SampledFrom(vias).Draw(t, "via")
		case "kill":
			o.Poison = rapid.Bool().Draw(t, "poison")
		}
		ops = append(ops, o)
	}
	return ops
}

func genCase(t *rapid.T) WCase {
	c := WCase{Nested: rapid.IntRange(0, 3).Draw(t, "nested") > 0}
	c.Children = rapid.SampledFrom([]int{0, 0, 1, 2}).Draw(t, "children")
	trig := []string{"kill", "kill", "poison", "restart", "stop"}
	if c.Nested {
		trig = append(trig, "parentkill")
	}
	c.Trigger = rapid.SampledFrom(trig).Draw(t, "trigger")
	c.Point = rapid.IntRange(0, 60).Draw(t, "point")
	id := 1000
	c.Pre = genOps(t, rapid.IntRange(0, 4).Draw(t, "nPre"), &id, "pre")
	c.Intr = genOps(t, rapid.IntRange(1, 6).Draw(t, "nIntr"), &id, "intr")
	c.Post = genOps(t, rapid.IntRange(0, 4).Draw(t, "nPost"), &id, "post")
	return c
}

// facts is what one execution established; the two properties judge it separately.
type facts struct {
	parked     bool
	site       string
	points     int
	tells      []tellRec
	watches    []watchRec
	spawns     []spawnRec
	finds      []findRec
	kills      int
	trace      []world.Ev
	obs        []world.Obs
	parkTrace  int // len(trace) when the actor stood parked
	parkObs    int
	relTrace   int // len(trace) at the release
	relObs     int
	successor  bool
	succAtTr   int
	predInsts  map[int]bool
	overwork   bool
	finalFound bool
}

type tellRec struct {
	id    int
	phase string // pre | intr | post
}
type watchRec struct {
	by    string
	phase string
}
type spawnRec struct {
	phase          string
	err            string
	parentNotified bool // the parent had already handled the target's OnKilled when the spawn was issued
}
type findRec struct {
	phase          string
	found          bool
	parentNotified bool
	terminated     bool // the ActorKilledEvent of the target had been observed
}

// run executes the case; when the target passes fewer window points than the drawn index, the case is executed once more
// with the index folded into the number of points it did pass.
func run(t *testing.T, c WCase) (f facts, labels []string, harnessErr string) {
	f, labels, harnessErr = runAt(t, c, c.Point)
	if harnessErr == "" && !f.parked && f.points > 0 {
		f, labels, harnessErr = runAt(t, c, c.Point%f.points)
	}
	return
}

func runAt(t *testing.T, c WCase, point int) (f facts, labels []string, harnessErr string) {
	lab := map[string]bool{}
	res := vt.Run(t, func() {
		sysDec := []string{"restart"}
		if c.Trigger == "stop" {
			sysDec = []string{"stop"}
		}
		w := world.New(world.Options{SysDecisions: sysDec, SysStrategy: "one"})
		defer w.Close()
		tgt := c.target()
		tpath := world.Path(tgt)
		aSpec := world.Spec{Name: "a"}
		if c.Nested {
			pSpec := world.Spec{Name: "p", Strategy: "one", Decisions: []string{"restart"}}
			if c.Trigger == "stop" {
				pSpec.Decisions = []string{"stop"}
			}
			_, _ = w.Spawn(pSpec)
			vt.Settle()
			w.Tell("p", "", 0, []world.Step{{Op: "spawn", Spec: &aSpec}})
		} else {
			_, _ = w.Spawn(aSpec)
		}
		_, _ = w.Spawn(world.Spec{Name: "b"})
		_, _ = w.Spawn(world.Spec{Name: "c"})
		vt.Settle()
		for i := 0; i < c.Children; i++ {
			w.Tell(tgt, "", 0, []world.Step{{Op: "spawn", Spec: &world.Spec{Name: fmt.Sprintf("x%d", i)}}})
		}
		vt.Settle()
		parentNotified := func() bool {
			if !c.Nested {
				return false // the parent is the root: not a probe
			}
			tr, _ := w.Snapshot()
			for _, e := range tr {
				if e.Actor == "/p" && e.Kind == "killed:"+tpath {
					return true
				}
			}
			return false
		}
		terminated := func() bool {
			_, obs := w.Snapshot()
			for _, o := range obs {
				if o.Type == "Killed" && o.Actor == tpath {
					return true
				}
			}
			return false
		}
		do := func(ops []WOp, phase string) {
			for _, o := range ops {
				switch o.Kind {
				case "tell":
					w.Tell(tgt, o.Via, o.ID, nil)
					f.tells = append(f.tells, tellRec{o.ID, phase})
				case "watch":
					w.Tell(o.By, "", 0, []world.Step{{Op: "watch", To: tgt, Via: o.Via}})
					f.watches = append(f.watches, watchRec{o.By, phase})
				case "kill":
					w.Kill(tgt, "", o.Poison)
					f.kills++
				case "find":
					pn, tm := parentNotified(), terminated()
					_, err := w.Sys.FindActor(actor.LocalAddress + tpath)
					f.finds = append(f.finds, findRec{phase, err == nil, pn, tm})
				case "spawn":
					if f.successor {
						continue
					}
					pn := parentNotified()
					tr, _ := w.Snapshot()
					insts := map[int]bool{}
					for _, e := range tr {
						if e.Actor == tpath {
							insts[e.Inst] = true
						}
					}
					ncalls := len(w.CallsCopy())
					if c.Nested {
						w.Tell("p", "", 0, []world.Step{{Op: "spawn", Spec: &aSpec}})
						vt.Settle()
					} else {
						_, _ = w.Spawn(aSpec)
					}
					errS, seen := "", false
					for _, cl := range w.CallsCopy()[ncalls:] {
						if cl.Op == "spawn:a" {
							errS, seen = cl.Err, true
						}
					}
					if !seen {
						continue // the parent did not get to it (it is terminating itself)
					}
					f.spawns = append(f.spawns, spawnRec{phase, errS, pn})
					if errS == "" {
						f.successor, f.succAtTr, f.predInsts = true, len(tr), insts
					}
				}
				vt.Settle()
			}
		}
		do(c.Pre, "pre")
		// ---- arm the window and pull the trigger
		var mu sync.Mutex
		armed, reached := true, 0
		parked, release := make(chan struct{}), make(chan struct{})
		actor.VerifWindowHook = func(s string, path string) {
			if path != tpath {
				return
			}
			mu.Lock()
			if !armed {
				mu.Unlock()
				return
			}
			k := reached
			reached++
			hit := k == point
			if hit {
				armed, f.site = false, s
			}
			mu.Unlock()
			if hit {
				close(parked)
				<-release
			}
		}
		defer func() { actor.VerifWindowHook = nil }()
		switch c.Trigger {
		case "kill":
			w.Kill(tgt, "", false)
		case "poison":
			w.Kill(tgt, "", true)
		case "parentkill":
			w.Kill("p", "", false)
		default:
			w.Tell(tgt, "", 0, []world.Step{{Op: "panic"}})
		}
		vt.Settle()
		select {
		case <-parked:
			f.parked = true
		default:
		}
		mu.Lock()
		armed = false
		f.points = reached
		mu.Unlock()
		if !f.parked {
			lab["point-not-reached"] = true
			lab[fmt.Sprintf("points:%s/%d=%d", c.Trigger, c.Children, f.points)] = true
			return
		}
		lab["parked:"+strings.SplitN(f.site, ":", 2)[0]] = true
		lab["trigger:"+c.Trigger] = true
		tr, ob := w.Snapshot()
		f.parkTrace, f.parkObs = len(tr), len(ob)
		do(c.Intr, "intr")
		tr, ob = w.Snapshot()
		f.relTrace, f.relObs = len(tr), len(ob)
		close(release)
		vt.Settle()
		do(c.Post, "post")
		vt.Settle()
		_, err := w.Sys.FindActor(actor.LocalAddress + tpath)
		f.finalFound = err == nil
		f.trace, f.obs = w.Snapshot()
		f.overwork = w.Overwork
		if f.successor {
			lab["successor"] = true
		}
	})
	if res.Deadlock {
		// the usual reason: the system could not be stopped at the end of the case (an actor never terminated), the
		// goroutine of the timed-out Stop is what remains
		harnessErr = fmt.Sprintf("DEADLOCK %v", res.Panic)
	} else if res.Panic != nil {
		harnessErr = fmt.Sprintf("%v\n%s", res.Panic, res.Stack)
	}
	for l := range lab {
		labels = append(labels, l)
	}
	sort.Strings(labels)
	return
}

type verdict struct{ sig, detail string }

// ---- C03: every user message ends in exactly one place
func judgeC03(c WCase, f facts) *verdict {
	handled, dead := map[int]int{}, map[int]int{}
	for _, e := range f.trace {
		if e.Kind == "msg" && e.ID >= 1000 {
			handled[e.ID]++
		}
	}
	for _, o := range f.obs {
		if o.Type == "DeadLetter" && o.MsgID >= 1000 {
			dead[o.MsgID]++
		}
	}
	for _, tl := range f.tells {
		h, d := handled[tl.id], dead[tl.id]
		switch {
		case h+d == 0:
			return &verdict{"C03/window|lost", fmt.Sprintf("message %d (sent %s the window) was neither processed nor dead-lettered; case: %s", tl.id, when(tl.phase), c.Describe())}
		case h+d > 1:
			return &verdict{"C03/window|twice", fmt.Sprintf("message %d (sent %s the window) was processed %d times and dead-lettered %d times; case: %s", tl.id, when(tl.phase), h, d, c.Describe())}
		}
	}
	return nil
}

func when(phase string) string {
	switch phase {
	case "pre":
		return "before"
	case "intr":
		return "inside"
	}
	return "after"
}

// ---- C06: notifications exactly once, path released once reported terminated
func judgeC06(c WCase, f facts) *verdict {
	tpath := world.Path(c.target())
	terminates := c.Trigger != "restart"
	// ActorKilledEvent of the target (of the predecessor: a successor is never killed here unless a later kill op hits it)
	killedEvents := 0
	for _, o := range f.obs {
		if o.Type == "Killed" && o.Actor == tpath {
			killedEvents++
		}
	}
	laterKills := 0
	for _, o := range c.Post {
		if o.Kind == "kill" {
			laterKills++
		}
	}
	for _, o := range c.Intr {
		if o.Kind == "kill" {
			laterKills++
		}
	}
	maxKilled := 1
	if f.successor || c.Trigger == "restart" {
		maxKilled = 2 // a kill operation after the hand-over / the restart may terminate the successor / the restarted actor too
	}
	if killedEvents > maxKilled || (killedEvents > 1 && laterKills == 0) {
		return &verdict{"C06/window|killed-event-twice", fmt.Sprintf("%d ActorKilledEvent for %s; case: %s", killedEvents, tpath, c.Describe())}
	}
	if c.Trigger == "restart" && laterKills > 0 && killedEvents == 0 {
		return &verdict{"C06/window|not-terminated", fmt.Sprintf("%s was killed (%d kill operations) while or after it was being restarted, yet it was never reported terminated; case: %s", tpath, laterKills, c.Describe())}
	}
	if terminates && killedEvents == 0 {
		return &verdict{"C06/window|not-terminated", fmt.Sprintf("%s was never reported terminated (no ActorKilledEvent); case: %s", tpath, c.Describe())}
	}
	// per watcher: OnKilled of the target
	perWatcher := map[string]int{}
	for _, e := range f.trace {
		if e.Kind == "killed:"+tpath && e.Actor != tpath {
			perWatcher[e.Actor]++
		}
	}
	pre := map[string]bool{}
	for _, wr := range f.watches {
		if wr.phase == "pre" {
			pre["/"+wr.by] = true
		}
	}
	if c.Nested && c.Trigger != "parentkill" {
		pre["/p"] = true // the parent watches by construction
	}
	for who := range pre {
		n := perWatcher[who]
		if terminates && n < 1 {
			return &verdict{"C06/window|watcher-not-notified", fmt.Sprintf("%s watched %s before its termination began but received no OnKilled for it; case: %s", who, tpath, c.Describe())}
		}
	}
	for who, n := range perWatcher {
		if n > maxKilled || (n > 1 && killedEvents <= 1) {
			return &verdict{"C06/window|notified-twice", fmt.Sprintf("%s received %d OnKilled for %s (%d terminations of that path); case: %s", who, n, tpath, killedEvents, c.Describe())}
		}
	}
	// children first
	if terminates {
		at := -1
		for i, o := range f.obs {
			if o.Type == "Killed" && o.Actor == tpath && at < 0 {
				at = i
			}
		}
		for i := 0; i < c.Children; i++ {
			cp := fmt.Sprintf("%s/x%d", tpath, i)
			ci := -1
			for j, o := range f.obs {
				if o.Type == "Killed" && o.Actor == cp && ci < 0 {
					ci = j
				}
			}
			if ci < 0 || (at >= 0 && ci > at) {
				return &verdict{"C06/window|children-first", fmt.Sprintf("child %s was reported terminated after its parent %s (or never); case: %s", cp, tpath, c.Describe())}
			}
		}
	}
	// path released once reported terminated
	for _, fr := range f.finds {
		if fr.found && (fr.parentNotified || fr.terminated) && !f.successor && terminates {
			return &verdict{"C06/window|released|find", fmt.Sprintf("%s had been reported terminated (parent notified=%v, ActorKilledEvent=%v) yet FindActor still resolved it (%s the window); case: %s", tpath, fr.parentNotified, fr.terminated, when(fr.phase), c.Describe())}
		}
	}
	for _, sp := range f.spawns {
		if sp.err != "" && sp.parentNotified && terminates && strings.Contains(sp.err, "exist") {
			return &verdict{"C06/window|released|name-reuse", fmt.Sprintf("the parent had received OnKilled for %s yet could not reuse the name (%s the window): %s; case: %s", tpath, when(sp.phase), sp.err, c.Describe())}
		}
	}
	if terminates && !f.successor && f.finalFound {
		return &verdict{"C06/window|released|find", fmt.Sprintf("at quiescence %s is terminated and has no successor, yet FindActor resolves it; case: %s", tpath, c.Describe())}
	}
	return nil
}

// ---- C05: per instance, OnLaunch first and nothing after the own OnKilled (a restarted instance starts over)
func judgeC05(c WCase, f facts) *verdict {
	type key struct {
		path string
		inst int
	}
	state := map[key]int{} // 0 awaiting OnLaunch, 1 running
	for i, e := range f.trace {
		if e.Actor == "/zz-observer" || strings.HasPrefix(e.Kind, "hook:") {
			continue
		}
		k := key{e.Actor, e.Inst}
		ctx := func() string {
			lo := i - 6
			if lo < 0 {
				lo = 0
			}
			return world.Fmt(f.trace[lo : i+1])
		}
		switch {
		case e.Kind == "launch":
			if state[k] == 1 {
				return &verdict{"C05/window|onlaunch|twice", fmt.Sprintf("%s received OnLaunch while it was already running: %s; case: %s", e.Actor, ctx(), c.Describe())}
			}
			state[k] = 1
		case e.Kind == "killed:"+e.Actor:
			if state[k] != 1 {
				return &verdict{"C05/window|own-killed|out-of-place", fmt.Sprintf("%s saw its own OnKilled without a preceding OnLaunch of that incarnation: %s; case: %s", e.Actor, ctx(), c.Describe())}
			}
			state[k] = 0
		default:
			if state[k] != 1 {
				what := "before its OnLaunch"
				for _, p := range f.trace[:i] {
					if p.Actor == e.Actor && p.Inst == e.Inst && p.Kind == "killed:"+e.Actor {
						what = "after its own OnKilled"
					}
				}
				return &verdict{"C05/window|outside-incarnation", fmt.Sprintf("%s handled %s %s: %s; case: %s", e.Actor, e.Kind, what, ctx(), c.Describe())}
			}
		}
	}
	// a spawn that was refused never receives anything; one that succeeded is launched
	if f.successor {
		launched := false
		for _, e := range f.trace[f.succAtTr:] {
			if e.Actor == world.Path(c.target()) && !f.predInsts[e.Inst] && e.Kind == "launch" {
				launched = true
			}
		}
		if !launched {
			return &verdict{"C05/window|onlaunch|missing", fmt.Sprintf("the actor spawned under the name of the terminating one (ActorOf returned no error) never received OnLaunch; case: %s", c.Describe())}
		}
	}
	return nil
}

func check(t *testing.T, fatalf func(string, ...any), c WCase, prop string) {
	vt.SetCase(map[string]any{"window": c})
	f, labels, herr := run(t, c)
	vstat.Case(vstat.Hash(prop, c.JSON()), f.parked, labels, func() any { return c.Describe() })
	var v *verdict
	switch {
	case strings.HasPrefix(herr, "DEADLOCK "):
		v = &verdict{prop + "/window|bubble-deadlock", "the bubble could not be left - the system did not stop at the end of the case or a goroutine stayed blocked for ever: " + strings.TrimPrefix(herr, "DEADLOCK ") + "; case: " + c.Describe()}
	case herr != "":
		v = &verdict{prop + "/window|harness-panic", herr}
	case f.overwork:
		v = &verdict{prop + "/window|unbounded-work", "more than 2e6 deliveries; case: " + c.Describe()}
	case !f.parked:
	case prop == "C03":
		v = judgeC03(c, f)
	case prop == "C05":
		v = judgeC05(c, f)
	default:
		v = judgeC06(c, f)
	}
	if v != nil {
		if vstat.Fail(v.sig, v.detail, map[string]any{"window": c}) {
			return
		}
		fatalf("VERIF-FAIL sig=%s :: %s\njson=%s", v.sig, v.detail, c.JSON())
	}
}

func TestC03Window(t *testing.T) {
	rapid.Check(t, func(rt *rapid.T) { check(t, rt.Fatalf, genCase(rt), "C03") })
}

func TestC05Window(t *testing.T) {
	rapid.Check(t, func(rt *rapid.T) { check(t, rt.Fatalf, genCase(rt), "C05") })
}

func TestC06Window(t *testing.T) {
	rapid.Check(t, func(rt *rapid.T) { check(t, rt.Fatalf, genCase(rt), "C06") })
}

func TestReplay(t *testing.T) {
	p := os.Getenv("VERIF_REPLAY_CASE")
	if p == "" {
		t.Skip("no VERIF_REPLAY_CASE")
	}
	b, err := os.ReadFile(p)
	if err != nil {
		t.Fatal(err)
	}
	var hr struct {
		Case *struct {
			Window *WCase `json:"window"`
		} `json:"case"`
		Window *WCase `json:"window"`
	}
	if err := json.Unmarshal(b, &hr); err != nil {
		t.Fatal(err)
	}
	var c *WCase
	if hr.Case != nil && hr.Case.Window != nil {
		c = hr.Case.Window
	} else {
		c = hr.Window
	}
	if c == nil {
		t.Fatal("no window case in the replay file")
	}
	prop := os.Getenv("VERIF_PROPERTY")
	if prop == "" {
		prop = "C06"
	}
	check(t, t.Fatalf, *c, prop)
}
