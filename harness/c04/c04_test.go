// C04 — every Ask completes exactly once, with its own reply, a timeout not
// earlier than its timeout, or actor-dead if the asker terminates first; no
// registration is kept afterwards; completion, waiting and piping from
// different goroutines all see the one final result.
package c04

import (
	"encoding/json"
	"errors"
	"fmt"
	"os"
	"sort"
	"strings"
	"testing"
	"time"

	"github.com/kercylan98/vivid"
	"github.com/kercylan98/vivid/verif/internal/vstat"
	"github.com/kercylan98/vivid/verif/internal/vt"
	"github.com/kercylan98/vivid/verif/internal/world"
	"pgregory.net/rapid"
)

func TestMain(m *testing.M) {
	vt.StartWatchdog(30 * time.Second)
	vstat.Main(m.Run)
}

const ms = int64(time.Millisecond)

type Ask struct {
	ID      int      `json:"id"`
	Asker   string   `json:"asker"` // "" = the system
	Target  string   `json:"target"`
	At      int      `json:"at"`      // ms
	Timeout int      `json:"timeout"` // ms, > 0
	Reply   string   `json:"reply"`   // delay | never | twice | err
	Delay   int      `json:"delay"`   // ms
	Waiters int      `json:"waiters"`
	Pipe    []string `json:"pipe,omitempty"`    // forwarders for Future.PipeTo
	PipeAt  int      `json:"pipeAt"`            // ms after At, -1 = never
	CloseAt int      `json:"closeAt"`           // ms after At, -1 = never
	CtxPipe bool     `json:"ctxPipe,omitempty"` // use ActorContext.PipeTo instead of Ask (forwarders = Pipe)
	// Default: the Ask is issued without a timeout argument: the asker's own default applies (the actor's if it has
	// one, else the system's); Timeout then holds that effective value
	Default bool `json:"default,omitempty"`
	// Pipe2: a second Future.PipeTo call, issued in the same tick right after the first one, with these forwarders
	Pipe2 []string `json:"pipe2,omitempty"`
}

type Case struct {
	Actors []string       `json:"actors"`
	Asks   []Ask          `json:"asks"`
	Kills  map[string]int `json:"kills,omitempty"` // actor -> ms at which it terminates
	// How an actor of Kills terminates ("" = immediate kill): poison | restart-kill (it fails, its restart waits for a
	// slow child, a kill abandons the restart) | zombie-kill (it fails, the restart fails in OnRestarted, a kill releases
	// the zombie) | stop-decision (it fails and its supervisor decides Stop). All steps happen at the same virtual instant.
	How         map[string]string `json:"how,omitempty"`
	SysDecision string            `json:"sysDecision,omitempty"` // decision of the system strategy: "" (library default) | restart | stop
	// default Ask timeouts (ms): of the system (0 = one hour, i.e. never within a case) and of single actors
	SysDefault   int            `json:"sysDefault,omitempty"`
	ActorDefault map[string]int `json:"actorDefault,omitempty"`
	// Respawn: the killed actor is spawned again under the same name at the instant of its death (only actors that are
	// askers and nothing else in the case): its later asks are issued by the new incarnation, while replies to the old
	// incarnation's requests are still on their way
	Respawn map[string]bool `json:"respawn,omitempty"`
}

func (c Case) JSON() string { b, _ := json.Marshal(c); return string(b) }

func (c Case) Describe() string {
	var b strings.Builder
	for _, a := range c.Asks {
		who := a.Asker
		if who == "" {
			who = "system"
		}
		fmt.Fprintf(&b, "ask#%d %s→%s at %dms timeout %dms reply=%s", a.ID, who, a.Target, a.At, a.Timeout, a.Reply)
		if a.Reply != "never" {
			fmt.Fprintf(&b, "@+%dms", a.Delay)
		}
		fmt.Fprintf(&b, " waiters=%d", a.Waiters)
		if a.PipeAt >= 0 {
			fmt.Fprintf(&b, " pipeTo%v@+%dms", a.Pipe, a.PipeAt)
		}
		if a.CloseAt >= 0 {
			fmt.Fprintf(&b, " close@+%dms", a.CloseAt)
		}
		if a.CtxPipe {
			b.WriteString(" ctx.PipeTo")
		}
		b.WriteString("; ")
	}
	for k, v := range c.Kills {
		fmt.Fprintf(&b, "kill %s at %dms; ", k, v)
	}
	return b.String()
}

func genCase(t *rapid.T) Case {
	var c Case
	na := rapid.IntRange(2, 4).Draw(t, "nActors")
	for i := 0; i < na; i++ {
		c.Actors = append(c.Actors, string("abcd"[i]))
	}
	if rapid.IntRange(0, 2).Draw(t, "defaults") == 0 {
		c.SysDefault = rapid.IntRange(2, 6).Draw(t, "sysDefault")
		c.ActorDefault = map[string]int{}
		for _, a := range c.Actors {
			if rapid.Bool().Draw(t, "ownDefault") {
				c.ActorDefault[a] = rapid.IntRange(1, 6).Draw(t, "actorDefault")
			}
		}
	}
	n := rapid.IntRange(1, 8).Draw(t, "nAsks")
	for i := 0; i < n; i++ {
		a := Ask{ID: 100 + i*10, PipeAt: -1, CloseAt: -1}
		if rapid.IntRange(0, 3).Draw(t, "fromSystem") > 0 {
			a.Asker = rapid.SampledFrom(c.Actors).Draw(t, "asker")
		}
		a.Target = rapid.SampledFrom(c.Actors).Draw(t, "target")
		a.At = rapid.IntRange(0, 3).Draw(t, "at")
		a.Timeout = rapid.IntRange(1, 5).Draw(t, "timeout")
		if c.SysDefault > 0 && rapid.IntRange(0, 2).Draw(t, "useDefault") > 0 {
			a.Default = true
			a.Timeout = c.SysDefault
			if d, ok := c.ActorDefault[a.Asker]; ok && a.Asker != "" {
				a.Timeout = d
			}
		}
		a.Reply = rapid.SampledFrom([]string{"delay", "delay", "delay", "never", "twice", "err"}).Draw(t, "reply")
		// delays around the timeout: 0, < t, = t, > t
		a.Delay = rapid.SampledFrom([]int{0, 0, max(a.Timeout-1, 0), a.Timeout, a.Timeout + 1, rapid.IntRange(0, 6).Draw(t, "delayAny")}).Draw(t, "delay")
		a.Waiters = rapid.IntRange(1, 4).Draw(t, "waiters")
		if rapid.IntRange(0, 2).Draw(t, "pipe") == 0 {
			k := rapid.IntRange(1, 3).Draw(t, "nForwarders")
			// Future.PipeTo forwards to actors[1:], ActorContext.PipeTo to actors[0]: the two kinds of
			// PipeResult cannot be told apart at a forwarder
			a.Pipe = rapid.SliceOfNDistinct(rapid.SampledFrom(c.Actors[1:]), 1, min(k, len(c.Actors)-1), func(s string) string { return s }).Draw(t, "forwarders")
			a.PipeAt = rapid.SampledFrom([]int{0, 0, a.Delay, a.Timeout, rapid.IntRange(0, 6).Draw(t, "pipeAny")}).Draw(t, "pipeAt")
			if a.PipeAt == 0 && rapid.IntRange(0, 2).Draw(t, "pipeTwice") == 0 {
				a.Pipe2 = rapid.SliceOfNDistinct(rapid.SampledFrom(c.Actors[1:]), 1, len(c.Actors)-1, func(s string) string { return s }).Draw(t, "forwarders2")
			}
			if a.Asker != "" && rapid.IntRange(0, 2).Draw(t, "ctxPipe") == 0 {
				a.Pipe2 = nil
				a.CtxPipe = true
				a.PipeAt = 0
				a.Waiters = 0
				a.Pipe = []string{c.Actors[0]}
			}
		}
		if !a.CtxPipe && rapid.IntRange(0, 5).Draw(t, "close") == 0 {
			a.CloseAt = rapid.SampledFrom([]int{0, a.Delay, a.Timeout, rapid.IntRange(0, 6).Draw(t, "closeAny")}).Draw(t, "closeAt")
		}
		c.Asks = append(c.Asks, a)
	}
	if rapid.IntRange(0, 1).Draw(t, "kill") == 0 {
		c.Kills = map[string]int{}
		k := rapid.IntRange(1, 2).Draw(t, "nKills")
		c.SysDecision = rapid.SampledFrom([]string{"", "", "restart", "restart", "stop"}).Draw(t, "sysDecision")
		hows := []string{"", "", "poison"}
		switch c.SysDecision {
		case "restart":
			hows = append(hows, "restart-kill", "restart-kill", "zombie-kill", "zombie-kill")
		case "stop":
			hows = append(hows, "stop-decision", "stop-decision")
		}
		c.How = map[string]string{}
		for i := 0; i < k; i++ {
			v := rapid.SampledFrom(c.Actors).Draw(t, "victim")
			c.Kills[v] = rapid.IntRange(0, 6).Draw(t, "killAt")
			c.How[v] = rapid.SampledFrom(hows).Draw(t, "how")
			askerOnly := false
			for _, a := range c.Asks {
				askerOnly = askerOnly || a.Asker == v
			}
			for _, a := range c.Asks {
				if a.Target == v || contains(a.Pipe, v) || contains(a.Pipe2, v) {
					askerOnly = false
				}
			}
			if askerOnly && rapid.Bool().Draw(t, "respawn") {
				if c.Respawn == nil {
					c.Respawn = map[string]bool{}
				}
				c.Respawn[v] = true
			}
		}
	}
	return c
}

type verdict struct{ sig, detail string }

var errClosed = errors.New("verif: closed by the script")

type outcome struct {
	at    int64 // ms
	kind  string
	msgID int
	err   string
}

func run(t *testing.T, c Case) (v *verdict, nontrivial bool, labels []string) {
	lab := map[string]bool{}
	res := vt.Run(t, func() {
		opt := world.Options{AskTimeout: time.Hour}
		if c.SysDefault > 0 {
			opt.AskTimeout = time.Duration(c.SysDefault) * time.Millisecond
		}
		if c.SysDecision != "" {
			opt.SysDecisions = []string{c.SysDecision}
		}
		w := world.New(opt)
		defer w.Close()
		for _, n := range c.Actors {
			sp := world.Spec{Name: n, AskTimeout: int64(c.ActorDefault[n]) * ms}
			if c.How[n] == "zombie-kill" {
				sp.FailRestarted, sp.FailMode = []int{1}, "panic"
			}
			_, _ = w.Spawn(sp)
			if c.How[n] == "restart-kill" {
				child := world.Spec{Name: "k", GateKill: "slow-child-of-" + n}
				w.Tell(n, "", 0, []world.Step{{Op: "spawn", Spec: &child}})
			}
		}
		vt.Settle()
		horizon := 0
		for _, a := range c.Asks {
			horizon = max(horizon, a.At+max(a.Timeout, a.Delay, a.PipeAt, a.CloseAt)+2)
		}
		issued := map[int]bool{}
		issuedAt := map[int]int64{}
		killedAt := map[string]int{}
		for tick := 0; tick <= horizon; tick++ {
			// kills first or asks first is a drawn-by-data order: kills at the same tick come last
			for _, a := range c.Asks {
				if a.At == tick {
					prog := []world.Step{}
					switch a.Reply {
					case "delay":
						prog = []world.Step{{Op: "replyafter", D: int64(a.Delay) * ms, ID: a.ID + 1000}}
					case "twice":
						prog = []world.Step{{Op: "replyafter", D: int64(a.Delay) * ms, ID: a.ID + 1000, N: 2}}
					case "err":
						if a.Delay == 0 {
							prog = []world.Step{{Op: "replyerr"}}
						} else {
							prog = []world.Step{{Op: "replyafter", D: int64(a.Delay) * ms, ID: a.ID + 1000}}
						}
					}
					d := int64(a.Timeout) * ms
					if a.Default {
						d = 0 // no timeout argument
						lab["default-timeout"] = true
					}
					st := world.Step{Op: "ask", To: a.Target, ID: a.ID, D: d, N: a.Waiters, Do: prog}
					if a.CtxPipe {
						st = world.Step{Op: "pipe", To: a.Target, ID: a.ID, D: d, L: a.Pipe, Do: prog}
					}
					if a.Asker == "" {
						w.Exec(st)
						issued[a.ID] = true
					} else {
						w.Tell(a.Asker, "", 0, []world.Step{st})
					}
				}
			}
			vt.Settle()
			for _, a := range c.Asks {
				rec := w.Futures[a.ID]
				if a.At == tick && rec != nil {
					issued[a.ID] = true
					issuedAt[a.ID] = rec.T0
				}
				if rec == nil {
					continue
				}
				if a.PipeAt >= 0 && !a.CtxPipe && a.At+a.PipeAt == tick {
					var refs vivid.ActorRefs
					for _, n := range a.Pipe {
						refs = append(refs, w.Ref(n))
					}
					_ = rec.F.PipeTo(refs)
					if len(a.Pipe2) > 0 {
						var refs2 vivid.ActorRefs
						for _, n := range a.Pipe2 {
							refs2 = append(refs2, w.Ref(n))
						}
						_ = rec.F.PipeTo(refs2)
						lab["piped-twice"] = true
					}
				}
				if a.CloseAt >= 0 && a.At+a.CloseAt == tick {
					rec.F.Close(errClosed)
				}
			}
			for n, at := range c.Kills {
				if at == tick {
					if _, done := killedAt[n]; !done {
						killedAt[n] = tick
						lab["death:"+c.How[n]] = true
						switch c.How[n] {
						case "poison":
							w.Kill(n, "", true)
						case "restart-kill":
							w.Tell(n, "", 0, []world.Step{{Op: "panic"}})
							vt.Settle() // the restart waits for the slow child
							w.Kill(n, "", false)
							vt.Settle()
							w.Open("slow-child-of-" + n)
						case "zombie-kill":
							w.Tell(n, "", 0, []world.Step{{Op: "panic"}})
							vt.Settle() // OnRestarted failed: a zombie
							w.Kill(n, "", false)
						case "stop-decision":
							w.Tell(n, "", 0, []world.Step{{Op: "panic"}})
						default:
							w.Kill(n, "", false)
						}
						if c.Respawn[n] {
							vt.Settle()
							if _, err := w.Spawn(world.Spec{Name: n, AskTimeout: int64(c.ActorDefault[n]) * ms}); err == nil {
								lab["asker-respawned-under-its-name"] = true
							}
						}
					}
				}
			}
			vt.Settle()
			vt.Advance(time.Millisecond)
		}
		vt.Advance(time.Second)
		tr, _ := w.Snapshot()
		// ---- every future: model vs observation
		for _, a := range c.Asks {
			if a.CtxPipe {
				continue
			}
			rec := w.Futures[a.ID]
			if rec == nil {
				continue // the asker was dead before it could ask
			}
			t0 := rec.T0 / ms
			var cands []outcome
			replyID := a.ID + 1000
			targetDeadAt, targetKilled := killedAt[a.Target]
			switch a.Reply {
			case "delay", "twice":
				if !(targetKilled && int64(targetDeadAt) < t0) {
					cands = append(cands, outcome{at: t0 + int64(a.Delay), kind: "reply", msgID: replyID})
				}
			case "err":
				if !(targetKilled && int64(targetDeadAt) < t0) {
					if a.Delay == 0 {
						cands = append(cands, outcome{at: t0, kind: "reply-error", msgID: -1, err: "err:verif: reply error"})
					} else {
						cands = append(cands, outcome{at: t0 + int64(a.Delay), kind: "reply", msgID: replyID})
					}
				}
			}
			cands = append(cands, outcome{at: t0 + int64(a.Timeout), kind: "timeout", msgID: -1, err: "FutureTimeout"})
			if a.Asker != "" {
				if kt, ok := killedAt[a.Asker]; ok && int64(kt) >= t0 {
					cands = append(cands, outcome{at: int64(kt), kind: "asker-dead", msgID: -1, err: "ActorDeaded"})
				}
			}
			if a.CloseAt >= 0 {
				cands = append(cands, outcome{at: t0 + int64(a.CloseAt), kind: "closed", msgID: -1, err: "err:" + errClosed.Error()})
			}
			earliest := cands[0].at
			for _, cnd := range cands {
				earliest = min(earliest, cnd.at)
			}
			var ok []outcome
			for _, cnd := range cands {
				if cnd.at == earliest {
					ok = append(ok, cnd)
				}
			}
			if len(ok) > 1 {
				lab["tie"] = true
				nontrivial = true
			}
			for _, cnd := range cands {
				if cnd.at != earliest && cnd.at-earliest <= 1 {
					nontrivial = true
				}
			}
			lab["cause:"+ok[0].kind] = true
			results := rec.ResultsOf()
			want := a.Waiters
			if want <= 0 {
				want = 1
			}
			desc := func() string {
				var cs []string
				for _, cnd := range cands {
					cs = append(cs, fmt.Sprintf("%s@%dms", cnd.kind, cnd.at))
				}
				return fmt.Sprintf("ask#%d (asked at %dms): candidate causes %v; waiters returned %+v", a.ID, t0, cs, results)
			}
			if len(results) != want {
				v = &verdict{"C04/blocks-beyond-completion|" + ok[0].kind, fmt.Sprintf("%d of %d Result/Wait callers have not returned although every cause lies in the past and the system is quiescent; %s", want-len(results), want, desc())}
				return
			}
			for _, r := range results {
				matched := false
				for _, cnd := range ok {
					if r.T/ms == cnd.at && r.Err == cnd.err && (r.MsgID == cnd.msgID || r.MsgID == -2) {
						matched = true
					}
				}
				if !matched {
					clause := "wrong-result"
					if r.Err == "FutureTimeout" && r.T/ms < t0+int64(a.Timeout) {
						clause = "timeout-too-early"
					} else if r.MsgID >= 0 && r.MsgID != replyID {
						clause = "foreign-reply"
					}
					v = &verdict{"C04/" + clause + "|" + ok[0].kind, fmt.Sprintf("a waiter got (msg %d, err %q) at %dms; %s", r.MsgID, r.Err, r.T/ms, desc())}
					return
				}
			}
			// all waiters agree
			for _, r := range results[1:] {
				a0 := results[0]
				if r.Err != a0.Err || (r.MsgID >= -1 && a0.MsgID >= -1 && r.MsgID != a0.MsgID) {
					v = &verdict{"C04/waiters-disagree", fmt.Sprintf("waiters of one future saw different results; %s", desc())}
					return
				}
			}
			// Future.PipeTo: every live forwarder exactly one PipeResult equal to the final result
			if a.PipeAt >= 0 {
				final := results[0]
				for _, r := range results {
					if r.MsgID != -2 {
						final = r
					}
				}
				fws := append([]string{}, a.Pipe...)
				for _, x := range a.Pipe2 {
					if !contains(fws, x) {
						fws = append(fws, x)
					}
				}
				for _, fw := range fws {
					if _, dead := killedAt[fw]; dead {
						continue
					}
					n := 0
					for _, e := range tr {
						if e.Actor == "/"+fw && e.Kind == "pipe" && pipeMatches(e, final, replyID) {
							n++
						}
					}
					// several futures may pipe identical-looking results to the same forwarder: count per result signature
					// a forwarder named by two PipeTo calls on a future that is still pending is registered once; once the
					// future has completed every call forwards by itself (then one or two are both right)
					expected, expectedMax := 0, 0
					for _, b := range c.Asks {
						calls := 0
						if contains(b.Pipe, fw) {
							calls++
						}
						if contains(b.Pipe2, fw) {
							calls++
						}
						if b.PipeAt >= 0 && !b.CtxPipe && calls > 0 {
							if rb := w.Futures[b.ID]; rb != nil {
								rs := rb.ResultsOf()
								if len(rs) > 0 && sameFinal(rs, final, b.ID+1000, replyID) {
									expected++
									expectedMax++
									if calls == 2 && rs[0].T/ms <= rb.T0/ms {
										expectedMax++ // completed in the millisecond of the calls: before or after them
									}
								}
							}
						}
					}
					if n < expected || n > expectedMax {
						v = &verdict{"C04/pipe|exactly-once", fmt.Sprintf("forwarder %s received %d PipeResult matching the final result of ask#%d (msg %d, err %q), expected %d; PipeTo was called %dms after the ask; %s ; forwarder trace: %s", fw, n, a.ID, final.MsgID, final.Err, expected, a.PipeAt, desc(), world.Fmt(world.PerActor(tr)["/"+fw]))}
						return
					}
					lab["piped"] = true
				}
			}
		}
		// ---- ActorContext.PipeTo: every live forwarder gets exactly one PipeResult per pipe
		expectCtx := 0
		for _, a := range c.Asks {
			if !a.CtxPipe {
				continue
			}
			if kt, dead := killedAt[a.Asker]; dead && kt < a.At && !c.Respawn[a.Asker] {
				continue // the asker was dead before it could call PipeTo (and nobody took its name)
			}
			expectCtx++
			lab["ctx-pipe"] = true
		}
		if _, dead := killedAt[c.Actors[0]]; !dead {
			got := 0
			for _, e := range tr {
				if e.Actor == "/"+c.Actors[0] && e.Kind == "pipe" {
					got++
				}
			}
			if got != expectCtx {
				v = &verdict{"C04/ctx-pipe|exactly-once", fmt.Sprintf("forwarder %s received %d PipeResult from %d ActorContext.PipeTo calls; its trace: %s", c.Actors[0], got, expectCtx, world.Fmt(world.PerActor(tr)["/"+c.Actors[0]]))}
				return
			}
		}
		// ---- no registration left
		reg, buckets, entries := w.Sys.VerifFutures()
		if reg != 0 || buckets != 0 || entries != 0 {
			v = &verdict{"C04/registration-left", fmt.Sprintf("after every future completed the system still holds %d future mailboxes, %d asker buckets with %d entries", reg, buckets, entries)}
			return
		}
	})
	if v == nil && res.Panic != nil {
		if res.Deadlock {
			v = &verdict{"C04/blocks-beyond-completion|deadlock", fmt.Sprintf("the bubble could not end (a waiter is blocked for ever): %v\n%s", res.Panic, res.Stack)}
		} else {
			v = &verdict{"C04/harness-panic", fmt.Sprintf("%v\n%s", res.Panic, res.Stack)}
		}
	}
	for l := range lab {
		labels = append(labels, l)
	}
	sort.Strings(labels)
	return
}

func contains(xs []string, x string) bool {
	for _, v := range xs {
		if v == x {
			return true
		}
	}
	return false
}

func pipeMatches(e world.Ev, final world.FutResult, replyID int) bool {
	if final.Err != "" {
		return e.Note == final.Err && e.ID == -1
	}
	return e.ID == final.MsgID && e.Note == ""
}

func sameFinal(rs []world.FutResult, final world.FutResult, theirReply, myReply int) bool {
	f := rs[0]
	for _, r := range rs {
		if r.MsgID != -2 {
			f = r
		}
	}
	if final.Err != "" {
		return f.Err == final.Err
	}
	return f.Err == "" && f.MsgID == final.MsgID
}

func check(t *testing.T, fatalf func(string, ...any), c Case) {
	vt.SetCase(c)
	v, nt, labels := run(t, c)
	vstat.Case(vstat.Hash(c.JSON()), nt, labels, func() any { return c.Describe() })
	if v != nil {
		if vstat.Fail(v.sig, v.detail, c) {
			return
		}
		fatalf("VERIF-FAIL sig=%s :: %s\ncase: %s\njson=%s", v.sig, v.detail, c.Describe(), c.JSON())
	}
}

func TestC04Asks(t *testing.T) {
	rapid.Check(t, func(rt *rapid.T) { check(t, rt.Fatalf, genCase(rt)) })
}

func TestReplay(t *testing.T) {
	p := os.Getenv("VERIF_REPLAY_CASE")
	if p == "" {
		t.Skip("no VERIF_REPLAY_CASE")
	}
	b, err := os.ReadFile(p)
	if err != nil {
		t.Fatal(err)
	}
	var c Case
	var hr struct {
		Case *Case `json:"case"`
	}
	if json.Unmarshal(b, &hr) == nil && hr.Case != nil && len(hr.Case.Asks) > 0 {
		c = *hr.Case
	} else if err := json.Unmarshal(b, &c); err != nil {
		t.Fatal(err)
	}
	check(t, t.Fatalf, c)
}
