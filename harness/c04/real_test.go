package c04

import (
	"errors"
	"fmt"
	"net"
	"os"
	"strconv"
	"sync"
	"sync/atomic"
	"testing"
	"time"

	"github.com/kercylan98/vivid"
	"github.com/kercylan98/vivid/internal/actor"
	"github.com/kercylan98/vivid/verif/internal/hlog"
	"github.com/kercylan98/vivid/verif/internal/vstat"
	"github.com/kercylan98/vivid/verif/internal/vt"
)

// Real clock, real threads (run with -race): what a virtual clock cannot reach.
//  - timeouts of 1 ns .. 10 µs: the timer can fire before the future is registered;
//  - PipeTo racing the completion on another thread;
//  - askers dying while their futures complete (reply / timeout on other threads).
// Oracle: every Result returns its own reply or a timeout / actor-dead error; a forwarder gets
// exactly one PipeResult per piped future; no registration is left once everything completed;
// the process survives (a fatal "concurrent map" error kills it: crash oracle of the driver).

type req struct{ id int64 }
type rep struct{ id int64 }

type echo struct {
	silent bool
	delay  time.Duration // reply after this long (0 = at once)
}

func (e *echo) OnReceive(ctx vivid.ActorContext) {
	if m, ok := ctx.Message().(*req); ok && !e.silent {
		if e.delay > 0 {
			time.Sleep(e.delay)
		}
		ctx.Reply(&rep{id: m.id})
	}
}

type sink struct {
	mu  sync.Mutex
	got map[string]int
}

func (s *sink) OnReceive(ctx vivid.ActorContext) {
	if m, ok := ctx.Message().(*vivid.PipeResult); ok {
		key := "err"
		if r, ok := m.Message.(*rep); ok && r != nil {
			key = strconv.FormatInt(r.id, 10)
		} else if m.Error != nil {
			key = "err:" + m.Error.Error()
		}
		s.mu.Lock()
		s.got[key]++
		s.mu.Unlock()
	}
}

// asker issues Asks from inside an actor and is killed while they are in flight
type asker struct {
	target vivid.ActorRef
	n      int
	tmo    time.Duration
	out    chan vivid.Future[vivid.Message]
}

func (a *asker) OnReceive(ctx vivid.ActorContext) {
	if _, ok := ctx.Message().(*vivid.OnLaunch); ok {
		for i := 0; i < a.n; i++ {
			a.out <- ctx.Ask(a.target, &req{id: int64(i)}, a.tmo)
		}
		close(a.out)
	}
}

func TestC04RealClock(t *testing.T) {
	rounds := 6
	if os.Getenv("VERIF_TIER") == "thorough" {
		rounds = 60
	}
	seed, _ := strconv.ParseUint(os.Getenv("VERIF_RSEED"), 10, 64)
	timeouts := []time.Duration{1, 100, time.Microsecond, 10 * time.Microsecond, time.Millisecond, 50 * time.Millisecond}
	for r := 0; r < rounds; r++ {
		x := seed + uint64(r)*0x9e3779b97f4a7c15
		workers := 4 + int(x%13)
		perWorker := 200
		vt.SetCase(map[string]any{"test": "TestC04RealClock", "rapid_seed": os.Getenv("VERIF_RSEED"), "round": r})
		sys := actor.NewSystem(vivid.WithActorSystemLogger(hlog.Nop))
		if err := sys.Start(); err != nil {
			t.Fatal(err)
		}
		replying, _ := sys.ActorOf(&echo{})
		silent, _ := sys.ActorOf(&echo{silent: true})
		sk := &sink{got: map[string]int{}}
		sinkRef, _ := sys.ActorOf(sk)
		var bad atomic.Value
		var piped atomic.Int64
		var tinyTimeouts atomic.Int64
		fail := func(sig, format string, a ...any) {
			bad.CompareAndSwap(nil, [2]string{sig, fmt.Sprintf(format, a...)})
		}
		var wg sync.WaitGroup
		var idSeq atomic.Int64
		for wkr := 0; wkr < workers; wkr++ {
			wg.Add(1)
			go func(wkr int) {
				defer wg.Done()
				y := x ^ uint64(wkr)*0xbf58476d1ce4e5b9
				for i := 0; i < perWorker; i++ {
					y = y*6364136223846793005 + 1442695040888963407
					tmo := timeouts[(y>>33)%uint64(len(timeouts))]
					target := replying
					if (y>>40)%3 == 0 {
						target = silent
					}
					id := idSeq.Add(1)
					f := sys.Ask(target, &req{id: id}, tmo)
					if tmo <= 10*time.Microsecond {
						tinyTimeouts.Add(1)
					}
					doPipe := (y>>45)%2 == 0
					var pw sync.WaitGroup
					if doPipe {
						pw.Add(1)
						go func() { defer pw.Done(); _ = f.PipeTo(vivid.ActorRefs{sinkRef}) }()
						piped.Add(1)
					}
					m, err := f.Result()
					if err == nil {
						if rp, ok := m.(*rep); !ok || rp.id != id {
							fail("C04/foreign-reply|real-clock", "ask %d got reply %v", id, m)
						}
						if target == silent {
							fail("C04/foreign-reply|real-clock", "ask %d to a silent actor got a reply %v", id, m)
						}
					} else if !errors.Is(err, vivid.ErrorFutureTimeout) {
						fail("C04/wrong-result|real-clock", "ask %d: unexpected error %v", id, err)
					}
					if err2 := f.Wait(); (err2 == nil) != (err == nil) {
						fail("C04/waiters-disagree|real-clock", "Result gave %v, a later Wait gave %v", err, err2)
					}
					pw.Wait()
				}
			}(wkr)
		}
		// askers that die while their futures complete
		var futs []vivid.Future[vivid.Message]
		var fmu sync.Mutex
		for k := 0; k < 6; k++ {
			out := make(chan vivid.Future[vivid.Message], 64)
			tgt := replying
			if k%2 == 0 {
				tgt = silent
			}
			ref, err := sys.ActorOf(&asker{target: tgt, n: 40, tmo: timeouts[int(x>>8+uint64(k))%len(timeouts)] + 50*time.Microsecond, out: out})
			if err != nil {
				t.Fatal(err)
			}
			wg.Add(1)
			go func() {
				defer wg.Done()
				n := 0
				for f := range out {
					fmu.Lock()
					futs = append(futs, f)
					fmu.Unlock()
					n++
					if n == 20 {
						sys.Kill(ref, false, "verif")
					}
				}
			}()
		}
		wg.Wait()
		for _, f := range futs {
			done := make(chan struct{})
			go func() { _, _ = f.Result(); close(done) }()
			select {
			case <-done:
			case <-time.After(20 * time.Second):
				fail("C04/blocks-beyond-completion|real-clock", "a future of a killed asker has not completed 20 s after every timeout expired")
			}
			_, err := f.Result()
			if err != nil && !errors.Is(err, vivid.ErrorFutureTimeout) && !errors.Is(err, vivid.ErrorActorDeaded) {
				fail("C04/wrong-result|real-clock", "future of a killed asker: %v", err)
			}
		}
		// everything completed: registrations can only go away, never come back: wait for them patiently
		deadline := time.Now().Add(10 * time.Second)
		var reg, buckets, entries int
		for {
			reg, buckets, entries = sys.VerifFutures()
			if (reg == 0 && buckets == 0 && entries == 0) || time.Now().After(deadline) {
				break
			}
			time.Sleep(20 * time.Millisecond)
		}
		if reg != 0 || buckets != 0 || entries != 0 {
			fail("C04/registration-left|real-clock", "every future has completed, yet the system holds %d future mailboxes and %d asker buckets with %d entries (timeouts down to 1ns were used: %d asks with <= 10µs)", reg, buckets, entries, tinyTimeouts.Load())
		}
		// forwarders: one PipeResult per piped future (the sink drains asynchronously: wait for the count)
		deadline = time.Now().Add(10 * time.Second)
		total := 0
		for {
			sk.mu.Lock()
			total = 0
			dup := ""
			for k, n := range sk.got {
				total += n
				if n > 1 && k != "err" && len(k) < 12 && k[0] != 'e' {
					dup = k
				}
			}
			sk.mu.Unlock()
			sk.mu.Lock()
			empty := sk.got["err"]
			sk.mu.Unlock()
			if empty > 0 {
				// every future of this unit completes with a reply or with an error (timeout, Close, dead asker)
				fail("C04/pipe|empty-result|real-clock", "the forwarder received %d PipeResult that carry neither the reply nor an error: PipeTo raced the completion on another thread and forwarded a result that was not written yet", empty)
			}
			if dup != "" {
				fail("C04/pipe|exactly-once|real-clock", "the forwarder received the PipeResult of reply %s more than once", dup)
			}
			if int64(total) >= piped.Load() || time.Now().After(deadline) {
				break
			}
			time.Sleep(20 * time.Millisecond)
		}
		if int64(total) != piped.Load() {
			fail("C04/pipe|exactly-once|real-clock", "PipeTo was called on %d futures, the forwarder received %d PipeResult (PipeTo raced the completion on another thread)", piped.Load(), total)
		}
		_ = sys.Stop(10 * time.Second)
		vstat.Case(vstat.Hash("real", r, seed), true, []string{"real-clock"}, func() any {
			return map[string]any{"workers": workers, "asks_per_worker": perWorker, "piped": piped.Load(), "tiny_timeouts": tinyTimeouts.Load()}
		})
		vstat.Add("real_clock_asks", int64(workers*perWorker))
		if b := bad.Load(); b != nil {
			sv := b.([2]string)
			if !vstat.Fail(sv[0], sv[1], nil) {
				t.Fatalf("VERIF-FAIL sig=%s :: %s", sv[0], sv[1])
			}
		}
	}
}

// TestC04SlowForwarder: "Result/Wait never block beyond completion" when delivering the result to a forwarder is slow.
// The forwarder is a reference to another system that cannot be reached (remoting enabled, connection refused): the
// library retries the delivery with back-off on the goroutine that completes the future (seconds). A waiter of that
// future has nothing to do with the forwarder: it returns when the future completes (by its reply, its timeout or
// Close), and a PipeTo that registered before the completion does not change that.
func TestC04SlowForwarder(t *testing.T) {
	rounds := 3
	if os.Getenv("VERIF_TIER") == "thorough" {
		rounds = 12
	}
	seed, _ := strconv.ParseUint(os.Getenv("VERIF_RSEED"), 10, 64)
	for r := 0; r < rounds; r++ {
		x := seed + uint64(r)*0x9e3779b97f4a7c15
		cause := []string{"timeout", "reply", "close"}[x%3]
		tmo := []time.Duration{50 * time.Millisecond, 120 * time.Millisecond, 300 * time.Millisecond}[(x>>8)%3]
		waiters := 1 + int((x>>16)%3)
		vt.SetCase(map[string]any{"test": "TestC04SlowForwarder", "rapid_seed": os.Getenv("VERIF_RSEED"), "round": r, "cause": cause})
		l, err := net.Listen("tcp", "127.0.0.1:0")
		if err != nil {
			t.Fatal(err)
		}
		bind := l.Addr().String()
		_ = l.Close()
		l2, _ := net.Listen("tcp", "127.0.0.1:0")
		dead := l2.Addr().String() // nobody listens here once it is closed: connections are refused
		_ = l2.Close()
		sys := actor.NewSystem(vivid.WithActorSystemLogger(hlog.Nop), vivid.WithActorSystemRemoting(bind))
		if err := sys.Start(); err != nil {
			t.Fatal(err)
		}
		target, _ := sys.ActorOf(&echo{silent: cause != "reply", delay: tmo / 2})
		fwd, err := sys.CreateRef(dead, "/forwarder")
		if err != nil {
			t.Fatal(err)
		}
		askTmo := tmo
		if cause != "timeout" {
			askTmo = 30 * time.Second
		}
		f := sys.Ask(target, &req{id: int64(r) + 1}, askTmo)
		_ = f.PipeTo(vivid.ActorRefs{fwd}) // registers: the future is still pending
		t0 := time.Now()
		if cause == "close" {
			go func() { time.Sleep(tmo / 2); f.Close(errors.New("verif: closed")) }()
		}
		returned := make(chan time.Duration, waiters)
		for k := 0; k < waiters; k++ {
			go func() { _ = f.Wait(); returned <- time.Since(t0) }()
		}
		// completion is due after tmo (timeout) or tmo/2 (reply, close); the delivery to the forwarder takes seconds
		limit := tmo + 1500*time.Millisecond
		var v [2]string
		for k := 0; k < waiters && v[0] == ""; k++ {
			select {
			case d := <-returned:
				if d > limit {
					v = [2]string{"C04/blocks-beyond-completion|slow-forwarder", fmt.Sprintf("the future completed by %s after at most %v, its waiter returned after %v: it waited for the delivery of the result to an unreachable forwarder", cause, tmo, d)}
				}
			case <-time.After(limit + 500*time.Millisecond):
				v = [2]string{"C04/blocks-beyond-completion|slow-forwarder", fmt.Sprintf("the future completed by %s after at most %v; %v later its waiter is still blocked: it waits for the delivery of the result to an unreachable forwarder (which the library retries for seconds)", cause, tmo, limit+500*time.Millisecond)}
			}
		}
		_ = sys.Stop(20 * time.Second)
		vstat.Case(vstat.Hash("slowfwd", r, seed), true, []string{"slow-forwarder", "cause:" + cause}, func() any {
			return map[string]any{"cause": cause, "timeout": tmo.String(), "waiters": waiters}
		})
		if v[0] != "" {
			if !vstat.Fail(v[0], v[1], nil) {
				t.Fatalf("VERIF-FAIL sig=%s :: %s", v[0], v[1])
			}
		}
	}
}
