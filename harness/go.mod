module github.com/kercylan98/vivid/verif

go 1.26

require (
	github.com/kercylan98/vivid v0.0.0
	pgregory.net/rapid v1.3.0
)

require (
	github.com/google/uuid v1.6.0 // indirect
	github.com/reugn/go-quartz v0.15.2 // indirect
	golang.org/x/sync v0.19.0 // indirect
)

replace github.com/kercylan98/vivid => /repo
