// C07, unit "spawnstop": a top-level ActorOf, issued from a goroutine of its own (System.ActorOf is documented as safe
// from any goroutine), is parked at a drawn statement boundary of Context.ActorOf (window points inserted into a copy of
// context.go at check time, DESIGN.md 3.2) while the system is stopped (Stop with the default or a drawn timeout, or the
// context is cancelled); then the spawn is released. However the two interleave, Stop has to terminate every actor and
// return within its timeout, nothing may run afterwards and no goroutine may be left; the spawn either fails or its
// actor is launched and terminated like every other.
package c07

import (
	"encoding/json"
	"fmt"
	"strings"
	"sync"
	"testing"
	"time"

	"github.com/kercylan98/vivid"
	"github.com/kercylan98/vivid/internal/actor"
	"github.com/kercylan98/vivid/verif/internal/vstat"
	"github.com/kercylan98/vivid/verif/internal/vt"
	wld "github.com/kercylan98/vivid/verif/internal/world"
	"pgregory.net/rapid"
)

type SpawnStopCase struct {
	SS        bool   `json:"spawnstop"` // marks the case kind in replay files
	Point     int    `json:"point"`     // the n-th window point of the parked ActorOf
	Existing  int    `json:"existing"`  // top-level actors that exist before (each with Kids children)
	Kids      int    `json:"kids"`
	How       string `json:"how"` // stop | stop-timeout | cancel
	TimeoutMs int    `json:"timeoutMs,omitempty"`
	LateKids  int    `json:"lateKids"`         // children the late actor spawns in its OnLaunch
	Second    bool   `json:"second,omitempty"` // a second ActorOf after the release
	// Slow: one more top-level actor blocks in its OnKill handler until the spawn has gone on: the root is then in the
	// middle of its termination (waiting for that child) when the spawn continues
	Slow bool `json:"slow,omitempty"`
}

func (c SpawnStopCase) JSON() string { b, _ := json.Marshal(c); return string(b) }

func genSpawnStop(rt *rapid.T) SpawnStopCase {
	c := SpawnStopCase{SS: true, Point: rapid.IntRange(0, 10).Draw(rt, "point")}
	c.Existing = rapid.IntRange(0, 3).Draw(rt, "existing")
	c.Kids = rapid.IntRange(0, 2).Draw(rt, "kids")
	c.How = rapid.SampledFrom([]string{"stop", "stop-timeout", "cancel"}).Draw(rt, "how")
	if c.How == "stop-timeout" {
		c.TimeoutMs = rapid.SampledFrom([]int{1000, 50, 5000}).Draw(rt, "timeoutMs")
	}
	c.LateKids = rapid.IntRange(0, 2).Draw(rt, "lateKids")
	c.Second = rapid.Bool().Draw(rt, "second")
	c.Slow = rapid.Bool().Draw(rt, "slow")
	if c.Slow && c.How == "stop-timeout" {
		c.TimeoutMs = 5000 // the slow actor is released without virtual time passing; the timeout only has to be generous
	}
	return c
}

func runSpawnStop(t *testing.T, c SpawnStopCase) (v *verdict, nontrivial bool, labels []string) {
	lab := map[string]bool{"how:" + c.How: true}
	res := vt.Run(t, func() {
		w := wld.New(wld.Options{SysDecisions: []string{"restart"}, SysStrategy: "one"})
		defer w.Close()
		for i := 0; i < c.Existing; i++ {
			name := fmt.Sprintf("e%d", i)
			_, _ = w.Spawn(wld.Spec{Name: name})
			for k := 0; k < c.Kids; k++ {
				w.Tell(name, "", 0, []wld.Step{{Op: "spawn", Spec: &wld.Spec{Name: fmt.Sprintf("k%d", k)}}})
			}
		}
		if c.Slow {
			_, _ = w.Spawn(wld.Spec{Name: "slow", GateKill: "slow-terminator"})
			lab["root-terminating-when-the-spawn-goes-on"] = true
		}
		vt.Settle()
		// ---- park the late spawn
		var mu sync.Mutex
		armed, reached, site := true, 0, ""
		parked, release := make(chan struct{}), make(chan struct{})
		actor.VerifWindowHook = func(s string, path string) {
			if path != "/" || !strings.HasPrefix(s, "ActorOf:") {
				return
			}
			mu.Lock()
			if !armed {
				mu.Unlock()
				return
			}
			k := reached
			reached++
			hit := k == c.Point
			if hit {
				armed, site = false, s
			}
			mu.Unlock()
			if hit {
				close(parked)
				<-release
			}
		}
		defer func() { actor.VerifWindowHook = nil }()
		late := wld.Spec{Name: "late"}
		for k := 0; k < c.LateKids; k++ {
			late.OnLaunch = append(late.OnLaunch, wld.Step{Op: "spawn", Spec: &wld.Spec{Name: fmt.Sprintf("lk%d", k)}})
		}
		type spawnRet struct {
			ref vivid.ActorRef
			err error
		}
		spawned := make(chan spawnRet, 1)
		go func() { ref, err := w.Spawn(late); spawned <- spawnRet{ref, err} }()
		vt.Settle()
		isParked := false
		select {
		case <-parked:
			isParked = true
		default:
		}
		mu.Lock()
		armed = false
		n := reached
		mu.Unlock()
		if !isParked {
			lab["point-not-reached"] = true
			lab[fmt.Sprintf("points=%d", n)] = true
			close(release)
			return
		}
		nontrivial = true
		lab["parked-at:"+site] = true
		// ---- stop the system while the spawn stands there
		type ret struct {
			err   error
			after time.Duration
		}
		done := make(chan ret, 1)
		t0 := time.Now()
		limit := time.Minute
		switch c.How {
		case "stop":
			go func() { err := w.StopDefault(); done <- ret{err, time.Since(t0)} }()
		case "stop-timeout":
			limit = time.Duration(c.TimeoutMs) * time.Millisecond
			go func() { err := w.Stop(limit); done <- ret{err, time.Since(t0)} }()
		case "cancel":
			w.Cancel()
		}
		vt.Settle()
		stoppedBeforeRelease := false
		var r ret
		select {
		case r = <-done:
			stoppedBeforeRelease = true
			lab["stop-returned-before-the-spawn-went-on"] = true
		default:
		}
		close(release)
		vt.Settle()
		if c.Slow {
			w.Open("slow-terminator")
			vt.Settle()
		}
		var sp spawnRet
		select {
		case sp = <-spawned:
		default:
			v = &verdict{"C07/no-hang|actorof", fmt.Sprintf("the ActorOf that stood at %s while the system was stopped has not returned although the bubble is quiescent; case %s", site, c.JSON())}
			return
		}
		if sp.err == nil {
			lab["late-spawn-succeeded"] = true
		} else {
			lab["late-spawn-refused"] = true
		}
		if c.Second {
			_, err2 := w.Spawn(wld.Spec{Name: "second"})
			vt.Settle()
			if err2 == nil {
				lab["second-spawn-succeeded"] = true
			}
		}
		vt.Advance(limit + 2*time.Second)
		if c.How != "cancel" {
			if !stoppedBeforeRelease {
				select {
				case r = <-done:
				default:
					v = &verdict{"C07/no-hang|stop", fmt.Sprintf("Stop has not returned %v (virtual) after the call although the bubble is quiescent (a top-level ActorOf stood at %s when Stop was called); actors still registered: %s; case %s", time.Since(t0), site, fmtActors(w), c.JSON())}
					return
				}
			}
			if r.after > limit+time.Millisecond {
				v = &verdict{"C07/stop-within-timeout", fmt.Sprintf("Stop returned after %v of virtual time, its timeout is %v; case %s", r.after, limit, c.JSON())}
				return
			}
			if r.err != nil {
				v = &verdict{"C07/stop-terminates|stop-failed", fmt.Sprintf("no handler blocks in this tree, yet Stop returned %v after %v (virtual) - a top-level ActorOf stood at %s when Stop was called (it returned err=%v); actors still registered: %s; case %s", r.err, r.after, site, sp.err, fmtActors(w), c.JSON())}
				return
			}
		}
		if left := w.Sys.VerifActors(); len(left) > 0 {
			v = &verdict{"C07/stop-terminates|actor-survives", fmt.Sprintf("after %s (and %v of virtual time) these actors are still registered: %s - a top-level ActorOf stood at %s when the system was stopped (it returned err=%v); case %s", c.How, time.Since(t0), fmtActors(w), site, sp.err, c.JSON())}
			return
		}
		// the late actor: refused, or launched and terminated like any other
		tr, _ := w.Snapshot()
		launched, ownKilled := 0, 0
		for _, e := range tr {
			if sp.ref != nil && e.Actor == sp.ref.GetPath() {
				if e.Kind == "launch" {
					launched++
				}
				if e.Kind == "killed:"+e.Actor {
					ownKilled++
				}
			}
		}
		if sp.err == nil && launched > 0 && ownKilled == 0 {
			v = &verdict{"C07/stop-terminates|actor-survives", fmt.Sprintf("the actor spawned while the system was being stopped (ActorOf stood at %s) was launched but never terminated; case %s", site, c.JSON())}
			return
		}
		tr0, _ := w.Snapshot()
		vt.Advance(5 * time.Minute)
		tr1, _ := w.Snapshot()
		if len(tr1) > len(tr0) {
			v = &verdict{"C07/stop-terminates|runs-after-stop", fmt.Sprintf("user code ran after the system had stopped: %v; case %s", tr1[len(tr0):], c.JSON())}
			return
		}
		if err := w.Sys.Stop(time.Second); errCode(err) != "AlreadyStopped" {
			v = &verdict{"C07/one-way|stop-after-stop", fmt.Sprintf("Stop on the stopped system returned %v", err)}
			return
		}
		w.Cancel()
		vt.Settle()
		if n, st := bubbleGoroutines(); n > 1 {
			v = &verdict{"C07/no-goroutine-left", fmt.Sprintf("%d goroutines remain after %s with a racing top-level spawn, every actor gone and 5 virtual minutes later:\n%s", n-1, c.How, st)}
			return
		}
	})
	if v == nil && res.Deadlock {
		v = &verdict{"C07/no-hang|bubble-deadlock", fmt.Sprintf("the bubble deadlocked: %v; case %s", res.Panic, c.JSON())}
	}
	if v == nil && res.Panic != nil {
		v = &verdict{"C07/harness-panic", fmt.Sprintf("%v\n%s", res.Panic, res.Stack)}
	}
	for k := range lab {
		labels = append(labels, k)
	}
	return
}

func checkSpawnStop(t *testing.T, fatalf func(string, ...any), c SpawnStopCase) {
	vt.SetCase(c)
	v, nt, labels := runSpawnStop(t, c)
	vstat.Case(vstat.Hash(c.JSON()), nt, labels, func() any { return c })
	if v != nil {
		if vstat.Fail(v.sig, v.detail, c) {
			return
		}
		fatalf("VERIF-FAIL sig=%s :: %s", v.sig, v.detail)
	}
}

func TestC07SpawnVsStop(t *testing.T) {
	rapid.Check(t, func(rt *rapid.T) { checkSpawnStop(t, rt.Fatalf, genSpawnStop(rt)) })
}
