// C07, second unit: "Stop terminates every actor, returns within its timeout ... on systems with
// any actor tree". The state-machine unit uses well-behaved actors; here the tree is drawn from the
// scenario engine of C03-C10: own supervision strategies with every decision, failing OnLaunch
// incarnations, failing restart hooks (zombies), handlers that panic on OnKill, on a child's
// OnKilled or on their own OnKilled, and a short script of failures / kills / spawns running
// right before (settled or racing) the Stop or the context cancel.
package c07

import (
	"encoding/json"
	"fmt"
	"strings"
	"testing"
	"time"

	"github.com/kercylan98/vivid/verif/internal/vstat"
	"github.com/kercylan98/vivid/verif/internal/vt"
	wld "github.com/kercylan98/vivid/verif/internal/world"
	"pgregory.net/rapid"
)

type TreeCase struct {
	Scenario  wld.Scenario `json:"scenario"`
	How       string       `json:"how"` // stop | stop-timeout | cancel
	TimeoutMs int          `json:"timeoutMs,omitempty"`
	// Slow lists actors whose OnKill handler blocks on a gate (an actor that needs a while to shut down);
	// the gates are opened in this order, one settled step at a time, after the Stop / cancel was issued
	Slow []string `json:"slow,omitempty"`
	// LateOpen: the slow actors only finish after the Stop has timed out
	LateOpen bool `json:"lateOpen,omitempty"`
}

func (c TreeCase) JSON() string { b, _ := json.Marshal(c); return string(b) }

var treeCfg = wld.GenCfg{MaxActors: 7, MaxDepth: 4, Failures: true, Hooks: true, Kills: true, Spawns: true, Provenance: true, MaxOps: 5, Watch: true, LifecycleFail: true}

func genTreeCase(rt *rapid.T) TreeCase {
	c := TreeCase{Scenario: wld.GenScenario(rt, treeCfg)}
	c.Scenario.Racing = rapid.Bool().Draw(rt, "racing")
	for i := range c.Scenario.Tree {
		if rapid.IntRange(0, 5).Draw(rt, "lateSpawn") == 0 {
			c.Scenario.Tree[i].Spec.LateSpawn = rapid.IntRange(1, 2).Draw(rt, "lateSpawns")
		}
	}
	c.How = rapid.SampledFrom([]string{"stop", "stop", "stop-timeout", "cancel"}).Draw(rt, "how")
	if c.How == "stop-timeout" {
		c.TimeoutMs = rapid.SampledFrom([]int{50, 1000, 30000}).Draw(rt, "timeout")
	}
	if k := rapid.IntRange(0, 3).Draw(rt, "slow"); k > 0 {
		var idx []int
		for i := range c.Scenario.Tree {
			idx = append(idx, i)
		}
		perm := rapid.Permutation(idx).Draw(rt, "slowOrder")
		if k > len(perm) {
			k = len(perm)
		}
		for _, i := range perm[:k] {
			g := "slow-" + c.Scenario.Tree[i].Spec.Name
			c.Scenario.Tree[i].Spec.GateKill = g
			c.Slow = append(c.Slow, g)
		}
		c.LateOpen = c.How == "stop-timeout" && c.TimeoutMs <= 1000 && rapid.Bool().Draw(rt, "lateOpen")
	}
	return c
}

func runTree(t *testing.T, c TreeCase) (v *verdict, nontrivial bool, labels []string) {
	lab := map[string]bool{"how:" + c.How: true}
	res := vt.Run(t, func() {
		w := wld.Build(c.Scenario)
		defer w.Close()
		for _, st := range c.Scenario.Script {
			w.Exec(st)
			if !c.Scenario.Racing {
				vt.Settle()
			}
		}
		before := w.Sys.VerifActors()
		for _, a := range before {
			if a.Zombie {
				lab["zombie-at-stop"] = true
			}
			if a.Paused {
				lab["paused-actor-at-stop"] = true
			}
		}
		type ret struct {
			err   error
			after time.Duration
		}
		done := make(chan ret, 1)
		t0 := time.Now()
		limit := time.Minute // the library's default stop timeout
		switch c.How {
		case "stop":
			go func() { err := w.StopDefault(); done <- ret{err, time.Since(t0)} }()
		case "stop-timeout":
			limit = time.Duration(c.TimeoutMs) * time.Millisecond
			go func() { err := w.Stop(limit); done <- ret{err, time.Since(t0)} }()
		case "cancel":
			w.Cancel()
		}
		vt.Settle()
		if c.LateOpen {
			// the Stop times out on the slow actors; they finish later
			vt.Advance(limit + time.Second)
			select {
			case r := <-done:
				// the slow actors may be gone already (killed or stopped by the script): then Stop succeeds at once
				okNil := r.err == nil && r.after <= limit
				okFailed := errCode(r.err) == "StopFailed" && r.after == limit
				if !okNil && !okFailed {
					v = &verdict{"C07/stop-within-timeout|slow-actor", fmt.Sprintf("actors %v block in OnKill; Stop(%v) returned %v after %v (expected nil within the timeout or the stop-failed error exactly at it)", c.Slow, limit, r.err, r.after)}
					return
				}
				if okFailed {
					lab["stop-timed-out-on-slow-actor"] = true
				}
			default:
				v = &verdict{"C07/no-hang|stop", fmt.Sprintf("Stop(%v) has not returned %v (virtual) after the call", limit, time.Since(t0))}
				return
			}
		}
		// the slow actors finish their OnKill handlers one after the other (no virtual time passes)
		for _, g := range c.Slow {
			w.Open(g)
			vt.Settle()
		}
		vt.Advance(limit + 2*time.Second)
		if c.How != "cancel" && !c.LateOpen {
			select {
			case r := <-done:
				if r.after > limit+time.Millisecond {
					v = &verdict{"C07/stop-within-timeout", fmt.Sprintf("Stop returned after %v of virtual time, its timeout is %v", r.after, limit)}
					return
				}
				if r.err != nil {
					v = &verdict{"C07/stop-terminates|stop-failed", fmt.Sprintf("no handler blocks in this tree, yet Stop returned %v after %v (virtual); actors still registered: %s", r.err, r.after, fmtActors(w))}
					return
				}
			default:
				v = &verdict{"C07/no-hang|stop", fmt.Sprintf("Stop has not returned %v (virtual) after the call although the bubble is quiescent; actors still registered: %s", time.Since(t0), fmtActors(w))}
				return
			}
		}
		// every actor is gone
		if left := w.Sys.VerifActors(); len(left) > 0 {
			v = &verdict{"C07/stop-terminates|actor-survives", fmt.Sprintf("after %s (and %v of virtual time) these actors are still registered: %s", c.How, time.Since(t0), fmtActors(w))}
			return
		}
		// ... and stays gone: nothing runs behaviour code later
		tr0, _ := w.Snapshot()
		vt.Advance(5 * time.Minute)
		tr1, _ := w.Snapshot()
		if len(tr1) > len(tr0) {
			v = &verdict{"C07/stop-terminates|runs-after-stop", fmt.Sprintf("user code ran after the system had stopped: %v", tr1[len(tr0):])}
			return
		}
		// a further Stop answers at once
		if err := w.Sys.Stop(time.Second); errCode(err) != "AlreadyStopped" {
			v = &verdict{"C07/one-way|stop-after-stop", fmt.Sprintf("Stop on the stopped system returned %v", err)}
			return
		}
		// nothing of the system is left (waiters of the script's own asks have returned by now)
		w.Cancel()
		vt.Settle()
		if n, st := bubbleGoroutines(); n > 1 {
			v = &verdict{"C07/no-goroutine-left", fmt.Sprintf("%d goroutines remain after %s, every actor gone and 5 virtual minutes later:\n%s", n-1, c.How, st)}
			return
		}
	})
	if v == nil && res.Deadlock {
		v = &verdict{"C07/no-hang|bubble-deadlock", fmt.Sprintf("the bubble deadlocked: %v", res.Panic)}
	}
	if v == nil && res.Panic != nil {
		v = &verdict{"C07/harness-panic", fmt.Sprintf("%v\n%s", res.Panic, res.Stack)}
	}
	for _, n := range c.Scenario.Tree {
		sp := n.Spec
		if sp.FailOnKill || sp.FailOnChildKilled > 0 || sp.FailOnOwnKilled {
			lab["fails-during-termination"] = true
			nontrivial = true
		}
		if len(sp.Decisions) > 0 {
			lab["own-strategy"] = true
		}
		if n.Parent != "" {
			nontrivial = true
		}
	}
	if c.Scenario.Racing {
		lab["script-racing-the-stop"] = true
	}
	if len(c.Slow) > 0 {
		lab["slow-terminating-actors"] = true
	}
	for k := range lab {
		labels = append(labels, k)
	}
	return
}

func fmtActors(w *wld.World) string {
	var p []string
	for _, a := range w.Sys.VerifActors() {
		p = append(p, fmt.Sprintf("%s(state %d, paused %v, zombie %v, children %d)", a.Path, a.State, a.Paused, a.Zombie, a.Children))
	}
	return "[" + strings.Join(p, " ") + "]"
}

func checkTree(t *testing.T, fatalf func(string, ...any), c TreeCase) {
	vt.SetCase(c)
	v, nt, labels := runTree(t, c)
	vstat.Case(vstat.Hash(c.JSON()), nt, labels, func() any { return c })
	if v != nil {
		if vstat.Fail(v.sig, v.detail, c) {
			return
		}
		fatalf("VERIF-FAIL sig=%s :: %s :: %s", v.sig, v.detail, c.Scenario.Describe())
	}
}

func TestC07StopAnyTree(t *testing.T) {
	rapid.Check(t, func(rt *rapid.T) { checkTree(t, rt.Fatalf, genTreeCase(rt)) })
}
