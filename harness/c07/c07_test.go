// C07 — System Start/Stop is a clean one-way state machine that never hangs.
//
// Domain: generated sequences of groups of {Start, Stop(timeout), cancel the
// creating context}; a group is issued concurrently (one goroutine per call),
// groups follow each other after quiescence; the system carries a generated
// actor tree, optionally with one actor whose OnKill handler is gated so that
// Stop has to time out.
//
// Oracle: reference state machine ready -> started -> stopped. A concurrent
// group is accepted iff its results are those of *some* serial order of its
// calls (plus the context-cancel auto-stop as an internal event). Every call
// must have returned once the bubble is quiescent after the virtual clock
// advanced past its timeout; a Stop that times out returns exactly at its
// timeout; everything else returns without any virtual time passing. After a
// clean stop every spawned actor saw its own OnKilled and the bubble holds no
// goroutine besides the test's own.
package c07

import (
	"context"
	"encoding/json"
	"errors"
	"fmt"
	"os"
	"sort"
	"strings"
	"sync"
	"testing"
	"time"

	"github.com/kercylan98/vivid"
	"github.com/kercylan98/vivid/internal/actor"
	"github.com/kercylan98/vivid/verif/internal/hlog"
	"github.com/kercylan98/vivid/verif/internal/vstat"
	"github.com/kercylan98/vivid/verif/internal/vt"
	"pgregory.net/rapid"
)

func TestMain(m *testing.M) {
	vt.StartWatchdog(20 * time.Second)
	vstat.Main(m.Run)
}

type Call struct {
	Kind      string `json:"k"` // start | stop | cancel
	TimeoutMs int    `json:"ms,omitempty"`
}

type Case struct {
	Parents  []int    `json:"parents"` // parent index of actor i (-1 = top level)
	Gate     int      `json:"gate"`    // actor whose OnKill blocks, -1 none
	OpenGate int      `json:"open"`    // gate is opened after this group index (len(Groups) = only at the very end)
	Groups   [][]Call `json:"groups"`
}

const sysStopTimeout = 30 * time.Second

func genCase(rt *rapid.T) Case {
	var c Case
	n := rapid.IntRange(0, 5).Draw(rt, "nActors")
	for i := 0; i < n; i++ {
		c.Parents = append(c.Parents, rapid.IntRange(-1, i-1).Draw(rt, "parent"))
	}
	c.Gate = -1
	if n > 0 && rapid.IntRange(0, 3).Draw(rt, "gated") == 0 {
		c.Gate = rapid.IntRange(0, n-1).Draw(rt, "gate")
	}
	ng := rapid.IntRange(1, 5).Draw(rt, "nGroups")
	for g := 0; g < ng; g++ {
		sz := rapid.SampledFrom([]int{1, 1, 1, 2, 2, 3}).Draw(rt, "groupSize")
		var grp []Call
		for i := 0; i < sz; i++ {
			k := rapid.SampledFrom([]string{"start", "stop", "stop", "cancel"}).Draw(rt, "kind")
			cl := Call{Kind: k}
			if k == "stop" {
				cl.TimeoutMs = rapid.SampledFrom([]int{-1, 0, 1, 1000, 5000}).Draw(rt, "timeout") // -1 = no argument
			}
			grp = append(grp, cl)
		}
		c.Groups = append(c.Groups, grp)
	}
	c.OpenGate = rapid.IntRange(0, ng).Draw(rt, "openGate")
	return c
}

// ---------------------------------------------------------------------------
// probe actor

type world struct {
	mu      sync.Mutex
	killed  map[string]int
	spawned []string
	gate    chan struct{}
	gated   string
}

type spawnReq struct {
	idx  int
	done chan vivid.ActorRef
}

type probe struct {
	w    *world
	name string
}

func (p *probe) OnReceive(ctx vivid.ActorContext) {
	switch m := ctx.Message().(type) {
	case *spawnReq:
		name := fmt.Sprintf("a%d", m.idx)
		ref, err := ctx.ActorOf(&probe{w: p.w, name: name}, vivid.WithActorName(name))
		if err != nil {
			m.done <- nil
			return
		}
		m.done <- ref
	case *vivid.OnKill:
		if p.w.gated == p.name {
			<-p.w.gate
		}
	case *vivid.OnKilled:
		if m.Ref.Equals(ctx.Ref()) {
			p.w.mu.Lock()
			p.w.killed[p.name]++
			p.w.mu.Unlock()
		}
	}
}

// ---------------------------------------------------------------------------
// model

type mstate struct {
	st        int // 0 ready, 1 started, 2 stopped
	cancelled bool
	clean     bool // every stop so far happened with the gate open
}

type outcome struct {
	code  string        // "", AlreadyStarted, AlreadyStopped, NotStarted, StopFailed, "nil|StopFailed"
	after time.Duration // virtual time the call takes
}

func errCode(err error) string {
	switch {
	case err == nil:
		return ""
	case errors.Is(err, vivid.ErrorActorSystemAlreadyStarted):
		return "AlreadyStarted"
	case errors.Is(err, vivid.ErrorActorSystemAlreadyStopped):
		return "AlreadyStopped"
	case errors.Is(err, vivid.ErrorActorSystemNotStarted):
		return "NotStarted"
	case errors.Is(err, vivid.ErrorActorSystemStopFailed):
		return "StopFailed"
	case errors.Is(err, vivid.ErrorActorSystemStartFailed):
		return "StartFailed"
	}
	return "other:" + err.Error()
}

func stopTimeout(c Call) time.Duration {
	if c.TimeoutMs < 0 {
		return sysStopTimeout
	}
	return time.Duration(c.TimeoutMs) * time.Millisecond
}

// apply one call (or the internal auto-stop, kind "auto") to the model
func (m *mstate) apply(c Call, gateClosed bool) (outcome, bool) {
	switch c.Kind {
	case "start":
		switch m.st {
		case 0:
			m.st = 1
			return outcome{}, true
		case 1:
			return outcome{code: "AlreadyStarted"}, true
		default:
			return outcome{code: "AlreadyStopped"}, true
		}
	case "stop":
		switch m.st {
		case 0:
			return outcome{code: "NotStarted"}, true
		case 1:
			m.st = 2
			if gateClosed {
				m.clean = false
				return outcome{code: "StopFailed", after: stopTimeout(c)}, true
			}
			if stopTimeout(c) == 0 {
				// a zero timeout races the (instantaneous) termination: either result is correct
				m.clean = false
				return outcome{code: "nil|StopFailed"}, true
			}
			return outcome{}, true
		default:
			return outcome{code: "AlreadyStopped"}, true
		}
	case "cancel":
		m.cancelled = true
		return outcome{}, true
	case "auto":
		if m.st == 1 && m.cancelled {
			m.st = 2
			if gateClosed {
				m.clean = false
			}
			return outcome{}, true
		}
		return outcome{}, false
	}
	panic("bad call")
}

type obs struct {
	returned bool
	code     string
	after    time.Duration
}

func matches(o obs, exp outcome) bool {
	if !o.returned {
		return false
	}
	if exp.code == "nil|StopFailed" {
		return (o.code == "" || o.code == "StopFailed") && o.after == 0
	}
	return o.code == exp.code && o.after == exp.after
}

// explain: find a serial order of the group (with the auto-stop placed
// anywhere) whose results equal the observations; returns the resulting model
// states reachable that way.
func explain(m mstate, grp []Call, got []obs, gateClosed bool) (next []mstate, expected []string) {
	items := make([]int, 0, len(grp)+1)
	for i := range grp {
		items = append(items, i)
	}
	items = append(items, -1) // auto-stop
	seen := map[mstate]bool{}
	var rec func(cur mstate, left []int, ok bool, exp []outcome)
	rec = func(cur mstate, left []int, ok bool, exp []outcome) {
		if len(left) == 0 {
			// at quiescence a cancelled, started system has stopped itself
			if cur.st == 1 && cur.cancelled {
				cur.apply(Call{Kind: "auto"}, gateClosed)
			}
			var parts []string
			for i := range grp {
				parts = append(parts, fmt.Sprintf("%s->%q@+%v", grp[i].Kind, exp[i].code, exp[i].after))
			}
			expected = append(expected, strings.Join(parts, " "))
			if ok && !seen[cur] {
				seen[cur] = true
				next = append(next, cur)
			}
			return
		}
		for k, it := range left {
			rest := append(append([]int{}, left[:k]...), left[k+1:]...)
			c2 := cur
			if it == -1 {
				if _, en := c2.apply(Call{Kind: "auto"}, gateClosed); !en {
					// not enabled here: it is a no-op placed at this position
					c2 = cur
				}
				rec(c2, rest, ok, exp)
				continue
			}
			o, _ := c2.apply(grp[it], gateClosed)
			e2 := append([]outcome{}, exp...)
			e2[it] = o
			rec(c2, rest, ok && (grp[it].Kind == "cancel" || matches(got[it], o)), e2)
		}
	}
	rec(m, items, true, make([]outcome, len(grp)))
	sort.Strings(expected)
	return
}

// ---------------------------------------------------------------------------

type verdict struct {
	sig, detail string
}

func bubbleGoroutines() (int, string) {
	s := vt.AllStacks()
	n := 0
	var others []string
	for _, blk := range strings.Split(s, "\n\n") {
		hdr, _, _ := strings.Cut(blk, "\n")
		if strings.Contains(hdr, "synctest bubble") {
			// the bubble's own plumbing: the caller of synctest.Run, the
			// testing wrapper and this (root) goroutine
			if strings.Contains(blk, "c07.bubbleGoroutines") || strings.Contains(blk, "internal/synctest.Run(") || strings.Contains(blk, "testing/synctest.testingSynctestTest(") {
				continue
			}
			n++
			others = append(others, blk)
		}
	}
	return n + 1, strings.Join(others, "\n\n")
}

func runCase(t *testing.T, c Case) (v *verdict, nontrivial bool, labels []string) {
	lab := map[string]bool{}
	res := vt.Run(t, func() {
		userCtx, cancel := context.WithCancel(context.Background())
		w := &world{killed: map[string]int{}, gate: make(chan struct{})}
		if c.Gate >= 0 {
			w.gated = fmt.Sprintf("a%d", c.Gate)
		}
		gateOpen := c.Gate < 0
		openGate := func() {
			if !gateOpen {
				gateOpen = true
				close(w.gate)
				vt.Settle()
			}
		}
		defer func() {
			// leave the bubble clean whatever happened
			cancel()
			if !gateOpen {
				close(w.gate)
			}
			vt.Advance(2 * sysStopTimeout)
		}()
		sys := actor.NewSystem(
			vivid.WithActorSystemContext(userCtx),
			vivid.WithActorSystemLogger(hlog.Nop),
			vivid.WithActorSystemStopTimeout(sysStopTimeout),
		)
		states := []mstate{{clean: true}}
		spawnedTree := false
		afterStop := false
		calls := 0

		for gi, grp := range c.Groups {
			got := make([]obs, len(grp))
			var mu sync.Mutex
			t0 := time.Now()
			maxT := time.Duration(0)
			for i, cl := range grp {
				calls++
				if stopTimeout(cl) > maxT && cl.Kind == "stop" {
					maxT = stopTimeout(cl)
				}
				go func(i int, cl Call) {
					var err error
					switch cl.Kind {
					case "start":
						err = sys.Start()
					case "stop":
						if cl.TimeoutMs < 0 {
							err = sys.Stop()
						} else {
							err = sys.Stop(time.Duration(cl.TimeoutMs) * time.Millisecond)
						}
					case "cancel":
						cancel()
					}
					mu.Lock()
					got[i] = obs{returned: true, code: errCode(err), after: time.Since(t0)}
					mu.Unlock()
				}(i, cl)
			}
			if len(grp) > 1 {
				nontrivial = true
				lab["concurrent-group"] = true
			}
			vt.Settle()
			// let every timeout of this group (and a pending auto-stop) expire
			vt.Advance(maxT + sysStopTimeout + time.Second)

			mu.Lock()
			snapshot := append([]obs{}, got...)
			mu.Unlock()
			for i, o := range snapshot {
				if !o.returned {
					v = &verdict{"C07/no-hang|" + grp[i].Kind, fmt.Sprintf("group %d call %d (%+v) has not returned although the bubble is quiescent %v after it was issued", gi, i, grp[i], time.Since(t0))}
					return
				}
			}
			gateClosed := spawnedTree && !gateOpen // the gate only exists once its actor does
			var next []mstate
			var expAll []string
			for _, st := range states {
				n, e := explain(st, grp, snapshot, gateClosed)
				next = append(next, n...)
				expAll = append(expAll, e...)
			}
			if len(next) == 0 {
				var gs []string
				for i, o := range snapshot {
					gs = append(gs, fmt.Sprintf("%s->%q@+%v", grp[i].Kind, o.code, o.after))
				}
				kinds := map[string]bool{}
				for _, cl := range grp {
					kinds[cl.Kind] = true
				}
				var ks []string
				for k := range kinds {
					ks = append(ks, k)
				}
				sort.Strings(ks)
				v = &verdict{"C07/state-machine|" + strings.Join(ks, "+"), fmt.Sprintf("group %d: observed [%s]; no serial order of the reference state machine gives that; orders give: %s", gi, strings.Join(gs, " "), strings.Join(dedup(expAll), " || "))}
				return
			}
			states = dedupStates(next)
			if afterStop {
				nontrivial = nontrivial || calls >= 2
				lab["call-after-stop"] = true
			}
			for _, st := range states {
				if st.st == 2 {
					afterStop = true
				}
			}
			for _, cl := range grp {
				lab["op:"+cl.Kind] = true
			}

			// spawn the tree once the system is (unambiguously) running
			if !spawnedTree && len(states) == 1 && states[0].st == 1 && !states[0].cancelled {
				spawnedTree = true
				refs := make([]vivid.ActorRef, len(c.Parents))
				for i, p := range c.Parents {
					name := fmt.Sprintf("a%d", i)
					if p < 0 {
						r, err := sys.ActorOf(&probe{w: w, name: name}, vivid.WithActorName(name))
						if err != nil {
							panic(fmt.Sprintf("harness: ActorOf: %v", err))
						}
						refs[i] = r
					} else {
						req := &spawnReq{idx: i, done: make(chan vivid.ActorRef, 1)}
						sys.Tell(refs[p], req)
						refs[i] = <-req.done
						if refs[i] == nil {
							panic("harness: child spawn failed")
						}
					}
					w.spawned = append(w.spawned, name)
				}
				vt.Settle()
				if len(c.Parents) > 0 {
					lab["with-tree"] = true
				}
				if c.Gate >= 0 {
					lab["with-gate"] = true
				}
			}
			if gi == c.OpenGate {
				openGate()
				vt.Advance(sysStopTimeout + time.Second)
			}
		}

		// final: terminal-state checks
		if len(states) == 1 && states[0].st == 2 {
			lab["ended-stopped"] = true
			if states[0].clean || gateOpen {
				openGate()
				vt.Advance(2 * sysStopTimeout)
				w.mu.Lock()
				var missing []string
				for _, n := range w.spawned {
					if w.killed[n] != 1 {
						missing = append(missing, fmt.Sprintf("%s:%d", n, w.killed[n]))
					}
				}
				w.mu.Unlock()
				if len(missing) > 0 {
					v = &verdict{"C07/all-terminated", fmt.Sprintf("system stopped but actors did not see exactly one own OnKilled: %v", missing)}
					return
				}
			}
			// after a clean stop - and after a stop that timed out on a slow actor, once that actor has
			// finished - nothing of the system is left
			openGate()
			vt.Advance(2 * sysStopTimeout)
			lab["leak-checked"] = true
			if !states[0].clean {
				lab["leak-checked-after-timed-out-stop"] = true
			}
			if n, st := bubbleGoroutines(); n > 1 {
				how := "a clean stop"
				if !states[0].clean {
					how = "a stop that timed out on a slow actor, after that actor has finished"
				}
				v = &verdict{"C07/no-goroutine-left", fmt.Sprintf("%d goroutines of the system remain after %s:\n%s", n-1, how, st)}
				return
			}
		}
	})
	if v == nil && res.Panic != nil {
		if res.Deadlock {
			v = &verdict{"C07/no-goroutine-left|deadlock", fmt.Sprintf("bubble could not end: %v\n%s", res.Panic, res.Stack)}
		} else {
			v = &verdict{"C07/panic", fmt.Sprintf("%v\n%s", res.Panic, res.Stack)}
		}
	}
	for l := range lab {
		labels = append(labels, l)
	}
	sort.Strings(labels)
	return
}

func dedup(s []string) []string {
	m := map[string]bool{}
	var out []string
	for _, x := range s {
		if !m[x] {
			m[x] = true
			out = append(out, x)
		}
	}
	return out
}

func dedupStates(s []mstate) []mstate {
	m := map[mstate]bool{}
	var out []mstate
	for _, x := range s {
		if !m[x] {
			m[x] = true
			out = append(out, x)
		}
	}
	return out
}

func check(t *testing.T, fatalf func(string, ...any), c Case) {
	vt.SetCase(c)
	v, nt, labels := runCase(t, c)
	js, _ := json.Marshal(c)
	vstat.Case(vstat.HashBytes(js), nt, labels, func() any { return c })
	if v != nil {
		if vstat.Fail(v.sig, v.detail, c) {
			return
		}
		fatalf("VERIF-FAIL sig=%s :: %s\ncase=%s", v.sig, v.detail, js)
	}
}

func TestC07StateMachine(t *testing.T) {
	rapid.Check(t, func(rt *rapid.T) {
		c := genCase(rt)
		check(t, rt.Fatalf, c)
	})
}

// TestReplay re-executes one persisted case ($VERIF_REPLAY_CASE).
func TestReplay(t *testing.T) {
	p := os.Getenv("VERIF_REPLAY_CASE")
	if p == "" {
		t.Skip("no VERIF_REPLAY_CASE")
	}
	b, err := os.ReadFile(p)
	if err != nil {
		t.Fatal(err)
	}
	// a case of the spawn-versus-stop unit
	if strings.Contains(string(b), "\"spawnstop\":true") {
		var sc SpawnStopCase
		var shr struct {
			Case SpawnStopCase `json:"case"`
		}
		if json.Unmarshal(b, &shr) == nil && shr.Case.SS {
			sc = shr.Case
		} else if err := json.Unmarshal(b, &sc); err != nil {
			t.Fatal(err)
		}
		checkSpawnStop(t, t.Fatalf, sc)
		return
	}
	// a case of the remoting unit
	var nc NetCase
	var nhr struct {
		Case NetCase `json:"case"`
	}
	if json.Unmarshal(b, &nc) == nil && nc.How != "" && len(nc.Peers)+1 > 0 && !strings.Contains(string(b), "\"scenario\"") && !strings.Contains(string(b), "\"groups\"") {
		checkNet(t.Fatalf, nc)
		return
	}
	if json.Unmarshal(b, &nhr) == nil && nhr.Case.How != "" && !strings.Contains(string(b), "\"scenario\"") && !strings.Contains(string(b), "\"groups\"") {
		checkNet(t.Fatalf, nhr.Case)
		return
	}
	// a case of the tree unit
	var tc TreeCase
	var thr struct {
		Case TreeCase `json:"case"`
	}
	if json.Unmarshal(b, &tc) == nil && len(tc.Scenario.Tree) > 0 {
		checkTree(t, t.Fatalf, tc)
		return
	}
	if json.Unmarshal(b, &thr) == nil && len(thr.Case.Scenario.Tree) > 0 {
		checkTree(t, t.Fatalf, thr.Case)
		return
	}
	var c Case
	if err := json.Unmarshal(b, &c); err != nil {
		// hang reports wrap the case
		var hr struct {
			Case Case `json:"case"`
		}
		if err2 := json.Unmarshal(b, &hr); err2 != nil {
			t.Fatal(err)
		}
		c = hr.Case
	}
	if len(c.Groups) == 0 {
		var hr struct {
			Case Case `json:"case"`
		}
		_ = json.Unmarshal(b, &hr)
		c = hr.Case
	}
	check(t, t.Fatalf, c)
}

// Regression tier: fixed histories that were found by the generator.
func TestC07Regressions(t *testing.T) {
	cases := []Case{
		{Gate: -1, OpenGate: 1, Groups: [][]Call{{{Kind: "start"}}, {{Kind: "stop", TimeoutMs: -1}}, {{Kind: "stop", TimeoutMs: -1}}}},
		{Gate: -1, OpenGate: 1, Groups: [][]Call{{{Kind: "start"}}, {{Kind: "cancel"}}, {{Kind: "stop", TimeoutMs: 1000}}, {{Kind: "start"}}}},
		{Parents: []int{-1, 0, 0}, Gate: -1, OpenGate: 0, Groups: [][]Call{{{Kind: "start"}}, {{Kind: "stop", TimeoutMs: 1000}, {Kind: "stop", TimeoutMs: 1000}}}},
	}
	for _, c := range cases {
		check(t, t.Fatalf, c)
	}
}
