// C07, third unit: "... on systems with any actor tree, with or without remoting". A system with
// remoting (real sockets, real clock) has 0-3 connections of generated kinds when Stop / the
// cancellation of its context arrives:
//
//	real             another vivid system that answers
//	out-silent       the system dialled a peer that completed the handshake and then went silent
//	                 (keeps the TCP connection open, reads nothing it is asked, answers nothing)
//	in-silent        such a peer connected to the system
//	out-closed       the dialled peer closed the connection right after the handshake
//	unreachable      a Tell to an address nobody listens on is still being retried
//	tell-in-onkill   an actor Tells an unreachable address from its OnKill handler
//
// Oracle: Stop returns nil within its timeout (8 s; the library gives a silent peer 1 s), a second
// Stop answers AlreadyStopped at once, and once the answering peer has been stopped too no goroutine
// with a frame of the library or of its scheduler is left.
package c07

import (
	"context"
	"encoding/json"
	"fmt"
	"io"
	"net"
	"os"
	"runtime"
	"sort"
	"strings"
	"sync"
	"testing"
	"time"

	"github.com/kercylan98/vivid"
	"github.com/kercylan98/vivid/internal/actor"
	"github.com/kercylan98/vivid/internal/remoting"
	"github.com/kercylan98/vivid/verif/internal/hlog"
	"github.com/kercylan98/vivid/verif/internal/rlab"
	"github.com/kercylan98/vivid/verif/internal/vstat"
	"github.com/kercylan98/vivid/verif/internal/vt"
	"pgregory.net/rapid"
)

type NetCase struct {
	Peers []string `json:"peers"`
	How   string   `json:"how"` // stop | cancel
	// Mode: "" a plain system with remoting | no-port (an advertised address without a port: Start fails before the
	// root actor exists) | port-in-use (the bind address is taken: the listener cannot come up) | cluster-seed (a
	// self-seeded cluster node, Up) | cluster-joining (a cluster node whose only seed is unreachable: still joining)
	Mode string `json:"mode,omitempty"`
	// StopMs: the timeout given to Stop (0 = the configured 8 s). A short one on a node that is busy joining may
	// end in the stop-failed error - but at the timeout, not later
	StopMs int `json:"stopMs,omitempty"`
}

func (c NetCase) JSON() string { b, _ := json.Marshal(c); return string(b) }

func genNetCase(rt *rapid.T) NetCase {
	c := NetCase{How: rapid.SampledFrom([]string{"stop", "stop", "cancel"}).Draw(rt, "how")}
	c.Mode = rapid.SampledFrom([]string{"cluster-joining", "no-port", "cluster-seed", "port-in-use", "", "", "", ""}).Draw(rt, "mode")
	if c.Mode == "no-port" || c.Mode == "port-in-use" {
		return c
	}
	if c.Mode == "cluster-joining" && c.How == "stop" && rapid.Bool().Draw(rt, "shortStop") {
		c.StopMs = 1500
	}
	n := rapid.IntRange(0, 3).Draw(rt, "peers")
	for i := 0; i < n; i++ {
		c.Peers = append(c.Peers, rapid.SampledFrom([]string{"unreachable", "real", "out-silent", "in-silent", "out-closed", "unreachable", "tell-in-onkill", "out-silent", "in-silent"}).Draw(rt, "peer"))
	}
	return c
}

// silentServer accepts, completes the handshake as the accepting side and then swallows everything.
type silentServer struct {
	ln    net.Listener
	addr  string
	mu    sync.Mutex
	conns []net.Conn
	close bool // close right after the handshake instead of going silent
}

func newSilentServer(closeAfter bool) *silentServer {
	ln, err := net.Listen("tcp", "127.0.0.1:0")
	if err != nil {
		panic(err)
	}
	s := &silentServer{ln: ln, addr: ln.Addr().String(), close: closeAfter}
	go func() {
		for {
			c, err := ln.Accept()
			if err != nil {
				return
			}
			s.mu.Lock()
			s.conns = append(s.conns, c)
			s.mu.Unlock()
			go func() {
				hs := &remoting.Handshake{AdvertiseAddr: s.addr}
				if hs.Wait(c) != nil || hs.Send(c) != nil {
					return
				}
				if s.close {
					_ = c.Close()
					return
				}
				_ = c.SetDeadline(time.Time{})
				_, _ = io.Copy(io.Discard, c) // reads (so the kernel never pushes back), never answers, never closes
			}()
		}
	}()
	return s
}

func (s *silentServer) stop() {
	_ = s.ln.Close()
	s.mu.Lock()
	for _, c := range s.conns {
		_ = c.Close()
	}
	s.mu.Unlock()
}

type killTeller struct{ to vivid.ActorRef }

func (k *killTeller) OnReceive(ctx vivid.ActorContext) {
	if _, ok := ctx.Message().(*vivid.OnKill); ok {
		ctx.Tell(k.to, &rlab.Msg{Sender: 7, Seq: 1})
	}
}

// libraryGoroutines returns the stacks of goroutines that have a frame of the library or of its scheduler.
func libraryGoroutines() []string {
	buf := make([]byte, 1<<20)
	for {
		n := runtime.Stack(buf, true)
		if n < len(buf) {
			buf = buf[:n]
			break
		}
		buf = make([]byte, 2*len(buf))
	}
	var out []string
	for _, blk := range strings.Split(string(buf), "\n\n") {
		if strings.Contains(blk, "/verif/") && !strings.Contains(blk, "github.com/kercylan98/vivid/internal") {
			continue
		}
		lib := false
		for _, l := range strings.Split(blk, "\n") {
			if strings.HasPrefix(l, "github.com/kercylan98/vivid/internal/") || strings.HasPrefix(l, "github.com/kercylan98/vivid.") || strings.HasPrefix(l, "github.com/reugn/go-quartz") ||
				strings.HasPrefix(l, "created by github.com/kercylan98/vivid/internal/") || strings.HasPrefix(l, "created by github.com/reugn/go-quartz") {
				lib = true
			}
		}
		if lib && !strings.Contains(blk, "c07.libraryGoroutines") && !strings.Contains(blk, "verif/c07.runNet") {
			out = append(out, blk)
		}
	}
	return out
}

func runNet(c NetCase) (v *verdict, inconclusive string, nontrivial bool, labels []string) {
	lab := map[string]bool{"how:" + c.How: true}
	userCtx, cancel := context.WithCancel(context.Background())
	defer cancel()
	bind := fmt.Sprintf("127.0.0.1:%d", rlab.FreePort())
	lab["mode:"+c.Mode] = true
	opts := []vivid.ActorSystemOption{vivid.WithActorSystemContext(userCtx), vivid.WithActorSystemLogger(hlog.Nop), vivid.WithActorSystemStopTimeout(8 * time.Second)}
	switch c.Mode {
	case "no-port":
		opts = append(opts, vivid.WithActorSystemRemoting("127.0.0.1"))
	case "port-in-use":
		taken, err := net.Listen("tcp", bind)
		if err != nil {
			return nil, "listen: " + err.Error(), false, nil
		}
		defer taken.Close()
		opts = append(opts, vivid.WithActorSystemRemoting(bind, bind))
	case "cluster-seed":
		opts = append(opts, vivid.WithActorSystemRemoting(bind, bind), vivid.WithActorSystemRemotingOption(vivid.WithActorSystemRemotingClusterOption(vivid.WithClusterNodeID("n"), vivid.WithClusterSeeds([]string{bind}))))
	case "cluster-joining":
		// the join request to the unreachable seed fails at once (no reconnect attempts: the blocking retry loop is
		// KF-C14-1's business) and the node then waits 5 s for an answer that cannot come
		opts = append(opts, vivid.WithActorSystemRemoting(bind, bind), vivid.WithActorSystemRemotingOption(vivid.WithActorSystemRemotingReconnectLimit(0),
			vivid.WithActorSystemRemotingClusterOption(vivid.WithClusterNodeID("n"), vivid.WithClusterSeeds([]string{"127.0.0.1:1"}), vivid.WithClusterJoinAskTimeout(5*time.Second))))
	default:
		opts = append(opts, vivid.WithActorSystemRemoting(bind, bind))
	}
	sys := actor.NewSystem(opts...)
	startErr := sys.Start()
	if c.Mode == "no-port" || c.Mode == "port-in-use" {
		// a Start that cannot succeed: whatever it returns, the system must end up stopped or stoppable, every further
		// call must answer promptly, and nothing of it may stay behind
		nontrivial = true
		t0 := time.Now()
		err1 := sys.Stop()
		err2 := sys.Start()
		if d := time.Since(t0); d > 9*time.Second {
			return &verdict{"C07/no-hang|after-failed-start", fmt.Sprintf("mode %s: Start returned %v; the following Stop (%v) and Start (%v) took %v", c.Mode, startErr, err1, err2, d.Round(time.Millisecond))}, "", true, []string{"mode:" + c.Mode}
		}
		if startErr == nil && err1 != nil {
			return &verdict{"C07/stop-terminates|after-start", fmt.Sprintf("mode %s: Start returned nil, Stop returned %v", c.Mode, err1)}, "", true, []string{"mode:" + c.Mode}
		}
		// the creating context stays live (cancelling it would stop a scheduler that the failed Start left running)
		var left []string
		if !rlab.WaitUntil(15*time.Second, func() bool { vt.Progress(); left = libraryGoroutines(); return len(left) == 0 }) {
			sort.Strings(left)
			if len(left) > 3 {
				left = left[:3]
			}
			return &verdict{"C07/no-goroutine-left|failed-start", fmt.Sprintf("mode %s: Start returned %v, Stop %v; 15 s later %d goroutines of the library remain, e.g.\n%s", c.Mode, startErr, err1, len(left), strings.Join(left, "\n\n"))}, "", true, []string{"mode:" + c.Mode}
		}
		vstat.Add("failed_starts", 1)
		return nil, "", true, []string{"mode:" + c.Mode, fmt.Sprintf("start-returned-error:%v", startErr != nil)}
	}
	if startErr != nil {
		return nil, "Start: " + startErr.Error(), false, nil
	}
	if c.Mode == "cluster-joining" {
		time.Sleep(150 * time.Millisecond) // the first join attempt is under way or has failed
	}
	if !rlab.WaitUntil(5*time.Second, func() bool {
		cn, err := net.DialTimeout("tcp", bind, 200*time.Millisecond)
		if err == nil {
			_ = cn.Close()
		}
		return err == nil
	}) {
		_ = sys.Stop()
		return nil, "the listener did not come up", false, nil
	}
	var cleanup []func()
	defer func() {
		for _, f := range cleanup {
			f()
		}
	}()
	var real []*rlab.Node
	for i, kind := range c.Peers {
		lab["peer:"+kind] = true
		switch kind {
		case "real":
			a := fmt.Sprintf("127.0.0.1:%d", rlab.FreePort())
			n, err := rlab.StartNode(rlab.NodeOpt{Bind: a, Advertise: a, ReconnectLimit: -1})
			if err != nil {
				return nil, "peer did not start: " + err.Error(), false, nil
			}
			real = append(real, n)
			sys.Tell(n.RemoteSink(sys), &rlab.Msg{Sender: 7, Seq: int64(i)})
			if !rlab.WaitUntil(5*time.Second, func() bool { return len(n.Sink.Got()) > 0 }) {
				n.Stop()
				_ = sys.Stop()
				return nil, "the message to the answering peer did not arrive", false, nil
			}
		case "out-silent", "out-closed":
			s := newSilentServer(kind == "out-closed")
			cleanup = append(cleanup, s.stop)
			ref, _ := sys.CreateRef(s.addr, "/sink")
			sys.Tell(ref, &rlab.Msg{Sender: 7, Seq: int64(i)})
			// the connection exists once the peer has seen the handshake
			rlab.WaitUntil(3*time.Second, func() bool { s.mu.Lock(); defer s.mu.Unlock(); return len(s.conns) > 0 })
			time.Sleep(30 * time.Millisecond)
		case "in-silent":
			cn, err := net.Dial("tcp", bind)
			if err != nil {
				return nil, "dial: " + err.Error(), false, nil
			}
			cleanup = append(cleanup, func() { _ = cn.Close() })
			hs := &remoting.Handshake{AdvertiseAddr: fmt.Sprintf("127.0.0.1:%d", 40000+i)}
			if err := hs.Send(cn); err != nil {
				return nil, "handshake: " + err.Error(), false, nil
			}
			if err := hs.Wait(cn); err != nil {
				return nil, "handshake: " + err.Error(), false, nil
			}
			_ = cn.SetDeadline(time.Time{})
			go func() { _, _ = io.Copy(io.Discard, cn) }()
			time.Sleep(30 * time.Millisecond)
		case "unreachable":
			ref, _ := sys.CreateRef("127.0.0.1:1", "/nobody")
			go sys.Tell(ref, &rlab.Msg{Sender: 7, Seq: int64(i)}) // blocks its caller while it retries (KF-C14-1): not this unit's business
			time.Sleep(20 * time.Millisecond)
		case "tell-in-onkill":
			ref, _ := sys.CreateRef("127.0.0.1:1", "/nobody")
			if _, err := sys.ActorOf(&killTeller{to: ref}); err != nil {
				return nil, "spawn: " + err.Error(), false, nil
			}
		}
	}
	nontrivial = len(c.Peers) > 0
	// ---- stop
	vt.Progress()
	t0 := time.Now()
	var err error
	if c.How == "stop" {
		done := make(chan error, 1)
		limit := 8 * time.Second
		go func() {
			if c.StopMs > 0 {
				done <- sys.Stop(time.Duration(c.StopMs) * time.Millisecond)
			} else {
				done <- sys.Stop()
			}
		}()
		if c.StopMs > 0 {
			limit = time.Duration(c.StopMs) * time.Millisecond
			lab["short-stop-timeout"] = true
		}
		select {
		case err = <-done:
			if d := time.Since(t0); d > limit+1500*time.Millisecond {
				v = &verdict{"C07/stop-within-timeout|remoting", fmt.Sprintf("Stop with a timeout of %v returned %v after %v (mode %q, peers %v)", limit, err, d.Round(time.Millisecond), c.Mode, c.Peers)}
				return
			}
			if err != nil && c.StopMs > 0 && errCode(err) == "StopFailed" {
				// the node was busy joining for longer than the timeout: allowed; everything still has to go away
				lab["short-stop-failed-at-its-timeout"] = true
				err = nil
				if !rlab.WaitUntil(15*time.Second, func() bool { vt.Progress(); return len(sys.VerifActors()) == 0 }) {
					v = &verdict{"C07/stop-terminates|remoting", fmt.Sprintf("15 s after a Stop that failed at its timeout of %v, %d actors are still registered (mode %q)", limit, len(sys.VerifActors()), c.Mode)}
					return
				}
			}
		case <-time.After(14 * time.Second):
			var where []string
			for _, g := range libraryGoroutines() {
				if strings.Contains(g, ".stop(") || strings.Contains(g, "Leave") || strings.Contains(g, "NodeActor") || strings.Contains(g, "Backoff") {
					where = append(where, g)
				}
			}
			if len(where) > 4 {
				where = where[:4]
			}
			v = &verdict{"C07/no-hang|stop|remoting", fmt.Sprintf("Stop (timeout 8 s) of a system in mode %q with peers %v has not returned after 14 s; goroutines: %s", c.Mode, c.Peers, strings.Join(where, " ### "))}
			return
		}
		vt.Progress()
	} else {
		cancel()
		// the cancellation stops the system: a Stop call now either finds it stopped or performs the stop itself
		if !rlab.WaitUntil(10*time.Second, func() bool { vt.Progress(); return len(sys.VerifActors()) == 0 }) {
			v = &verdict{"C07/cancel-stops|remoting", fmt.Sprintf("10 s after the context was cancelled %d actors are still registered; peers %v", len(sys.VerifActors()), c.Peers)}
			return
		}
	}
	took := time.Since(t0)
	vt.Progress()
	if c.How == "stop" {
		if err != nil {
			v = &verdict{"C07/stop-terminates|remoting", fmt.Sprintf("Stop of a system with remoting returned %v after %v (timeout 8 s); peers %v; actors still registered: %d", err, took.Round(time.Millisecond), c.Peers, len(sys.VerifActors()))}
			return
		}
	}
	t1 := time.Now()
	if err2 := sys.Stop(time.Second); errCode(err2) != "AlreadyStopped" || time.Since(t1) > 500*time.Millisecond {
		v = &verdict{"C07/one-way|stop-after-stop", fmt.Sprintf("a further Stop returned %v after %v", err2, time.Since(t1).Round(time.Millisecond))}
		return
	}
	for _, n := range real {
		n.Stop()
	}
	for _, f := range cleanup {
		f()
	}
	cleanup = nil
	var left []string
	if !rlab.WaitUntil(25*time.Second, func() bool { vt.Progress(); left = libraryGoroutines(); return len(left) == 0 }) {
		sort.Strings(left)
		if len(left) > 3 {
			left = left[:3]
		}
		v = &verdict{"C07/no-goroutine-left|remoting", fmt.Sprintf("25 s after the system (peers %v) and its peers were stopped %d goroutines of the library remain, e.g.\n%s", c.Peers, len(left), strings.Join(left, "\n\n"))}
		return
	}
	vstat.Add("stop_ms_with_remoting", took.Milliseconds())
	for k := range lab {
		labels = append(labels, k)
	}
	sort.Strings(labels)
	return
}

func checkNet(fatalf func(string, ...any), c NetCase) {
	vt.SetCase(c)
	v, inc, nt, labels := runNet(c)
	if inc != "" {
		vstat.Note("inconclusive case (not counted): " + inc)
		vstat.Add("inconclusive_cases", 1)
		return
	}
	vstat.Case(vstat.Hash(c.JSON()), nt, labels, func() any { return c })
	if v != nil {
		if vstat.Fail(v.sig, v.detail, c) {
			return
		}
		vstat.FailFast(v.sig, strings.ReplaceAll(v.detail, "\n", " ")+" :: case "+c.JSON())
		fatalf("VERIF-FAIL sig=%s :: %s :: case %s", v.sig, strings.ReplaceAll(v.detail, "\n", " "), c.JSON())
	}
}

// shapes every run starts with (the generator draws them, but not in every short run): a send that is inside the
// reconnect back-off when the system is stopped / its context cancelled, and an actor that sends to an unreachable peer
// while it terminates
var netShapes = []NetCase{
	{Peers: []string{"unreachable"}, How: "stop"},
	{Peers: []string{"unreachable"}, How: "cancel"},
	{Peers: []string{"tell-in-onkill", "unreachable"}, How: "stop"},
}

func TestC07StopWithRemoting(t *testing.T) {
	if os.Getenv("VERIF_SHARD") == "" || os.Getenv("VERIF_SHARD") == "0" {
		for _, c := range netShapes {
			checkNet(t.Fatalf, c)
		}
	}
	rapid.Check(t, func(rt *rapid.T) { checkNet(rt.Fatalf, genNetCase(rt)) })
}
