// C03 — no user message is silently lost: processed, stashed, or dead-lettered
// exactly once, whatever state the target is in and however the reference was
// obtained; after the system stopped, undeliverable messages cause no work.
package c03

import (
	"encoding/json"
	"fmt"
	"os"
	"sort"
	"strings"
	"testing"
	"time"

	"github.com/kercylan98/vivid/verif/internal/vstat"
	"github.com/kercylan98/vivid/verif/internal/vt"
	"github.com/kercylan98/vivid/verif/internal/world"
	"pgregory.net/rapid"
)

func TestMain(m *testing.M) {
	vt.StartWatchdog(30 * time.Second)
	vstat.Main(m.Run)
}

var cfg = world.GenCfg{MaxActors: 5, MaxDepth: 3, Failures: true, Hooks: true, Kills: true, Stash: true, Spawns: true, Provenance: true, Ghosts: true, MaxOps: 10}

type verdict struct{ sig, detail string }

// state class of the target of a send, derived from what had happened before it
func classOf(path string, snd world.Sent, tr []world.Ev, obs []world.Obs) string {
	launched, dead, zombie, paused := false, false, false, false
	for _, e := range tr[:min(snd.TraceIdx, len(tr))] {
		if e.Actor != path {
			continue
		}
		switch {
		case e.Kind == "launch":
			launched, dead, zombie = true, false, false
		case e.Kind == "killed:"+path:
			dead = true
		case (e.Kind == "hook:restarted" || e.Kind == "hook:prelaunch") && strings.HasPrefix(e.Note, "fail") && launched:
			zombie = true
		}
	}
	for _, o := range obs[:min(snd.EventIdx, len(obs))] {
		if o.Actor != path {
			continue
		}
		switch o.Type {
		case "Paused":
			paused = true
		case "Resumed", "Launched", "Restarted":
			paused = false
		}
	}
	switch {
	case !launched:
		return "never-existed"
	case zombie:
		return "zombie"
	case dead:
		return "terminated"
	case paused:
		return "paused"
	}
	return "running"
}

func everZombie(path string, tr []world.Ev) bool {
	launched := false
	for _, e := range tr {
		if e.Actor != path {
			continue
		}
		if e.Kind == "launch" {
			launched = true
		}
		if (e.Kind == "hook:restarted" || e.Kind == "hook:prelaunch") && strings.HasPrefix(e.Note, "fail") && launched {
			return true
		}
	}
	return false
}

// livesOf counts the spawns (not restarts) under a path: OnPrelaunch hooks of instances that later launched.
func livesOf(path string, tr []world.Ev) int {
	n := 0
	restarted := false
	for _, e := range tr {
		if e.Actor != path {
			continue
		}
		switch {
		case e.Kind == "hook:restarted":
			restarted = true
		case e.Kind == "hook:prelaunch":
			if !restarted {
				n++
			}
			restarted = false
		}
	}
	return n
}

func fate(path string, tr []world.Ev) string {
	launched, dead := false, false
	for _, e := range tr {
		if e.Actor != path {
			continue
		}
		if e.Kind == "launch" {
			launched, dead = true, false
		}
		if e.Kind == "killed:"+path {
			dead = true
		}
	}
	switch {
	case !launched:
		return "never-existed"
	case dead:
		return "terminated-later"
	}
	return "alive-at-end"
}

func run(t *testing.T, s world.Scenario, stopFirst bool) (v *verdict, nontrivial bool, labels []string) {
	lab := map[string]bool{}
	res := vt.Run(t, func() {
		w := world.Build(s)
		defer w.Close()
		if stopFirst {
			// the script runs against a stopped system: nothing may be handled, work must be bounded
			if err := w.Stop(5 * time.Second); err != nil {
				v = &verdict{"C03/after-stop|stop-failed", fmt.Sprintf("Stop: %v", err)}
				return
			}
			vt.Settle()
			before, _ := w.Snapshot()
			w.RunScript(s)
			after, _ := w.Snapshot()
			for _, e := range after[len(before):] {
				if e.Kind == "msg" {
					v = &verdict{"C03/after-stop|handled", fmt.Sprintf("message %d was handled by %s after the system had stopped", e.ID, e.Actor)}
					return
				}
			}
			lab["after-stop"] = true
			nontrivial = len(w.SendsCopy()) > 0
			return
		}
		w.RunScript(s)
		tr, obs := w.Snapshot()
		if w.Overwork {
			v = &verdict{"C03/unbounded-work", "more than 2e6 deliveries"}
			return
		}
		handled := map[int]int{}
		lastStashed := map[int]bool{}
		for _, e := range tr {
			if e.Kind != "msg" || e.ID == 0 {
				continue
			}
			if e.Note == "stashed" {
				lastStashed[e.ID] = true
			} else {
				handled[e.ID]++
				lastStashed[e.ID] = false
			}
		}
		// a stashed message must really be in the stash: for every actor that lived one undisturbed life and is
		// running at the end, the white-box stash length is the number of messages whose last event is "stashed"
		stashedAt := map[string][]int{}
		disturbed := map[string]bool{}
		firstInst := map[string]int{}
		for _, e := range tr {
			if fi, ok := firstInst[e.Actor]; !ok {
				firstInst[e.Actor] = e.Inst
			} else if fi != e.Inst {
				disturbed[e.Actor] = true // a second instance: restarted, or the name was reused
			}
			if e.Kind == "kill" || strings.HasPrefix(e.Kind, "hook:prerestart") || strings.HasPrefix(e.Kind, "hook:restarted") {
				disturbed[e.Actor] = true
			}
			if e.Kind == "msg" && e.ID != 0 && lastStashed[e.ID] && e.Note == "stashed" {
				stashedAt[e.Actor] = append(stashedAt[e.Actor], e.ID)
			}
		}
		spawnedTimes, deadIDs := map[string]int{}, map[int]bool{}
		for _, o := range obs {
			if o.Type == "Spawned" {
				spawnedTimes[o.Actor]++
			}
			if o.Type == "DeadLetter" && o.MsgID != 0 {
				deadIDs[o.MsgID] = true
			}
		}
		for _, a := range w.Sys.VerifActors() {
			ids := stashedAt[a.Path]
			if len(ids) == 0 || a.State != 0 || a.Zombie {
				continue
			}
			if disturbed[a.Path] {
				// restarted, but one and the same actor (spawned once, running at the end): its stash belongs to the
				// actor, not to the instance. What it stashed and never got back is still there or was published
				// as a dead letter
				if spawnedTimes[a.Path] != 1 {
					continue
				}
				need := 0
				counted := map[int]bool{} // a message can be stashed once per instance: the same id may be listed twice
				for _, id := range ids {
					if !deadIDs[id] && !counted[id] {
						need++
					}
					counted[id] = true
				}
				lab["stash-length-checked|restarted"] = true
				if a.Stash < need {
					v = &verdict{"C03/lost|stash-dropped|restarted", fmt.Sprintf("actor %s (spawned once, restarted, running at the end) stashed messages %v and never got them back; %d of them were not dead-lettered, but its stash holds %d. trace: %s", a.Path, ids, need, a.Stash, world.Fmt(tailEv(world.PerActor(tr)[a.Path], 14)))}
					return
				}
				continue
			}
			lab["stash-length-checked"] = true
			if a.Stash < len(ids) {
				v = &verdict{"C03/lost|stash-dropped", fmt.Sprintf("actor %s stashed messages %v and never got them back, but its stash holds %d: %d messages are neither handled, nor stashed, nor dead-lettered. trace: %s", a.Path, ids, a.Stash, len(ids)-a.Stash, world.Fmt(tailEv(world.PerActor(tr)[a.Path], 14)))}
				return
			}
		}
		dead := map[int]int{}
		for _, o := range obs {
			if o.Type == "DeadLetter" && o.MsgID != 0 {
				dead[o.MsgID]++
			}
		}
		for _, snd := range w.SendsCopy() {
			cls := classOf(snd.To, snd, tr, obs)
			via := snd.Via
			if via == "" {
				via = "spawn-ref"
			}
			lab["state:"+cls] = true
			lab["via:"+via] = true
			if cls != "running" || (via != "spawn-ref" && via != "self") {
				nontrivial = true
			}
			h, d := handled[snd.ID], dead[snd.ID]
			st := 0
			if lastStashed[snd.ID] {
				st = 1
			}
			switch {
			case h > 1:
				v = &verdict{"C03/duplicate|" + cls, fmt.Sprintf("message %d (to %s, state %s, via %s) was handled %d times", snd.ID, snd.To, cls, via, h)}
			case d > 1:
				v = &verdict{"C03/dead-letter-twice|" + cls, fmt.Sprintf("message %d (to %s, state %s, via %s) was published %d times as a dead letter", snd.ID, snd.To, cls, via, d)}
			case h >= 1 && d >= 1:
				v = &verdict{"C03/handled-and-dead|" + cls, fmt.Sprintf("message %d (to %s, state %s, via %s) was both handled and dead-lettered", snd.ID, snd.To, cls, via)}
			case h+d+st == 0:
				if everZombie(snd.To, tr) {
					// the documented exception: a zombie consumes its mail. It ends when the zombie is released (killed): for
					// a path that had a single life, a message sent after its one ActorKilledEvent must be a dead letter
					released := false
					if livesOf(snd.To, tr) == 1 {
						for i, o := range obs {
							if o.Type == "Killed" && o.Actor == snd.To && i < snd.EventIdx {
								released = true
							}
						}
					}
					if !released {
						lab["zombie-consumed"] = true
						continue
					}
					lab["sent-to-a-released-zombie"] = true
				}
				ft := fate(snd.To, tr)
				provClass := "cached-ref"
				if via != "spawn-ref" && via != "self" && via != "sender" && via != "lastsender" && via != "parent" {
					provClass = "uncached-ref"
				}
				v = &verdict{"C03/lost|" + cls + "|" + ft + "|" + provClass, fmt.Sprintf("message %d sent to %s (state at send: %s, reference via %s, target afterwards: %s) was neither handled, nor stashed, nor published as a dead letter. target trace: %s ; events: %s", snd.ID, snd.To, cls, via, ft, world.Fmt(tailEv(world.PerActor(tr)[snd.To], 10)), world.FmtObs(tailObs(filterObs(obs, snd.To), 10)))}
			}
			if v != nil {
				if os.Getenv("VERIF_DEBUG") != "" {
					v.detail += "\nFULL TRACE: " + world.Fmt(tr) + "\nEVENTS: " + world.FmtObs(obs) + fmt.Sprintf("\nCONSULTS: %+v", w.ConsultsCopy())
				}
				return
			}
		}
	})
	if v == nil && res.Panic != nil {
		if res.Deadlock {
			v = &verdict{"C03/bubble-deadlock", fmt.Sprintf("%v", res.Panic)}
		} else {
			v = &verdict{"C03/harness-panic", fmt.Sprintf("%v\n%s", res.Panic, res.Stack)}
		}
	}
	for l := range lab {
		labels = append(labels, l)
	}
	sort.Strings(labels)
	return
}

func tailEv(e []world.Ev, n int) []world.Ev {
	if len(e) > n {
		return e[len(e)-n:]
	}
	return e
}

func tailObs(e []world.Obs, n int) []world.Obs {
	if len(e) > n {
		return e[len(e)-n:]
	}
	return e
}

func filterObs(obs []world.Obs, path string) []world.Obs {
	var out []world.Obs
	for _, o := range obs {
		if o.Actor == path {
			out = append(out, o)
		}
	}
	return out
}

type caseT struct {
	S         world.Scenario `json:"s"`
	StopFirst bool           `json:"stopFirst"`
}

func check(t *testing.T, fatalf func(string, ...any), c caseT) {
	vt.SetCase(c)
	v, nt, labels := run(t, c.S, c.StopFirst)
	vstat.Case(vstat.Hash(c.S.JSON(), c.StopFirst), nt, labels, func() any { return c.S.Describe() })
	if v != nil {
		if vstat.Fail(v.sig, v.detail, c) {
			return
		}
		fatalf("VERIF-FAIL sig=%s :: %s\nscenario: %s\njson=%s", v.sig, v.detail, c.S.Describe(), c.S.JSON())
	}
}

func TestC03Conservation(t *testing.T) {
	rapid.Check(t, func(rt *rapid.T) {
		s := world.GenScenario(rt, cfg)
		s.Racing = rapid.IntRange(0, 3).Draw(rt, "racing") == 0
		check(t, rt.Fatalf, caseT{S: s, StopFirst: rapid.IntRange(0, 9).Draw(rt, "stopFirst") == 0})
	})
}

func TestReplay(t *testing.T) {
	p := os.Getenv("VERIF_REPLAY_CASE")
	if p == "" {
		t.Skip("no VERIF_REPLAY_CASE")
	}
	b, err := os.ReadFile(p)
	if err != nil {
		t.Fatal(err)
	}
	var c caseT
	var hr struct {
		Case *caseT `json:"case"`
	}
	if json.Unmarshal(b, &hr) == nil && hr.Case != nil && len(hr.Case.S.Tree) > 0 {
		c = *hr.Case
	} else if err := json.Unmarshal(b, &c); err != nil {
		t.Fatal(err)
	}
	check(t, t.Fatalf, c)
}
