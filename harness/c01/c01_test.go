// C01 — each actor processes its messages one at a time, each exactly once,
// no lost wake-up, pause semantics, no spin.
//
// The real internal/mailbox.UnboundedMailbox (built from /repo's working tree,
// with scheduling points inserted by cmd/vcheck/instr.go before every atomic
// operation, queue operation, handler call and goroutine spawn) is driven by
// the controlled scheduler of internal/ctl: the generator owns the
// interleaving.
package c01

import (
	"encoding/json"
	"fmt"
	"os"
	"sort"
	"strconv"
	"strings"
	"testing"
	"time"

	"github.com/kercylan98/vivid"
	"github.com/kercylan98/vivid/internal/mailbox"
	"github.com/kercylan98/vivid/verif/internal/ctl"
	"github.com/kercylan98/vivid/verif/internal/vstat"
	"github.com/kercylan98/vivid/verif/internal/vt"
	"pgregory.net/rapid"
)

func TestMain(m *testing.M) {
	vt.StartWatchdog(30 * time.Second)
	vstat.Main(m.Run)
}

// Op kinds: "u" enqueue user, "s" enqueue system, "P" Pause, "R" Resume.
type Op struct {
	K     string `json:"k"`
	Inner []Op   `json:"in,omitempty"` // executed by the handler while it handles this message (u/s only)
}

type Case struct {
	Ring    int    `json:"ring"`
	Threads [][]Op `json:"threads"`
	Mode    string `json:"mode"` // tape | sticky | prefix
	Tape    []byte `json:"tape,omitempty"`
	Sw      []int  `json:"sw,omitempty"` // sticky: steps at which to switch (pairs step,value)
	Prefix  []int  `json:"prefix,omitempty"`
}

type env struct {
	id     int
	system bool
	sender string // thread (or "h" + message id for handler-sent)
	seq    int    // per (sender, class) sequence number
	inner  []Op
}

func (e *env) System() bool             { return e.system }
func (e *env) Sender() vivid.ActorRef   { return nil }
func (e *env) Message() vivid.Message   { return e }
func (e *env) Receiver() vivid.ActorRef { return nil }

type verdict struct{ sig, detail string }

type run struct {
	c         *ctl.Ctl
	mb        *mailbox.UnboundedMailbox
	nextID    int
	accepted  map[int]*env
	handled   map[int]int
	order     []int
	inHandler int
	seqOut    map[string]int // next seq to assign per sender|class
	seqIn     map[string]int // next seq expected per sender|class
	v         *verdict

	// pause model (see DESIGN §4 C01, O4)
	resumesInFlight int
	modelPaused     bool
	strict          bool
	userSincePause  int
	anyPause        bool
	pauseCount      int
	sawOverlap      bool // non-triviality: two threads interleaved in the store-idle..CAS window or around a pause
	consumerSteps   map[string]int
}

func (r *run) fail(sig, format string, a ...any) {
	if r.v == nil {
		r.v = &verdict{sig, fmt.Sprintf(format, a...)}
	}
}

func (r *run) newEnv(system bool, sender string, inner []Op) *env {
	cls := "u"
	if system {
		cls = "s"
	}
	k := sender + "|" + cls
	e := &env{id: r.nextID, system: system, sender: sender, seq: r.seqOut[k], inner: inner}
	r.seqOut[k]++
	r.nextID++
	r.accepted[e.id] = e
	return e
}

func (r *run) exec(sender string, op Op, fromHandler bool) {
	switch op.K {
	case "u", "s":
		e := r.newEnv(op.K == "s", sender, op.Inner)
		r.mb.Enqueue(e)
	case "P":
		r.anyPause = true
		r.pauseCount++
		r.mb.Pause()
		// Pause has returned: if no Resume is in flight the mailbox is paused for sure
		if r.resumesInFlight == 0 {
			r.modelPaused = true
			r.strict = fromHandler
			r.userSincePause = 0
		} else {
			r.modelPaused = false
		}
	case "R":
		r.resumesInFlight++
		r.modelPaused = false
		r.mb.Resume()
		r.resumesInFlight--
	}
}

func (r *run) HandleEnvelop(envelop vivid.Envelop) {
	e := envelop.(*env)
	r.inHandler++
	if r.inHandler > 1 {
		r.fail("C01/one-at-a-time", "two handler invocations in progress (message %d entered while another is being handled)", e.id)
	}
	r.handled[e.id]++
	if r.handled[e.id] > 1 {
		r.fail("C01/exactly-once|duplicate", "message %d handed to the handler %d times", e.id, r.handled[e.id])
	}
	r.order = append(r.order, e.id)
	cls := "u"
	if e.system {
		cls = "s"
	}
	k := e.sender + "|" + cls
	if e.seq != r.seqIn[k] {
		r.fail("C01/per-sender-fifo", "sender %s class %s: got seq %d, expected %d", e.sender, cls, e.seq, r.seqIn[k])
	}
	r.seqIn[k] = e.seq + 1
	if !e.system && r.modelPaused {
		r.userSincePause++
		if r.strict {
			r.fail("C01/pause|from-handler", "user message %d started although the mailbox was paused from inside the previous handler and no Resume has started", e.id)
		} else if r.userSincePause > 1 {
			r.fail("C01/pause|external", "%d user messages started after Pause returned and before any Resume started (at most one may already be past the pause check)", r.userSincePause)
		}
	}
	// let other threads interleave with the handler
	r.c.Yield("handler")
	for _, in := range e.inner {
		r.exec("h"+strconv.Itoa(e.id), in, true)
	}
	r.inHandler--
}

func countOps(ops []Op) int {
	n := 0
	for _, o := range ops {
		n += 1 + countOps(o.Inner)
	}
	return n
}

func hasKind(ops []Op, k string) bool {
	for _, o := range ops {
		if o.K == k || hasKind(o.Inner, k) {
			return true
		}
	}
	return false
}

// execute runs one case in a bubble and returns the verdict, the trace and
// statistics about it.
func execute(t *testing.T, cs Case) (v *verdict, trace []ctl.Step, nontrivial bool, labels []string) {
	res := vt.Run(t, func() {
		c := ctl.New()
		r := &run{c: c, accepted: map[int]*env{}, handled: map[int]int{}, seqOut: map[string]int{}, seqIn: map[string]int{}, consumerSteps: map[string]int{}}
		r.mb = mailbox.NewUnboundedMailbox(int64(cs.Ring), r)
		mailbox.VerifYieldHook = c.Yield
		mailbox.VerifGoHook = c.Spawn
		defer func() {
			c.Abort()
			mailbox.VerifYieldHook = nil
			mailbox.VerifGoHook = nil
		}()
		total := 0
		for ti, ops := range cs.Threads {
			id := "s" + strconv.Itoa(ti)
			ops := ops
			total += countOps(ops)
			c.Go(id, func() {
				for _, op := range ops {
					r.exec(id, op, false)
				}
			})
		}
		var choose ctl.Chooser
		switch cs.Mode {
		case "sticky":
			sw := map[int]byte{}
			for i := 0; i+1 < len(cs.Sw); i += 2 {
				sw[cs.Sw[i]] = byte(cs.Sw[i+1])
			}
			choose = ctl.StickyTapeChooser(sw)
		case "prefix":
			choose = ctl.PrefixChooser(cs.Prefix)
		default:
			choose = ctl.TapeChooser(cs.Tape)
		}
		budget := 400*(total+2) + 400
		// O5: a consumer goroutine that keeps taking steps without anything being handled
		// and without any other thread running is spinning.
		lastHandled, lastOther, streak := 0, 0, 0
		c.OnStep = func() bool {
			if r.v != nil {
				return true
			}
			n := len(c.Trace)
			if n == 0 {
				return false
			}
			st := c.Trace[n-1]
			if len(r.order) != lastHandled || !strings.Contains(st.Thread, ".") {
				lastHandled = len(r.order)
				lastOther = n
				streak = 0
				return false
			}
			_ = lastOther
			streak++
			if streak > 64 {
				r.fail("C01/no-spin", "a processing goroutine (%s) took %d consecutive steps without handling a message while no other thread ran; pending user=%d paused=%v; last sites: %s", st.Thread, streak, len(r.accepted)-len(r.handled), r.mb.IsPaused(), lastSites(c.Trace, 12))
				return true
			}
			return false
		}
		if c.Run(choose, budget) && r.v == nil {
			r.fail("C01/no-spin", "step budget %d exhausted (script has %d operations); live threads: %v; last sites: %s", budget, total, c.Live(), lastSites(c.Trace, 12))
		}
		if r.v == nil {
			r.quiescentChecks(cs, !r.anyPause)
		}
		// final Resumes: everything that waited must now be processed without any further
		// send. A message handled after a Resume may itself pause the mailbox again (handler
		// script), so repeat while such a Pause happened after the last Resume started.
		for i := 0; r.v == nil && r.anyPause && i < total+2; i++ {
			pausesBefore := r.pauseCount
			c.Go("z-final"+strconv.Itoa(i), func() { r.exec("z-final", Op{K: "R"}, false) })
			if c.Run(choose, budget+200*(i+1)) && r.v == nil {
				r.fail("C01/no-spin", "step budget exhausted after the final Resume; live: %v", c.Live())
			}
			if r.v == nil {
				last := r.pauseCount == pausesBefore
				if r.quiescentChecks(cs, last) {
					break
				}
			}
		}
		v = r.v
		trace = c.Trace
		// non-triviality, measured on the execution
		threadsSeen := map[string]bool{}
		preempt := 0
		for _, s := range c.Trace {
			threadsSeen[s.Thread] = true
			if s.Preempts {
				preempt++
			}
		}
		nontrivial = preempt > 0 && len(threadsSeen) >= 2
		lab := map[string]bool{"mode:" + cs.Mode: true, "ring:" + strconv.Itoa(cs.Ring): true}
		if r.anyPause {
			lab["with-pause"] = true
		}
		if hasInner(cs.Threads) {
			lab["handler-reentrant"] = true
		}
		if preempt >= 2 {
			lab["preemptions>=2"] = true
		} else if preempt == 1 {
			lab["preemptions=1"] = true
		} else {
			lab["preemptions=0"] = true
		}
		consumers := 0
		for id := range threadsSeen {
			if strings.Contains(id, ".") {
				consumers++
			}
		}
		if consumers >= 2 {
			lab["consumer-respawned"] = true
		}
		for l := range lab {
			labels = append(labels, l)
		}
		sort.Strings(labels)
		vstat.Add("schedule_steps", int64(len(c.Trace)))
	})
	if v == nil && res.Panic != nil {
		if res.Deadlock {
			v = &verdict{"C01/harness-deadlock", fmt.Sprintf("%v", res.Panic)}
		} else {
			v = &verdict{"C01/panic", fmt.Sprintf("%v\n%s", res.Panic, res.Stack)}
		}
	}
	return
}

func hasInner(ths [][]Op) bool {
	for _, ops := range ths {
		for _, o := range ops {
			if len(o.Inner) > 0 {
				return true
			}
		}
	}
	return false
}

func lastSites(tr []ctl.Step, n int) string {
	if len(tr) > n {
		tr = tr[len(tr)-n:]
	}
	var s []string
	for _, st := range tr {
		s = append(s, st.Thread+"@"+st.Site)
	}
	return strings.Join(s, " ")
}

// quiescentChecks runs at a quiescent point (no thread alive). It reports whether every
// accepted message has been handled. unpausedForSure: a Resume completed and no Pause
// was executed since it started (or no Pause was ever issued).
func (r *run) quiescentChecks(cs Case, unpausedForSure bool) (allHandled bool) {
	if live := r.c.Live(); len(live) > 0 {
		r.fail("C01/no-spin|alive-at-quiescence", "goroutines still alive at quiescence: %v", live)
		return false
	}
	var missingSys, missingUser []int
	for id, e := range r.accepted {
		if r.handled[id] == 0 {
			if e.system {
				missingSys = append(missingSys, id)
			} else {
				missingUser = append(missingUser, id)
			}
		}
	}
	sort.Ints(missingSys)
	sort.Ints(missingUser)
	if len(missingSys) > 0 {
		r.fail("C01/lost-wakeup|system", "quiescent, yet system messages %v were accepted and never handled (paused=%v)", missingSys, r.mb.IsPaused())
		return false
	}
	if len(missingUser) > 0 && unpausedForSure {
		what := "no Pause was ever issued"
		if r.anyPause {
			what = "a Resume completed with no Pause executed since it started"
		}
		r.fail("C01/lost-wakeup|user", "quiescent and %s, yet user messages %v were accepted and never handled (IsPaused=%v)", what, missingUser, r.mb.IsPaused())
		return false
	}
	return len(missingUser) == 0
}

// ---------------------------------------------------------------------------
// generators

func genOps(rt *rapid.T, n int, allowInner bool) []Op {
	var ops []Op
	for i := 0; i < n; i++ {
		k := rapid.SampledFrom([]string{"u", "u", "u", "s", "s", "P", "R"}).Draw(rt, "op")
		op := Op{K: k}
		if allowInner && (k == "u" || k == "s") && rapid.IntRange(0, 4).Draw(rt, "hasInner") == 0 {
			op.Inner = genOps(rt, rapid.IntRange(1, 2).Draw(rt, "nInner"), false)
		}
		ops = append(ops, op)
	}
	return ops
}

func genCase(rt *rapid.T) Case {
	cs := Case{Ring: rapid.SampledFrom([]int{1, 2, 4, 256}).Draw(rt, "ring")}
	nt := rapid.IntRange(1, 3).Draw(rt, "threads")
	for i := 0; i < nt; i++ {
		cs.Threads = append(cs.Threads, genOps(rt, rapid.IntRange(1, 4).Draw(rt, "nOps"), true))
	}
	cs.Mode = rapid.SampledFrom([]string{"tape", "tape", "sticky"}).Draw(rt, "mode")
	switch cs.Mode {
	case "tape":
		cs.Tape = rapid.SliceOfN(rapid.Byte(), 0, 64).Draw(rt, "tape")
	case "sticky":
		n := rapid.IntRange(1, 3).Draw(rt, "nSwitch")
		for i := 0; i < n; i++ {
			cs.Sw = append(cs.Sw, rapid.IntRange(0, 80).Draw(rt, "at"), rapid.IntRange(0, 7).Draw(rt, "to"))
		}
	}
	return cs
}

func report(t *testing.T, fatalf func(string, ...any), cs Case) {
	vt.SetCase(cs)
	v, trace, nt, labels := execute(t, cs)
	var h []any
	js, _ := json.Marshal(cs.Threads)
	h = append(h, cs.Ring, string(js))
	for _, s := range trace {
		h = append(h, s.Thread, s.Site)
	}
	vstat.Case(vstat.Hash(h...), nt, labels, func() any {
		return map[string]any{"case": cs, "schedule": compactTrace(trace)}
	})
	if v != nil {
		if vstat.Fail(v.sig, v.detail, cs) {
			return
		}
		cj, _ := json.Marshal(cs)
		fatalf("VERIF-FAIL sig=%s :: %s\ncase=%s\nschedule=%s", v.sig, v.detail, cj, compactTrace(trace))
	}
}

func compactTrace(tr []ctl.Step) string {
	var b strings.Builder
	for i, s := range tr {
		if i > 0 {
			b.WriteByte(' ')
		}
		if i > 120 {
			b.WriteString("…")
			break
		}
		b.WriteString(s.Thread + "@" + s.Site)
	}
	return b.String()
}

func TestC01Schedules(t *testing.T) {
	rapid.Check(t, func(rt *rapid.T) {
		report(t, rt.Fatalf, genCase(rt))
	})
}

// ---------------------------------------------------------------------------
// bounded exhaustive enumeration: every schedule with <= B preemptions of
// every scenario in a small finite family.

func enumScenarios() []Case {
	kinds := []Op{{K: "u"}, {K: "s"}, {K: "P"}, {K: "R"}, {K: "u", Inner: []Op{{K: "P"}}}, {K: "u", Inner: []Op{{K: "u"}}}, {K: "s", Inner: []Op{{K: "R"}}}}
	var scripts [][]Op
	for _, a := range kinds {
		scripts = append(scripts, []Op{a})
		for _, b := range kinds {
			scripts = append(scripts, []Op{a, b})
		}
	}
	var out []Case
	for _, ring := range []int{1, 256} {
		for i, a := range scripts {
			out = append(out, Case{Ring: ring, Threads: [][]Op{a}, Mode: "prefix"})
			for j := i; j < len(scripts); j++ {
				out = append(out, Case{Ring: ring, Threads: [][]Op{a, scripts[j]}, Mode: "prefix"})
			}
		}
	}
	return out
}

func preemptions(tr []ctl.Step) int {
	n := 0
	for _, s := range tr {
		if s.Preempts {
			n++
		}
	}
	return n
}

func TestC01Exhaustive(t *testing.T) {
	bound := 2
	if s := os.Getenv("VERIF_PREEMPT_BOUND"); s != "" {
		bound, _ = strconv.Atoi(s)
	}
	shard, _ := strconv.Atoi(os.Getenv("VERIF_SHARD"))
	nsh, _ := strconv.Atoi(os.Getenv("VERIF_NSHARDS"))
	if nsh <= 0 {
		nsh = 1
	}
	stride := 1
	if s := os.Getenv("VERIF_SCENARIO_STRIDE"); s != "" {
		stride, _ = strconv.Atoi(s)
	}
	scen := enumScenarios()
	var runs, scenarios int64
	for si := shard; si < len(scen); si += nsh {
		if stride > 1 && (si/nsh)%stride != 0 {
			continue
		}
		base := scen[si]
		scenarios++
		stack := [][]int{nil}
		for len(stack) > 0 {
			prefix := stack[len(stack)-1]
			stack = stack[:len(stack)-1]
			cs := base
			cs.Prefix = prefix
			vt.SetCase(cs)
			v, trace, nt, labels := execute(t, cs)
			runs++
			var h []any
			h = append(h, si)
			for _, s := range trace {
				h = append(h, s.Chosen)
			}
			vstat.Case(vstat.Hash(h...), nt, append(labels, "enumerated"), func() any {
				return map[string]any{"case": cs, "schedule": compactTrace(trace)}
			})
			if v != nil {
				if !vstat.Fail(v.sig, v.detail, cs) {
					cj, _ := json.Marshal(cs)
					vstat.Add("exhaustive_incomplete", 1)
					t.Fatalf("VERIF-FAIL sig=%s :: %s\ncase=%s\nschedule=%s", v.sig, v.detail, cj, compactTrace(trace))
				}
				continue // do not extend a failing (known) execution
			}
			// children: deviate at every step at or after the forced prefix
			for k := len(prefix); k < len(trace); k++ {
				st := trace[k]
				if st.Enabled < 2 {
					continue
				}
				used := preemptions(trace[:k])
				for alt := 0; alt < st.Enabled; alt++ {
					if alt == st.Chosen {
						continue
					}
					extra := 0
					if st.PrevIdx >= 0 && alt != st.PrevIdx {
						extra = 1
					}
					if used+extra > bound {
						continue
					}
					np := make([]int, k+1)
					for x := 0; x < k; x++ {
						np[x] = trace[x].Chosen
					}
					np[k] = alt
					stack = append(stack, np)
				}
			}
		}
	}
	vstat.Add("exhaustive_done", 1)
	vstat.Add("enumerated_scenarios", scenarios)
	vstat.Add("enumerated_schedules", runs)
	vstat.Note(fmt.Sprintf("enumeration: all schedules with <= %d preemptions of the scenario family (1-2 sender threads x 1-2 ops from 7 op shapes x ring {1,256}), scenario stride %d", bound, stride))
}

// ---------------------------------------------------------------------------

func TestReplay(t *testing.T) {
	p := os.Getenv("VERIF_REPLAY_CASE")
	if p == "" {
		t.Skip("no VERIF_REPLAY_CASE")
	}
	b, err := os.ReadFile(p)
	if err != nil {
		t.Fatal(err)
	}
	var cs Case
	var hr struct {
		Case *Case `json:"case"`
	}
	if json.Unmarshal(b, &hr) == nil && hr.Case != nil && len(hr.Case.Threads) > 0 {
		cs = *hr.Case
	} else if err := json.Unmarshal(b, &cs); err != nil {
		t.Fatal(err)
	}
	report(t, t.Fatalf, cs)
}

// Regression tier: shrunk failures found by the generator on the pinned tree.
func TestC01Regressions(t *testing.T) {
	cases := []Case{
		// paused mailbox with a pending user message must not spin
		{Ring: 1, Threads: [][]Op{{{K: "P"}, {K: "u"}}}, Mode: "tape"},
		{Ring: 256, Threads: [][]Op{{{K: "u", Inner: []Op{{K: "P"}}}, {K: "u"}}}, Mode: "tape"},
		{Ring: 2, Threads: [][]Op{{{K: "P"}, {K: "u"}, {K: "s"}}, {{K: "R"}, {K: "u"}}}, Mode: "tape", Tape: []byte{1, 0, 1, 1, 0}},
	}
	for _, cs := range cases {
		report(t, t.Fatalf, cs)
	}
}
