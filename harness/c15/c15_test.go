// C15 — location transparency: every operation of the actor API that takes an
// ActorRef has the same observable effect whether the reference designates a
// local actor or an actor on another system.
//
// Differential oracle, exactly the property's statement: a generated script of
// operations (Tell, Ask with an echo / error / no reply, Ping, Watch, Unwatch,
// Kill poison / immediate, ActorContext.PipeTo and Future.PipeTo with one or
// two forwarders, Scheduler.Once) is executed twice on two real systems over
// loopback TCP: once with every role on the operator's system, once with the
// roles placed on either system by the generator. Every role records what it
// observes; the two records, with references reduced to role names, must be
// equal. A small expectation table says how many observations each operation
// produces: it is only used to know when a step has settled, and to tell a
// broken harness (the all-local run deviates from it: inconclusive) from a
// verdict.
package c15

import (
	"encoding/json"
	"errors"
	"fmt"
	"os"
	"sort"
	"strings"
	"sync"
	"testing"
	"time"

	"github.com/kercylan98/vivid"
	"github.com/kercylan98/vivid/internal/messages"
	"github.com/kercylan98/vivid/verif/internal/rlab"
	"github.com/kercylan98/vivid/verif/internal/vstat"
	"github.com/kercylan98/vivid/verif/internal/vt"
	"pgregory.net/rapid"
)

func TestMain(m *testing.M) { vstat.Main(m.Run) }

// ---- payloads: a registered custom message and a message only the user Codec knows

type RMsg struct {
	Kind int8 // what the receiving probe does: 0 record, 1 echo, 2 reply with a registered error, 3 reply with a plain Go error, 4 stay silent
	Seq  int64
	Body []byte
}

type CMsg struct {
	Kind int8   `json:"k"`
	Seq  int64  `json:"s"`
	Body []byte `json:"b"`
}

var errApp = vivid.RegisterError(-770015, "verif: application failure")

func init() {
	vivid.RegisterCustomMessage[*RMsg]("verif.c15.RMsg",
		func(message any, r *messages.Reader, _ messages.Codec) error {
			m := message.(*RMsg)
			return r.ReadInto(&m.Kind, &m.Seq, &m.Body)
		},
		func(message any, w *messages.Writer, _ messages.Codec) error {
			m := message.(*RMsg)
			return w.WriteFrom(m.Kind, m.Seq, m.Body)
		})
}

// BadMsg is a registered message whose writer fails (an int field: the wire writer supports sized integers only). A Tell
// of it to another system cannot be encoded; what happens to it is not compared - what is compared is everything after it
// (every encode path shares pooled writers).
type BadMsg struct{ Count int }

func init() {
	vivid.RegisterCustomMessage[*BadMsg]("verif.c15.BadMsg",
		func(message any, r *messages.Reader, _ messages.Codec) error { return nil },
		func(message any, w *messages.Writer, _ messages.Codec) error {
			return w.WriteFrom(message.(*BadMsg).Count)
		})
}

type jsonCodec struct{}

func (jsonCodec) Encode(m vivid.Message) ([]byte, error) {
	c, ok := m.(*CMsg)
	if !ok {
		return nil, fmt.Errorf("jsonCodec: unsupported %T", m)
	}
	return json.Marshal(c)
}
func (jsonCodec) Decode(b []byte) (vivid.Message, error) {
	c := &CMsg{}
	if err := json.Unmarshal(b, c); err != nil {
		return nil, err
	}
	return c, nil
}

const (
	kRecord int8 = iota
	kEcho
	kErrRegistered
	kErrPlain
	kSilent
)

func payloadOf(m vivid.Message) (kind int8, seq int64, body []byte, codec bool, ok bool) {
	switch v := m.(type) {
	case *RMsg:
		return v.Kind, v.Seq, v.Body, false, true
	case *CMsg:
		return v.Kind, v.Seq, v.Body, true, true
	}
	return 0, 0, nil, false, false
}

func mkPayload(codec bool, kind int8, seq int64, n int) vivid.Message {
	b := rlab.Body(15, seq, n)
	if codec {
		return &CMsg{Kind: kind, Seq: seq, Body: b}
	}
	return &RMsg{Kind: kind, Seq: seq, Body: b}
}

// ---- the case

type Op struct {
	Op     string   `json:"op"` // tell | ask | ping | watch | unwatch | kill | pipe | futurepipe | once | badtell
	By     string   `json:"by"` // X (an actor) | S (the system's root context) | W (the second watcher; watch / unwatch only)
	Reply  int8     `json:"reply,omitempty"`
	Codec  bool     `json:"codec,omitempty"`
	Size   int      `json:"size,omitempty"`
	Fwd    []string `json:"fwd,omitempty"` // forwarders: F1, F2, X
	Poison bool     `json:"poison,omitempty"`
	Reason string   `json:"reason,omitempty"`
}

type Case struct {
	WithCodec bool              `json:"withCodec"`
	Place     map[string]string `json:"place"` // role -> A | B for T, F1, F2, W (X and S are on A)
	Ops       []Op              `json:"ops"`
}

func (c Case) JSON() string { b, _ := json.Marshal(c); return string(b) }

func genCase(t *rapid.T) Case {
	c := Case{WithCodec: rapid.Bool().Draw(t, "withCodec"), Place: map[string]string{}}
	for _, r := range []string{"T", "F1", "F2", "W"} {
		c.Place[r] = rapid.SampledFrom([]string{"A", "B", "B"}).Draw(t, "place"+r)
	}
	n := rapid.IntRange(1, 7).Draw(t, "ops")
	watching := map[string]bool{}
	for i := 0; i < n; i++ {
		o := Op{Op: rapid.SampledFrom([]string{"tell", "ask", "ask", "ping", "watch", "watch", "unwatch", "pipe", "pipe", "futurepipe", "once", "badtell"}).Draw(t, "op")}
		o.By = rapid.SampledFrom([]string{"X", "X", "X", "S"}).Draw(t, "by")
		if c.WithCodec {
			o.Codec = rapid.Bool().Draw(t, "codecMsg")
		}
		o.Size = rapid.SampledFrom([]int{0, 1, 10, 300, 5000}).Draw(t, "size")
		switch o.Op {
		case "ask", "pipe", "futurepipe":
			o.Reply = rapid.SampledFrom([]int8{kEcho, kEcho, kErrRegistered, kErrPlain, kSilent}).Draw(t, "reply")
			if o.Reply == kErrPlain && (o.Op == "ask" || c.Place["T"] == "B") {
				// a plain Go error is not a wire message: it can only be the result of a piped request whose
				// target is on the asker's system (and then has to reach remote forwarders as a failure)
				o.Reply = kErrRegistered
			}
		case "watch", "unwatch":
			o.By = rapid.SampledFrom([]string{"X", "W", "W"}).Draw(t, "watcher")
			if o.Op == "unwatch" && !watching[o.By] {
				o.Op = "watch"
			}
			watching[o.By] = o.Op == "watch"
		case "once":
			o.By = "X"
		}
		if o.Op == "pipe" || o.Op == "futurepipe" {
			k := rapid.IntRange(1, 2).Draw(t, "forwarders")
			pool := []string{"F1", "F2", "X"}
			if o.By != "X" {
				pool = []string{"F1", "F2"}
			}
			perm := rapid.Permutation(pool).Draw(t, "fwd")
			o.Fwd = perm[:k]
			if o.Op == "futurepipe" {
				o.By = "X"
			}
		}
		c.Ops = append(c.Ops, o)
	}
	if rapid.IntRange(0, 9).Draw(t, "endsWithKill") < 7 {
		o := Op{Op: "kill", By: rapid.SampledFrom([]string{"X", "X", "S"}).Draw(t, "killer"), Poison: rapid.Bool().Draw(t, "poison")}
		o.Reason = rapid.SampledFrom([]string{"", "bye", "a reason, with commas", "原因"}).Draw(t, "reason")
		c.Ops = append(c.Ops, o)
	}
	return c
}

// ---- probes and their record

type record struct {
	mu  sync.Mutex
	log map[string][]string // role -> observations in order
	n   int
}

func (r *record) add(role, format string, a ...any) {
	r.mu.Lock()
	r.log[role] = append(r.log[role], fmt.Sprintf(format, a...))
	r.n++
	r.mu.Unlock()
}
func (r *record) count() int { r.mu.Lock(); defer r.mu.Unlock(); return r.n }
func (r *record) copy() map[string][]string {
	r.mu.Lock()
	defer r.mu.Unlock()
	out := map[string][]string{}
	for k, v := range r.log {
		out[k] = append([]string(nil), v...)
	}
	return out
}

// run is one execution of the script under one placement.
type run struct {
	rec   *record
	roles map[string]vivid.ActorRef // role -> the reference the operator's system uses for it
	where map[string]string         // role -> A | B
	addr  map[string]string         // A | B -> advertised address
	names map[string]string         // role -> actor path
}

// who reduces a reference to a role name (or to the system it lives on).
func (r *run) who(ref vivid.ActorRef) string {
	if ref == nil {
		return "nobody"
	}
	for role, p := range r.names {
		if p == ref.GetPath() && r.addr[r.where[role]] == ref.GetAddress() {
			return role
		}
	}
	sys := "?"
	for s, a := range r.addr {
		if a == ref.GetAddress() {
			sys = s
		}
	}
	switch {
	case ref.GetPath() == "/":
		return "root@" + r.sysRole(sys)
	case strings.Contains(ref.GetPath(), "future"):
		return "future@" + r.sysRole(sys)
	}
	return "other@" + r.sysRole(sys) + ref.GetPath()
}

// sysRole names a system by the role it plays for the comparison: the operator's system or "the target's system".
func (r *run) sysRole(sys string) string {
	if sys == "A" {
		return "operator-system"
	}
	return "other-system"
}

func errClass(err error) string {
	if err == nil {
		return "ok"
	}
	var ve *vivid.Error
	if errors.As(err, &ve) {
		if ve.GetCode() == vivid.ErrorException.GetCode() {
			return "error(exception)"
		}
		return fmt.Sprintf("error(code %d, %q)", ve.GetCode(), ve.GetMessage())
	}
	return "error(exception)" // a plain Go error: crosses the wire as ErrorException
}

func msgSummary(m vivid.Message) string {
	if m == nil {
		return "nil"
	}
	if k, s, b, cd, ok := payloadOf(m); ok {
		return fmt.Sprintf("payload(kind %d, seq %d, %d bytes, sum %x, codec %v)", k, s, len(b), fnv(b), cd)
	}
	if e, ok := m.(error); ok {
		return errClass(e)
	}
	return fmt.Sprintf("%T", m)
}

func fnv(b []byte) uint64 {
	var h uint64 = 14695981039346656037
	for _, x := range b {
		h ^= uint64(x)
		h *= 1099511628211
	}
	return h
}

type do struct{ f func(ctx vivid.ActorContext) }

type probe struct {
	role string
	r    *run
}

func (p *probe) OnReceive(ctx vivid.ActorContext) {
	switch m := ctx.Message().(type) {
	case *do:
		m.f(ctx)
	case *vivid.OnKill:
		p.r.rec.add(p.role, "OnKill(killer %s, poison %v, reason %q)", p.r.who(m.Killer), m.Poison, m.Reason)
	case *vivid.OnKilled:
		p.r.rec.add(p.role, "OnKilled(%s)", p.r.who(m.Ref))
	case *vivid.PipeResult:
		p.r.rec.add(p.role, "PipeResult(%s, %s)", msgSummary(m.Message), errClass(m.Error))
	case *RMsg, *CMsg:
		kind, seq, body, cd, _ := payloadOf(m)
		// the sender of an Ask is a future of the asking system; of a Tell, the teller
		p.r.rec.add(p.role, "received %s from %s", msgSummary(m), p.r.who(ctx.Sender()))
		switch kind {
		case kEcho:
			ctx.Reply(mkPayloadRaw(cd, kRecord, seq, body))
		case kErrRegistered:
			ctx.Reply(errApp)
		case kErrPlain:
			ctx.Reply(errors.New("plain failure"))
		}
	}
}

func mkPayloadRaw(codec bool, kind int8, seq int64, body []byte) vivid.Message {
	if codec {
		return &CMsg{Kind: kind, Seq: seq, Body: body}
	}
	return &RMsg{Kind: kind, Seq: seq, Body: body}
}

// a request that is never answered times out quickly; one that is answered gets all the patience a loaded
// machine may need (a reply that arrives after the timeout would look like a difference)
func timeoutFor(reply int8) time.Duration {
	if reply == kSilent {
		return 300 * time.Millisecond
	}
	return 10 * time.Second
}

// expected number of observations of one operation (only used to know when a step has settled)
func expected(o Op, watchers map[string]bool) int {
	switch o.Op {
	case "tell", "once":
		return 1
	case "ask":
		return 2
	case "ping":
		return 1
	case "watch", "unwatch":
		return 1 // the watcher's ping after it
	case "pipe", "futurepipe":
		return 1 + len(o.Fwd)
	case "kill":
		n := 2 // OnKill and OnKilled(self) at the target
		for _, w := range watchers {
			if w {
				n++
			}
		}
		return n
	}
	return 0
}

type verdict struct{ sig, detail string }

var caseSeq int

// execute runs the script under the placement and returns the record; settled=false when a step did not
// produce the expected number of observations within the patience budget.
func execute(c Case, A, B *rlab.Node, place map[string]string, tag string) (map[string][]string, bool, string) {
	r := &run{rec: &record{log: map[string][]string{}}, roles: map[string]vivid.ActorRef{}, where: map[string]string{"X": "A", "S": "A"},
		addr: map[string]string{"A": A.Addr, "B": B.Addr}, names: map[string]string{}}
	for role, w := range place {
		r.where[role] = w
	}
	node := map[string]*rlab.Node{"A": A, "B": B}
	xName := "x-" + tag
	for _, role := range []string{"X", "T", "F1", "F2", "W"} {
		name := strings.ToLower(role) + "-" + tag
		if role == "W" && r.where["W"] == "B" {
			name = xName // same path as X, on the other system
		}
		if _, err := node[r.where[role]].Sys.ActorOf(&probe{role: role, r: r}, vivid.WithActorName(name)); err != nil {
			return nil, false, "spawn " + role + ": " + err.Error()
		}
		r.names[role] = "/" + name
		ref, err := A.Sys.CreateRef(r.addr[r.where[role]], "/"+name)
		if err != nil {
			return nil, false, "ref of " + role + ": " + err.Error()
		}
		r.roles[role] = ref
	}
	r.names["S"] = "/"
	// refs as seen from W's system
	refFrom := func(sys string, role string) vivid.ActorRef {
		ref, err := node[sys].Sys.CreateRef(r.addr[r.where[role]], r.names[role])
		if err != nil {
			panic(err)
		}
		return ref
	}
	inActor := func(role string, f func(ctx vivid.ActorContext)) {
		n := node[r.where[role]]
		local, _ := n.Sys.CreateRef(n.Addr, r.names[role])
		n.Sys.Tell(local, &do{f})
	}
	watchers := map[string]bool{}
	want := 0
	settled := true
	seq := int64(0)
	for _, o := range c.Ops {
		seq++
		T := r.roles["T"]
		msg := mkPayload(o.Codec, o.Reply, seq, o.Size)
		var fwd vivid.ActorRefs
		for _, f := range o.Fwd {
			fwd = append(fwd, r.roles[f])
		}
		byCtx := func(f func(ctx vivid.ActorContext)) {
			if o.By == "S" {
				f(A.Sys)
				return
			}
			inActor(o.By, f)
		}
		switch o.Op {
		case "tell":
			byCtx(func(ctx vivid.ActorContext) { ctx.Tell(T, mkPayload(o.Codec, kRecord, seq, o.Size)) })
		case "ask":
			by := o.By
			byCtx(func(ctx vivid.ActorContext) {
				f := ctx.Ask(T, msg, timeoutFor(o.Reply))
				go func() {
					m, err := f.Result()
					r.rec.add(by, "ask result %s, %s", msgSummary(m), errClass(err))
				}()
			})
		case "ping":
			by := o.By
			byCtx(func(ctx vivid.ActorContext) {
				pong, err := ctx.Ping(T, 10*time.Second)
				r.rec.add(by, "ping: pong %v, %s", pong != nil, errClass(err))
			})
		case "watch", "unwatch":
			by, op := o.By, o.Op
			target := refFrom(r.where[by], "T")
			inActor(by, func(ctx vivid.ActorContext) {
				if op == "watch" {
					ctx.Watch(target)
				} else {
					ctx.Unwatch(target)
				}
				// same ordered channel as the Watch: once the pong is back the target has processed it
				pong, err := ctx.Ping(target, 10*time.Second)
				r.rec.add(by, "%s, then ping: pong %v, %s", op, pong != nil, errClass(err))
			})
			watchers[by] = op == "watch"
		case "pipe":
			byCtx(func(ctx vivid.ActorContext) { ctx.PipeTo(T, msg, fwd, timeoutFor(o.Reply)) })
		case "futurepipe":
			byCtx(func(ctx vivid.ActorContext) { _ = ctx.Ask(T, msg, timeoutFor(o.Reply)).PipeTo(fwd) })
		case "once":
			byCtx(func(ctx vivid.ActorContext) {
				_ = ctx.Scheduler().Once(T, 30*time.Millisecond, mkPayload(o.Codec, kRecord, seq, o.Size))
			})
		case "kill":
			byCtx(func(ctx vivid.ActorContext) { ctx.Kill(T, o.Poison, o.Reason) })
		case "badtell":
			// always towards the other system, in both runs: messages that cannot be encoded, from several goroutines
			ghost, _ := A.Sys.CreateRef(B.Addr, "/verif-nobody")
			var wg sync.WaitGroup
			for k := 0; k < 8; k++ {
				wg.Add(1)
				go func() { defer wg.Done(); A.Sys.Tell(ghost, &BadMsg{Count: 1}) }()
			}
			wg.Wait()
		}
		want += expected(o, watchers)
		if !rlab.WaitUntil(12*time.Second, func() bool { return r.rec.count() >= want }) {
			settled = false
		}
	}
	// late or surplus observations
	time.Sleep(150 * time.Millisecond)
	out := r.rec.copy()
	// clean up the probes that are still alive (not part of the record)
	for _, role := range []string{"X", "T", "F1", "F2", "W"} {
		node[r.where[role]].Sys.Kill(refFrom(r.where[role], role), false, "case over")
	}
	return out, settled, ""
}

func fmtLog(l map[string][]string) string {
	var roles []string
	for k := range l {
		roles = append(roles, k)
	}
	sort.Strings(roles)
	var sb strings.Builder
	for _, k := range roles {
		fmt.Fprintf(&sb, "\n    %s: %s", k, strings.Join(l[k], " | "))
	}
	return sb.String()
}

var (
	labMu sync.Mutex
	labA  *rlab.Node
	labB  *rlab.Node
	labCd bool
	labN  int
)

// lab returns two running systems (restarted every 25 cases and whenever the Codec setting changes).
func lab(withCodec bool) (*rlab.Node, *rlab.Node, error) {
	if labA != nil && (labCd != withCodec || labN >= 25) {
		closeLab()
	}
	if labA == nil {
		var cd vivid.Codec
		if withCodec {
			cd = jsonCodec{}
		}
		a := fmt.Sprintf("127.0.0.1:%d", rlab.FreePort())
		b := fmt.Sprintf("127.0.0.1:%d", rlab.FreePort())
		var err error
		if labA, err = rlab.StartNode(rlab.NodeOpt{Bind: a, Advertise: a, Codec: cd, ReconnectLimit: -1}); err != nil {
			labA = nil
			return nil, nil, err
		}
		if labB, err = rlab.StartNode(rlab.NodeOpt{Bind: b, Advertise: b, Codec: cd, ReconnectLimit: -1}); err != nil {
			labA.Stop()
			labA, labB = nil, nil
			return nil, nil, err
		}
		labCd, labN = withCodec, 0
	}
	labN++
	return labA, labB, nil
}

func closeLab() {
	if labA != nil {
		labA.Stop()
		labB.Stop()
		labA, labB = nil, nil
	}
}

func runCase(c Case) (vs []verdict, inconclusive string, nontrivial bool, labels []string) {
	labMu.Lock()
	defer labMu.Unlock()
	A, B, err := lab(c.WithCodec)
	if err != nil {
		return nil, "lab did not start: " + err.Error(), false, nil
	}
	evA0, evB0 := A.Events.Snapshot(), B.Events.Snapshot()
	caseSeq++
	allLocal := map[string]string{"T": "A", "F1": "A", "F2": "A", "W": "A"}
	local, settledLocal, prob := execute(c, A, B, allLocal, fmt.Sprintf("%d-l", caseSeq))
	if prob != "" {
		closeLab()
		return nil, prob, false, nil
	}
	if !settledLocal {
		closeLab()
		return nil, "the all-local run did not produce the number of observations the expectation table predicts: " + fmtLog(local) + " case " + c.JSON(), false, nil
	}
	placed, _, prob := execute(c, A, B, c.Place, fmt.Sprintf("%d-p", caseSeq))
	if prob != "" {
		closeLab()
		return nil, prob, false, nil
	}
	evA1, evB1 := A.Events.Snapshot(), B.Events.Snapshot()
	remoteRoles := 0
	for _, w := range c.Place {
		if w == "B" {
			remoteRoles++
		}
	}
	// ---- the differential
	roles := map[string]bool{}
	for k := range local {
		roles[k] = true
	}
	for k := range placed {
		roles[k] = true
	}
	var names []string
	for k := range roles {
		names = append(names, k)
	}
	sort.Strings(names)
	for _, role := range names {
		l, p := local[role], placed[role]
		if strings.Join(l, "\n") == strings.Join(p, "\n") {
			continue
		}
		// which operation's effect differs: name the clause by the first differing observation
		i := 0
		for i < len(l) && i < len(p) && l[i] == p[i] {
			i++
		}
		a, b := "(nothing)", "(nothing)"
		if i < len(l) {
			a = l[i]
		}
		if i < len(p) {
			b = p[i]
		}
		clause := clauseOf(a)
		if a == "(nothing)" {
			clause = clauseOf(b)
		}
		vs = append(vs, verdict{"C15/differs|" + clause, fmt.Sprintf("role %s (on system %s) observed, with every role local: %s; with the placement %v: %s\n  all-local record:%s\n  placed record:%s", role, whereOf(c, role), a, c.Place, b, fmtLog(local), fmtLog(placed))})
		break
	}
	if d := evA1.DecodeFail - evA0.DecodeFail + evB1.DecodeFail - evB0.DecodeFail; d > 0 {
		vs = append(vs, verdict{"C15/decode-failure", fmt.Sprintf("%d RemotingMessageDecodeFailedEvent while running the script%s", d, fmtLog(placed))})
	}
	nontrivial = remoteRoles > 0
	labels = []string{fmt.Sprintf("remote-roles:%d", remoteRoles), fmt.Sprintf("codec:%v", c.WithCodec)}
	seen := map[string]bool{}
	for _, o := range c.Ops {
		k := "op:" + o.Op
		if o.Op == "ask" || o.Op == "pipe" || o.Op == "futurepipe" {
			k += fmt.Sprintf("/reply%d", o.Reply)
		}
		if !seen[k] {
			seen[k] = true
			labels = append(labels, k)
		}
	}
	if c.Place["W"] == "B" {
		labels = append(labels, "second-watcher-with-the-operator's-path")
	}
	sort.Strings(labels)
	return
}

func whereOf(c Case, role string) string {
	if w, ok := c.Place[role]; ok {
		return w
	}
	return "A"
}

func clauseOf(obs string) string {
	switch {
	case strings.HasPrefix(obs, "OnKilled"):
		return "watch-notification"
	case strings.HasPrefix(obs, "OnKill("):
		return "kill"
	case strings.HasPrefix(obs, "PipeResult"):
		return "pipe-result"
	case strings.HasPrefix(obs, "ask result"):
		return "ask-reply"
	case strings.HasPrefix(obs, "ping"):
		return "ping"
	case strings.HasPrefix(obs, "watch") || strings.HasPrefix(obs, "unwatch"):
		return "watch-ping"
	case strings.HasPrefix(obs, "received"):
		return "delivery"
	}
	return "other"
}

func check(fatalf func(string, ...any), c Case) {
	vt.SetCase(c)
	vs, inc, nt, labels := runCase(c)
	if inc != "" {
		vstat.Note("inconclusive case (not counted): " + inc)
		vstat.Add("inconclusive_cases", 1)
		return
	}
	vstat.Case(vstat.Hash(c.JSON()), nt, labels, func() any { return c })
	for _, v := range vs {
		if vstat.Fail(v.sig, v.detail, c) {
			continue
		}
		vstat.FailFast(v.sig, strings.ReplaceAll(v.detail, "\n", " ")+" :: case "+c.JSON())
		fatalf("VERIF-FAIL sig=%s :: %s :: case %s", v.sig, strings.ReplaceAll(v.detail, "\n", " "), c.JSON())
	}
}

func TestC15Transparency(t *testing.T) {
	defer closeLab()
	rapid.Check(t, func(rt *rapid.T) { check(rt.Fatalf, genCase(rt)) })
}

func TestReplay(t *testing.T) {
	p := os.Getenv("VERIF_REPLAY_CASE")
	if p == "" {
		t.Skip("no VERIF_REPLAY_CASE")
	}
	b, err := os.ReadFile(p)
	if err != nil {
		t.Fatal(err)
	}
	var c Case
	var hr struct {
		Case *Case `json:"case"`
	}
	if json.Unmarshal(b, &hr) == nil && hr.Case != nil && len(hr.Case.Ops) > 0 {
		c = *hr.Case
	} else if err := json.Unmarshal(b, &c); err != nil {
		t.Fatal(err)
	}
	defer closeLab()
	check(t.Fatalf, c)
}
