// C06 — killing an actor terminates its whole subtree, children first, once
// each; parent and watchers get exactly one OnKilled; the path, the
// subscriptions and the scheduled jobs are released.
package c06

import (
	"encoding/json"
	"fmt"
	"os"
	"sort"
	"strings"
	"testing"
	"time"

	"github.com/kercylan98/vivid/verif/internal/vstat"
	"github.com/kercylan98/vivid/verif/internal/vt"
	"github.com/kercylan98/vivid/verif/internal/world"
	"pgregory.net/rapid"
)

func TestMain(m *testing.M) {
	vt.StartWatchdog(30 * time.Second)
	vstat.Main(m.Run)
}

type Op struct {
	Kind   string `json:"kind"` // watch | unwatch | sub | job | kill | spawnin | settle | unsubone
	Actor  string `json:"actor,omitempty"`
	Target string `json:"target,omitempty"`
	Poison bool   `json:"poison,omitempty"`
	From   string `json:"from,omitempty"` // kill issued by this actor ("" = outside)
	Ev     string `json:"ev,omitempty"`
	Child  string `json:"child,omitempty"`
	Via    string `json:"via,omitempty"`
}

type Case struct {
	Tree []world.Node `json:"tree"`
	Ops  []Op         `json:"ops"`
	Slow []string     `json:"slow,omitempty"` // gates of actors whose OnKill blocks, opened in this order after the script
}

func (c Case) JSON() string { b, _ := json.Marshal(c); return string(b) }

func (c Case) Describe() string {
	var b strings.Builder
	for _, n := range c.Tree {
		b.WriteString(n.Name())
		if n.Spec.FailOnKill {
			b.WriteString("+failOnKill")
		}
		if n.Spec.FailOnOwnKilled {
			b.WriteString("+failOnOwnKilled")
		}
		if n.Spec.FailOnChildKilled > 0 {
			b.WriteString("+failOnChildKilled")
		}
		b.WriteString(" ")
	}
	b.WriteString("| ")
	for _, o := range c.Ops {
		switch o.Kind {
		case "kill":
			fmt.Fprintf(&b, "kill(%s by %q poison=%v via=%s) ", o.Target, o.From, o.Poison, o.Via)
		case "settle":
			b.WriteString("settle ")
		case "advance":
			b.WriteString("advance(1.5s) ")
		case "spawnin":
			fmt.Fprintf(&b, "%s.spawn(%s) ", o.Actor, o.Child)
		default:
			fmt.Fprintf(&b, "%s.%s(%s%s) ", o.Actor, o.Kind, o.Target, o.Ev)
		}
	}
	return b.String()
}

func genCase(t *rapid.T) Case {
	var c Case
	n := rapid.IntRange(2, 8).Draw(t, "nActors")
	letters := "abcdefgh"
	var names []string
	depth := map[string]int{}
	for i := 0; i < n; i++ {
		parent := ""
		if i > 0 && rapid.IntRange(0, 5).Draw(t, "nested") > 0 {
			var cands []string
			for _, x := range names {
				if depth[x] < 3 {
					cands = append(cands, x)
				}
			}
			parent = rapid.SampledFrom(cands).Draw(t, "parent")
		}
		sp := world.Spec{Name: string(letters[i]), Provider: rapid.Bool().Draw(t, "prov")}
		sp.RespawnKilled = rapid.IntRange(0, 3).Draw(t, "respawn") == 0
		if rapid.IntRange(0, 4).Draw(t, "lateSpawn") == 0 {
			sp.LateSpawn = rapid.IntRange(1, 2).Draw(t, "lateSpawns")
		}
		switch rapid.IntRange(0, 9).Draw(t, "lifeFail") {
		case 0:
			sp.FailOnKill = true
		case 1:
			sp.FailOnOwnKilled = true
		case 2, 3:
			// "a child died: crash" - but only once the actor is itself being terminated, so that no supervision
			// is involved on a correct tree
			sp.FailDyingOnChild = rapid.IntRange(1, 2).Draw(t, "failDying")
		}
		// own strategies are never consulted on a correct tree (nothing fails while running): they only matter
		// if a failure during termination is wrongly handed to the supervisor
		if rapid.IntRange(0, 2).Draw(t, "ownStrategy") == 0 {
			sp.Strategy = rapid.SampledFrom([]string{"one", "all"}).Draw(t, "strategy")
			sp.Decisions = []string{rapid.SampledFrom([]string{"restart", "restart", "grestart", "resume"}).Draw(t, "decision")}
		}
		// an actor that needs a while to shut down: its OnKill handler blocks until the script lets it go
		if rapid.IntRange(0, 4).Draw(t, "slow") == 0 {
			sp.GateKill = "slow-" + sp.Name
			c.Slow = append(c.Slow, sp.GateKill)
		}
		nd := world.Node{Parent: parent, Spec: sp}
		c.Tree = append(c.Tree, nd)
		names = append(names, nd.Name())
		if parent != "" {
			depth[nd.Name()] = depth[parent] + 1
		}
	}
	pick := func(l string) string { return rapid.SampledFrom(names).Draw(t, l) }
	// set-up: watchers, subscriptions, jobs
	ns := rapid.IntRange(0, 8).Draw(t, "nSetup")
	for i := 0; i < ns; i++ {
		k := rapid.SampledFrom([]string{"watch", "watch", "watch", "unwatch", "sub", "sub", "job", "unsubone", "jobonce"}).Draw(t, "setup")
		o := Op{Kind: k, Actor: pick("actor")}
		switch k {
		case "watch", "unwatch":
			o.Target = pick("target")
		case "sub", "unsubone":
			o.Ev = rapid.SampledFrom([]string{"A", "B", "C"}).Draw(t, "ev")
		}
		c.Ops = append(c.Ops, o)
	}
	c.Ops = append(c.Ops, Op{Kind: "settle"})
	if rapid.IntRange(0, 2).Draw(t, "timePasses") == 0 {
		// one-shot jobs have fired and periodic ones have ticked by the time of the kills
		c.Ops = append(c.Ops, Op{Kind: "advance"})
	}
	nk := rapid.IntRange(1, 4).Draw(t, "nKills")
	for i := 0; i < nk; i++ {
		o := Op{Kind: "kill", Target: pick("victim"), Poison: rapid.Bool().Draw(t, "poison"), Via: rapid.SampledFrom([]string{"", "", "clone", "parse"}).Draw(t, "via")}
		if rapid.IntRange(0, 2).Draw(t, "byActor") == 0 {
			o.From = pick("killer")
		}
		if rapid.IntRange(0, 3).Draw(t, "spawnRace") == 0 {
			c.Ops = append(c.Ops, Op{Kind: "spawnin", Actor: o.Target, Child: rapid.SampledFrom([]string{"x", "y"}).Draw(t, "child")})
		}
		c.Ops = append(c.Ops, o)
		switch rapid.IntRange(0, 3).Draw(t, "after") {
		case 0:
			c.Ops = append(c.Ops, Op{Kind: "settle"})
		case 1:
			c.Ops = append(c.Ops, Op{Kind: "spawnin", Actor: o.Target, Child: rapid.SampledFrom([]string{"x", "y"}).Draw(t, "child")})
		case 2:
			// a late watcher: racing the termination
			c.Ops = append(c.Ops, Op{Kind: "watch", Actor: pick("lateWatcher"), Target: o.Target})
		}
	}
	return c
}

type verdict struct{ sig, detail string }

func isUnder(p, anc string) bool { return strings.HasPrefix(p, anc+"/") }

func run(t *testing.T, c Case) (v *verdict, nontrivial bool, labels []string) {
	lab := map[string]bool{}
	res := vt.Run(t, func() {
		w := world.New(world.Options{})
		defer w.Close()
		for _, nd := range c.Tree {
			if nd.Parent == "" {
				_, _ = w.Spawn(nd.Spec)
			} else {
				sp := nd.Spec
				w.Tell(nd.Parent, "", 0, []world.Step{{Op: "spawn", Spec: &sp}})
			}
			vt.Settle()
		}
		jobID := 7000
		killsOf := map[string]int{}
		for _, o := range c.Ops {
			switch o.Kind {
			case "settle":
				vt.Settle()
			case "watch":
				w.Tell(o.Actor, "", 0, []world.Step{{Op: "watch", To: o.Target}})
			case "unwatch":
				w.Tell(o.Actor, "", 0, []world.Step{{Op: "unwatch", To: o.Target}})
			case "sub":
				w.Tell(o.Actor, "", 0, []world.Step{{Op: "sub", S: o.Ev}})
			case "unsubone":
				w.Tell(o.Actor, "", 0, []world.Step{{Op: "unsub", S: o.Ev}})
			case "job":
				jobID++
				w.Tell(o.Actor, "", 0, []world.Step{{Op: "loop", To: o.Actor, D: int64(time.Second), ID: jobID, S: fmt.Sprintf("j%d", jobID)}})
			case "jobonce":
				jobID++
				w.Tell(o.Actor, "", 0, []world.Step{{Op: "once", To: o.Actor, D: int64(100 * time.Millisecond), ID: jobID, S: fmt.Sprintf("j%d", jobID)}})
			case "advance":
				vt.Advance(1500 * time.Millisecond)
				lab["time-passes-before-the-kills"] = true
			case "spawnin":
				sp := world.Spec{Name: o.Child}
				w.Tell(o.Actor, "", 0, []world.Step{{Op: "spawn", Spec: &sp}})
			case "kill":
				killsOf[o.Target]++
				if o.From == "" {
					w.Kill(o.Target, o.Via, o.Poison)
				} else {
					w.Tell(o.From, "", 0, []world.Step{{Op: "kill", To: o.Target, Via: o.Via, B: o.Poison}})
				}
			}
		}
		vt.Settle()
		// the slow actors finish their OnKill handlers, one settled step at a time
		for _, g := range c.Slow {
			w.Open(g)
			vt.Settle()
		}
		if len(c.Slow) > 0 {
			lab["slow-terminators"] = true
		}
		// let jobs of survivors fire a few times; jobs of victims must stay silent
		trBefore, _ := w.Snapshot()
		killedAtIdx := len(trBefore)
		vt.Advance(5 * time.Second)
		// publish every event type once: terminated subscribers must not get it (neither as a delivery nor as a dead letter)
		for _, ev := range []string{"A", "B", "C"} {
			w.Sys.EventStream().Publish(w.Sys, evValue(ev))
		}
		vt.Settle()
		tr, obs := w.Snapshot()
		per := world.PerActor(tr)
		if w.Overwork {
			v = &verdict{"C06/unbounded-work", "more than 2e6 deliveries"}
			return
		}
		// ---- a parent that respawns a child under the same name from its OnKilled handler must succeed
		for _, cl := range w.CallsCopy() {
			if strings.HasPrefix(cl.Op, "respawn:") {
				lab["respawn-in-onkilled"] = true
				if cl.Err != "" && cl.Err != "ActorDeaded" {
					v = &verdict{"C06/released|name-reuse", fmt.Sprintf("%s was told OnKilled for its child %s and respawned it under the same name at once: %s", cl.Who, strings.TrimPrefix(cl.Op, "respawn:"), cl.Err)}
					return
				}
			}
		}
		// ---- who was launched, who terminated (own OnKilled seen), when
		launched, ownKilled := map[string]int{}, map[string]int{}
		for p, evs := range per {
			for _, e := range evs {
				if e.Kind == "launch" {
					launched[p]++
				}
				if e.Kind == "killed:"+p {
					ownKilled[p]++
				}
			}
		}
		killedEvIdx := map[string][]int{}
		for i, o := range obs {
			if o.Type == "Killed" {
				killedEvIdx[o.Actor] = append(killedEvIdx[o.Actor], i)
			}
		}
		// victims: every actor a kill was aimed at while it existed
		victims := map[string]bool{}
		killsOf = map[string]int{}
		for _, cl := range w.CallsCopy() {
			if cl.Op == "kill" { // kills that were really issued (a killer that was dead by then issued none)
				killsOf[strings.TrimPrefix(cl.Note, "/")]++
				if launched[cl.Note] > 0 {
					victims[cl.Note] = true
				}
			}
		}
		// a path that had several lives (respawned under the same name) mixes the histories of
		// different actors: such paths and everything below them are only covered by the
		// respawn clause above
		multi := func(p string) bool {
			for q := range launched {
				if launched[q]-restartsOf(obs, q) > 1 && (p == q || isUnder(p, q)) {
					return true
				}
			}
			return false
		}
		var all []string
		for p := range launched {
			if p != "/zz-observer" && !multi(p) {
				all = append(all, p)
			}
		}
		sort.Strings(all)
		ctx := func(p string) string {
			return fmt.Sprintf("trace of %s: %s ; killed events in order: %s", p, world.Fmt(tailN(per[p], 12)), killedOrder(obs))
		}
		for _, p := range all {
			doomed := victims[p]
			for vict := range victims {
				if isUnder(p, vict) {
					doomed = true
				}
			}
			n := len(killedEvIdx[p])
			switch {
			case doomed && launched[p] > 0 && ownKilled[p] == 0:
				v = &verdict{"C06/subtree-terminated", fmt.Sprintf("%s is (below) a killed actor but never terminated; %s", p, ctx(p))}
			case doomed && n != ownKilled[p]-restartsOf(obs, p):
				v = &verdict{"C06/killed-event|count", fmt.Sprintf("%s: %d ActorKilledEvent for %d terminations; %s", p, n, ownKilled[p]-restartsOf(obs, p), ctx(p))}
			case !doomed && (n > 0 || ownKilled[p] > 0):
				v = &verdict{"C06/survivor-terminated", fmt.Sprintf("%s is not below any killed actor but terminated; %s", p, ctx(p))}
			}
			if v != nil {
				return
			}
			if doomed {
				lab["victims"] = true
			}
		}
		// ---- children first
		for _, p := range all {
			if len(killedEvIdx[p]) == 0 {
				continue
			}
			mine := killedEvIdx[p][len(killedEvIdx[p])-1]
			for _, d := range all {
				if isUnder(d, p) && len(killedEvIdx[d]) > 0 {
					if killedEvIdx[d][len(killedEvIdx[d])-1] > mine {
						v = &verdict{"C06/children-first", fmt.Sprintf("%s was reported terminated before its descendant %s; order: %s", p, d, killedOrder(obs))}
						return
					}
					nontrivial = true
				}
			}
		}
		// ---- notifications: parent + watchers, exactly once
		watchers := map[string]map[string]bool{} // target -> watcher -> registered
		for _, o := range obs {
			switch o.Type {
			case "Watched":
				if watchers[o.Actor] == nil {
					watchers[o.Actor] = map[string]bool{}
				}
				watchers[o.Actor][o.Note] = true
			case "Unwatched":
				if watchers[o.Actor] != nil {
					delete(watchers[o.Actor], o.Note)
				}
			}
		}
		for _, p := range all {
			if ownKilled[p] == 0 {
				continue
			}
			expect := map[string]bool{}
			parent := p[:strings.LastIndex(p, "/")]
			if parent != "" {
				expect[parent] = true
			}
			for wt := range watchers[p] {
				expect[wt] = true
			}
			for wt := range expect {
				got := 0
				for _, e := range per[wt] {
					if e.Kind == "killed:"+p {
						got++
					}
				}
				// a watcher that terminated before the target cannot be notified; one that terminated
				// at about the same time may or may not have been
				if ownKilled[wt] > 0 {
					if got > ownKilled[p] {
						v = &verdict{"C06/notified-once|duplicate", fmt.Sprintf("%s received %d OnKilled for %s", wt, got, p)}
						return
					}
					continue
				}
				if got != ownKilled[p] {
					v = &verdict{"C06/notified-once", fmt.Sprintf("%s (parent or registered watcher of %s) received %d OnKilled for it, expected %d; watcher trace: %s ; target %s", wt, p, got, ownKilled[p], world.Fmt(tailN(per[wt], 10)), ctx(p))}
					return
				}
				if wt != parent {
					lab["watcher-notified"] = true
					nontrivial = true
				}
			}
			// nobody else
			for _, o := range all {
				if expect[o] || o == p {
					continue
				}
				for _, e := range per[o] {
					if e.Kind == "killed:"+p {
						v = &verdict{"C06/notified-once|stranger", fmt.Sprintf("%s received OnKilled for %s although it is neither its parent nor a registered watcher", o, p)}
						return
					}
				}
			}
		}
		if n := 0; true {
			for _, k := range killsOf {
				if k > 1 {
					n++
				}
			}
			if n > 0 {
				lab["repeated-kill"] = true
				nontrivial = true
			}
		}
		// ---- released: path, subscriptions, jobs
		byType, byPath := w.Sys.VerifEventStream()
		for _, p := range all {
			if ownKilled[p] == 0 || aliveNow(per[p], p) {
				continue
			}
			if _, err := w.Sys.FindActor("localhost" + p); err == nil {
				v = &verdict{"C06/released|find-actor", fmt.Sprintf("FindActor still resolves the terminated %s", p)}
				return
			}
			if len(byType[p]) > 0 || len(byPath[p]) > 0 {
				v = &verdict{"C06/released|subscriptions", fmt.Sprintf("the event stream still holds entries for the terminated %s: by type %v, by subscriber %v", p, byType[p], byPath[p])}
				return
			}
			for _, e := range tr[killedAtIdx:] {
				if e.Actor == p && (e.Kind == "msg" || strings.HasPrefix(e.Kind, "evt:")) {
					v = &verdict{"C06/released|delivery-after-termination", fmt.Sprintf("%s received %s after it terminated", p, e.String())}
					return
				}
			}
		}
		for _, o := range obs {
			if o.Type == "DeadLetter" && o.Note == "scheduled" {
				v = &verdict{"C06/released|job-fired", fmt.Sprintf("a scheduled job of a terminated actor fired (dead letter for scheduled message %d to %s)", o.MsgID, o.Actor)}
				return
			}
			if o.Type == "DeadLetter" && strings.Contains(o.Note, "world.Ev") {
				v = &verdict{"C06/released|subscriptions", fmt.Sprintf("an event published after the termination was sent to the terminated subscriber %s (dead letter %s)", o.Actor, o.Note)}
				return
			}
		}
		// ---- the name can be reused by the parent
		for _, p := range all {
			if ownKilled[p] == 0 || aliveNow(per[p], p) {
				continue
			}
			parent := p[:strings.LastIndex(p, "/")]
			if parent != "" && !aliveNow(per[parent], parent) {
				continue
			}
			name := p[strings.LastIndex(p, "/")+1:]
			before := len(w.CallsCopy())
			sp := world.Spec{Name: name}
			if parent == "" {
				_, _ = w.Spawn(sp)
			} else {
				w.Tell(strings.TrimPrefix(parent, "/"), "", 0, []world.Step{{Op: "spawn", Spec: &sp}})
			}
			vt.Settle()
			calls := w.CallsCopy()[before:]
			for _, cl := range calls {
				if cl.Op == "spawn:"+name && cl.Err != "" {
					v = &verdict{"C06/released|name-reuse", fmt.Sprintf("the parent cannot reuse the name of the terminated %s: %s", p, cl.Err)}
					return
				}
			}
			lab["name-reused"] = true
			break // one reuse per case is enough (the new actor changes the tree)
		}
	})
	if v == nil && res.Panic != nil {
		if res.Deadlock {
			v = &verdict{"C06/bubble-deadlock", fmt.Sprintf("%v", res.Panic)}
		} else {
			v = &verdict{"C06/harness-panic", fmt.Sprintf("%v\n%s", res.Panic, res.Stack)}
		}
	}
	for l := range lab {
		labels = append(labels, l)
	}
	sort.Strings(labels)
	return
}

func evValue(s string) any {
	switch s {
	case "A":
		return world.EvA{ID: 1}
	case "B":
		return &world.EvB{ID: 1}
	}
	return world.EvC{ID: 1}
}

func restartsOf(obs []world.Obs, p string) int {
	n := 0
	for _, o := range obs {
		if o.Type == "Restarted" && o.Actor == p {
			n++
		}
	}
	return n
}

func aliveNow(evs []world.Ev, p string) bool {
	a := false
	for _, e := range evs {
		if e.Kind == "launch" {
			a = true
		}
		if e.Kind == "killed:"+p {
			a = false
		}
	}
	return a
}

func killedOrder(obs []world.Obs) string {
	var s []string
	for _, o := range obs {
		if o.Type == "Killed" {
			s = append(s, o.Actor)
		}
	}
	return strings.Join(s, " ")
}

func tailN(e []world.Ev, n int) []world.Ev {
	if len(e) > n {
		return e[len(e)-n:]
	}
	return e
}

func check(t *testing.T, fatalf func(string, ...any), c Case) {
	vt.SetCase(c)
	v, nt, labels := run(t, c)
	vstat.Case(vstat.Hash(c.JSON()), nt, labels, func() any { return c.Describe() })
	if v != nil {
		if vstat.Fail(v.sig, v.detail, c) {
			return
		}
		fatalf("VERIF-FAIL sig=%s :: %s\ncase: %s\njson=%s", v.sig, v.detail, c.Describe(), c.JSON())
	}
}

// TestC06RespawnStorm: "once terminated its path is released (the name can be reused by the
// parent)". A supervisor that respawns a named child from its OnKilled handler races the
// child's own clean-up; many kill/respawn rounds per case make that window likely.
func TestC06RespawnStorm(t *testing.T) {
	rapid.Check(t, func(rt *rapid.T) {
		rounds := rapid.IntRange(50, 400).Draw(rt, "rounds")
		poison := rapid.Bool().Draw(rt, "poison")
		subs := rapid.IntRange(0, 4).Draw(rt, "subscribers") // more subscribers of ActorKilledEvent = a longer clean-up
		depth := rapid.IntRange(0, 2).Draw(rt, "grandchildren")
		vt.SetCase(map[string]any{"test": "TestC06RespawnStorm", "rapid_seed": os.Getenv("VERIF_RSEED")})
		var verd *verdict
		failures, respawns := 0, 0
		res := vt.Run(t, func() {
			w := world.New(world.Options{})
			defer w.Close()
			_, _ = w.Spawn(world.Spec{Name: "p", RespawnKilled: true, RespawnAlways: true})
			child := world.Spec{Name: "c"}
			w.Tell("p", "", 0, []world.Step{{Op: "spawn", Spec: &child}})
			for i := 0; i < subs; i++ {
				_, _ = w.Spawn(world.Spec{Name: fmt.Sprintf("s%d", i)})
			}
			vt.Settle()
			for r := 0; r < rounds; r++ {
				for g := 0; g < depth; g++ {
					gc := world.Spec{Name: fmt.Sprintf("g%d", g)}
					w.Tell("p/c", "parse", 0, []world.Step{{Op: "spawn", Spec: &gc}})
				}
				w.Kill("p/c", "parse", poison)
				vt.Settle()
			}
			for _, cl := range w.CallsCopy() {
				if strings.HasPrefix(cl.Op, "respawn:") {
					respawns++
					if cl.Err != "" {
						failures++
						if verd == nil {
							verd = &verdict{"C06/released|name-reuse", fmt.Sprintf("the parent was told OnKilled for its child and respawned it under the same name at once: %s (round ~%d of %d, poison=%v)", cl.Err, respawns, rounds, poison)}
						}
					}
				}
			}
			if verd == nil && respawns != rounds {
				verd = &verdict{"C06/notified-once", fmt.Sprintf("%d kills of the child, but the parent saw %d OnKilled for it", rounds, respawns)}
			}
		})
		if verd == nil && res.Panic != nil {
			verd = &verdict{"C06/harness-panic", fmt.Sprintf("%v\n%s", res.Panic, res.Stack)}
		}
		vstat.Case(vstat.Hash("storm", rounds, poison, subs, depth), true, []string{"respawn-storm"}, func() any {
			return map[string]any{"rounds": rounds, "poison": poison, "subscribers": subs, "grandchildren": depth}
		})
		vstat.Add("respawns", int64(respawns))
		if verd != nil {
			if vstat.Fail(verd.sig, verd.detail, nil) {
				return
			}
			rt.Fatalf("VERIF-FAIL sig=%s :: %s", verd.sig, verd.detail)
		}
	})
}

// TestC06ReplaceThenKill: a supervisor replaces a named child inside ONE handler - kill it, wait until its
// path is released, spawn the same name - so the successor is registered while the predecessor's OnKilled is
// still queued in the supervisor's mailbox. Later the supervisor (or its parent) is killed: the successor is
// a descendant like any other.
func TestC06ReplaceThenKill(t *testing.T) {
	rapid.Check(t, func(rt *rapid.T) {
		nested := rapid.Bool().Draw(rt, "nested")
		rounds := rapid.IntRange(1, 3).Draw(rt, "rounds")
		poisonChild := rapid.Bool().Draw(rt, "poisonChild")
		poisonTop := rapid.Bool().Draw(rt, "poisonTop")
		kids := rapid.IntRange(0, 2).Draw(rt, "grandchildren")
		sameHandler := rapid.IntRange(0, 3).Draw(rt, "sameHandler") > 0
		killTop := nested && rapid.Bool().Draw(rt, "killGrandparent")
		vt.SetCase(map[string]any{"test": "TestC06ReplaceThenKill", "rapid_seed": os.Getenv("VERIF_RSEED"), "nested": nested, "rounds": rounds, "poisonChild": poisonChild, "poisonTop": poisonTop, "grandchildren": kids, "sameHandler": sameHandler, "killGrandparent": killTop})
		var verd *verdict
		res := vt.Run(t, func() {
			w := world.New(world.Options{})
			defer w.Close()
			p := "p"
			if nested {
				_, _ = w.Spawn(world.Spec{Name: "g"})
				ps := world.Spec{Name: "p"}
				w.Tell("g", "", 0, []world.Step{{Op: "spawn", Spec: &ps}})
				p = "g/p"
			} else {
				_, _ = w.Spawn(world.Spec{Name: "p"})
			}
			vt.Settle()
			child := world.Spec{Name: "c"}
			for k := 0; k < kids; k++ {
				gc := world.Spec{Name: fmt.Sprintf("k%d", k)}
				child.OnLaunch = append(child.OnLaunch, world.Step{Op: "spawn", Spec: &gc})
			}
			w.Tell(p, "", 0, []world.Step{{Op: "spawn", Spec: &child}})
			vt.Settle()
			for r := 0; r < rounds; r++ {
				if sameHandler {
					w.Tell(p, "", 0, []world.Step{{Op: "kill", To: p + "/c", Via: "parse", B: poisonChild}, {Op: "waitgone", To: p + "/c", Via: "parse"}, {Op: "spawn", Spec: &child}})
					// the handler polls in steps of 1 ms of virtual time
					vt.Advance(50 * time.Millisecond)
				} else {
					w.Tell(p, "", 0, []world.Step{{Op: "kill", To: p + "/c", Via: "parse", B: poisonChild}})
					vt.Settle()
					w.Tell(p, "", 0, []world.Step{{Op: "spawn", Spec: &child}})
				}
				vt.Settle()
			}
			for _, cl := range w.CallsCopy() {
				if (cl.Op == "spawn:c" || cl.Op == "waitgone") && cl.Err != "" {
					verd = &verdict{"C06/released|name-reuse", fmt.Sprintf("replacing the child inside the supervisor: %s failed: %s", cl.Op, cl.Err)}
					return
				}
			}
			top := p
			if killTop {
				top = "g"
			}
			w.Kill(top, "", poisonTop)
			vt.Settle()
			tr, obs := w.Snapshot()
			per := world.PerActor(tr)
			var left []string
			for _, a := range w.Sys.VerifActors() {
				if a.Path == "/"+top || isUnder(a.Path, "/"+top) {
					left = append(left, a.Path)
				}
			}
			sort.Strings(left)
			if len(left) > 0 {
				verd = &verdict{"C06/subtree-terminated|replaced-child", fmt.Sprintf("%s was killed and everything settled, but %v are still registered (the child was replaced %d times, same handler=%v); killed events in order: %s ; supervisor trace: %s ; child trace: %s ; calls: %v", top, left, rounds, sameHandler, killedOrder(obs), world.Fmt(tailN(per["/"+p], 14)), world.Fmt(tailN(per["/"+p+"/c"], 14)), w.CallsCopy())}
				return
			}
			cp := "/" + p + "/c"
			launches, owns, told := 0, 0, 0
			for _, e := range per[cp] {
				if e.Kind == "launch" {
					launches++
				}
				if e.Kind == "killed:"+cp {
					owns++
				}
			}
			for _, e := range per["/"+p] {
				if e.Kind == "killed:"+cp {
					told++
				}
			}
			if launches != rounds+1 || owns != launches {
				verd = &verdict{"C06/subtree-terminated|replaced-child", fmt.Sprintf("%s had %d lives (expected %d), %d of them terminated; trace: %s", cp, launches, rounds+1, owns, world.Fmt(tailN(per[cp], 14)))}
				return
			}
			if told != launches {
				verd = &verdict{"C06/notified-once", fmt.Sprintf("%s had %d lives, its parent received %d OnKilled for it; parent trace: %s", cp, launches, told, world.Fmt(tailN(per["/"+p], 14)))}
				return
			}
			// children first: the last ActorKilledEvent of the child precedes the one of its parent
			lastC, lastP := -1, -1
			for i, o := range obs {
				if o.Type == "Killed" && o.Actor == cp {
					lastC = i
				}
				if o.Type == "Killed" && o.Actor == "/"+p {
					lastP = i
				}
			}
			if lastC < 0 || lastP < 0 || lastC > lastP {
				verd = &verdict{"C06/children-first", fmt.Sprintf("%s was reported terminated before (or without) its replaced child %s; order: %s", "/"+p, cp, killedOrder(obs))}
			}
		})
		if verd == nil && res.Panic != nil {
			if res.Deadlock {
				verd = &verdict{"C06/bubble-deadlock", fmt.Sprintf("%v", res.Panic)}
			} else {
				verd = &verdict{"C06/harness-panic", fmt.Sprintf("%v\n%s", res.Panic, res.Stack)}
			}
		}
		labels := []string{"replace-then-kill"}
		if sameHandler {
			labels = append(labels, "replaced-inside-one-handler")
		}
		vstat.Case(vstat.Hash("replace", nested, rounds, poisonChild, poisonTop, kids, sameHandler, killTop), sameHandler, labels, func() any {
			return map[string]any{"nested": nested, "rounds": rounds, "poisonChild": poisonChild, "poisonTop": poisonTop, "grandchildren": kids, "sameHandler": sameHandler, "killGrandparent": killTop}
		})
		if verd != nil {
			if vstat.Fail(verd.sig, verd.detail, nil) {
				return
			}
			rt.Fatalf("VERIF-FAIL sig=%s :: %s", verd.sig, verd.detail)
		}
	})
}

func TestC06KillSubtree(t *testing.T) {
	rapid.Check(t, func(rt *rapid.T) { check(t, rt.Fatalf, genCase(rt)) })
}

func TestReplay(t *testing.T) {
	p := os.Getenv("VERIF_REPLAY_CASE")
	if p == "" {
		t.Skip("no VERIF_REPLAY_CASE")
	}
	b, err := os.ReadFile(p)
	if err != nil {
		t.Fatal(err)
	}
	var c Case
	var hr struct {
		Case *Case `json:"case"`
	}
	if json.Unmarshal(b, &hr) == nil && hr.Case != nil && len(hr.Case.Tree) > 0 {
		c = *hr.Case
	} else if err := json.Unmarshal(b, &c); err != nil {
		t.Fatal(err)
	}
	check(t, t.Fatalf, c)
}
