// C14 — remoting under connection faults: what the receiver sees is a
// subsequence of what was sent (never corrupted, duplicated or reordered); a
// message that cannot be written after the configured reconnect attempts is a
// dead letter on the sending side; an undecodable frame does not stop later
// frames; the link recovers; Tell does not block the caller.
package c14

import (
	"encoding/binary"
	"encoding/json"
	"fmt"
	"os"
	"runtime"
	"sort"
	"strconv"
	"strings"
	"testing"
	"time"

	"github.com/kercylan98/vivid"
	"github.com/kercylan98/vivid/internal/mailbox"
	"github.com/kercylan98/vivid/internal/remoting/serialize"
	"github.com/kercylan98/vivid/verif/internal/rlab"
	"github.com/kercylan98/vivid/verif/internal/vstat"
	"github.com/kercylan98/vivid/verif/internal/vt"
	"pgregory.net/rapid"
)

func TestMain(m *testing.M) { vstat.Main(m.Run) }

type Case struct {
	Kind    string `json:"kind"` // cut | refuse | restart | inject-body | inject-length | unreachable
	Frames  int    `json:"frames"`
	Sizes   []int  `json:"sizes"`
	Cut     int64  `json:"cut"`     // cut: byte offset (post-handshake) after which the connection is cut
	Refuse  int    `json:"refuse"`  // refuse: number of connection attempts refused
	Limit   int    `json:"limit"`   // ReconnectLimit
	After   int    `json:"after"`   // messages sent after the fault healed
	Garbage int    `json:"garbage"` // inject-body: length of the undecodable body
	At      int    `json:"at"`      // inject before this frame
	// refuse, second outage (0 = none): after the first outage was survived by retrying and the link has carried
	// traffic again, the connection is dropped and this many connection attempts are refused; 1 failed write +
	// Refuse2 refused attempts stay within the limit, so nothing may be given up
	Refuse2 int `json:"refuse2,omitempty"`
}

func (c Case) JSON() string { b, _ := json.Marshal(c); return string(b) }

type verdict struct{ sig, detail string }

const sender = int32(7)

// frame length on the wire of one data message with a body of n bytes (measured once per process)
var overhead = -1

func frameLen(n int) int { return overhead + n }

func genCase(t *rapid.T) Case {
	c := Case{Kind: rapid.SampledFrom([]string{"cut", "cut", "cut", "cut", "refuse", "refuse", "restart", "inject-body", "inject-body", "inject-badref", "inject-badref", "inject-length"}).Draw(t, "kind")}
	c.Frames = rapid.IntRange(3, 6).Draw(t, "frames")
	for i := 0; i < c.Frames; i++ {
		c.Sizes = append(c.Sizes, rapid.SampledFrom([]int{0, 1, 10, 100, 1000}).Draw(t, "size"))
	}
	// retry settings: 0-3, and negative values (set through the options struct; "less than 1 means no retry")
	c.Limit = rapid.SampledFrom([]int{0, 0, 1, 2, 3, -1, -4}).Draw(t, "limit")
	c.After = rapid.IntRange(1, 4).Draw(t, "after")
	switch c.Kind {
	case "cut":
		total := int64(0)
		var bounds []int64
		for _, s := range c.Sizes {
			total += int64(frameLen(s))
			bounds = append(bounds, total)
		}
		if rapid.Bool().Draw(t, "nearBoundary") {
			b := rapid.SampledFrom(bounds).Draw(t, "boundary")
			c.Cut = b + int64(rapid.IntRange(-4, 4).Draw(t, "delta"))
		} else {
			c.Cut = rapid.Int64Range(0, total).Draw(t, "offset")
		}
		if c.Cut < 0 {
			c.Cut = 0
		}
		if c.Cut > total {
			c.Cut = total
		}
	case "refuse":
		c.Refuse = rapid.IntRange(1, 5).Draw(t, "refuse")
		if rapid.Bool().Draw(t, "secondOutage") {
			// a retry budget that is spent and given back: limits with room for two outages
			c.Limit = rapid.SampledFrom([]int{3, 2, 4}).Draw(t, "limit2")
			c.Refuse = rapid.IntRange(1, c.Limit).Draw(t, "refuse1")
			c.Refuse2 = rapid.IntRange(1, c.Limit-1).Draw(t, "refuse2")
		}
	case "inject-body":
		c.Garbage = rapid.SampledFrom([]int{1, 3, 17, 200, 5000, 4<<20 - 1, 4 << 20, 4 << 20}).Draw(t, "garbage") // the last two: the largest length the receiver accepts
		c.At = rapid.IntRange(0, c.Frames-1).Draw(t, "at")
	case "inject-badref":
		c.Garbage = rapid.IntRange(0, len(badRefs)-1).Draw(t, "variant")
		c.At = rapid.IntRange(0, c.Frames-1).Draw(t, "at")
	case "inject-length":
		c.At = rapid.IntRange(0, c.Frames-1).Draw(t, "at")
	}
	return c
}

// freeRef puts arbitrary addressing on the wire.
type freeRef struct{ addr, path string }

func (r freeRef) GetAddress() string       { return r.addr }
func (r freeRef) GetPath() vivid.ActorPath { return r.path }
func (r freeRef) Equals(o vivid.ActorRef) bool {
	return o != nil && o.GetAddress() == r.addr && o.GetPath() == r.path
}
func (r freeRef) Clone() vivid.ActorRef        { return r }
func (r freeRef) ToActorRefs() vivid.ActorRefs { return vivid.ActorRefs{r} }
func (r freeRef) String() string               { return r.addr + r.path }

// badRefs: frames that are well-formed and decode, but whose envelope cannot be routed. "" = keep the real value.
var badRefs = []struct{ name, sAddr, sPath, rAddr, rPath string }{
	{"empty sender address", "<empty>", "", "", ""},
	{"sender address is not host:port", "::bad::", "", "", ""},
	{"sender path without a leading slash", "", "user/sender", "", ""},
	{"receiver path with blanks", "", "", "", "/no such actor"},
	{"receiver path of no actor", "", "", "", "/nobody-here"},
	{"receiver address is not host:port", "", "", "::bad::", ""},
}

func badRefFrame(variant int, from, to vivid.ActorRef) ([]byte, error) {
	b := badRefs[variant]
	pick := func(v, real string) string {
		switch v {
		case "":
			return real
		case "<empty>":
			return ""
		}
		return v
	}
	sr := freeRef{pick(b.sAddr, from.GetAddress()), pick(b.sPath, from.GetPath())}
	rr := freeRef{pick(b.rAddr, to.GetAddress()), pick(b.rPath, to.GetPath())}
	body, err := serialize.EncodeEnvelopWithRemoting(nil, mailbox.NewEnvelop(false, sr, rr, &rlab.Msg{Sender: 4242, Seq: 1, Kind: rlab.KData, Body: []byte("unroutable")}))
	if err != nil {
		return nil, err
	}
	frame := make([]byte, 4, 4+len(body))
	binary.BigEndian.PutUint32(frame, uint32(len(body)))
	return append(frame, body...), nil
}

func measureOverhead() error {
	pB := rlab.FreePort()
	bindB := fmt.Sprintf("127.0.0.1:%d", pB)
	proxy := rlab.NewProxy(bindB)
	defer proxy.Close()
	B, err := rlab.StartNode(rlab.NodeOpt{Bind: bindB, Advertise: proxy.Addr, ReconnectLimit: -1})
	if err != nil {
		return err
	}
	defer B.Stop()
	bindA := fmt.Sprintf("127.0.0.1:%d", rlab.FreePort())
	A, err := rlab.StartNode(rlab.NodeOpt{Bind: bindA, Advertise: bindA, ReconnectLimit: -1})
	if err != nil {
		return err
	}
	defer A.Stop()
	A.Sys.Tell(B.RemoteSink(A.Sys), &rlab.Msg{Sender: sender, Seq: 0, Kind: rlab.KData, Body: nil})
	if !rlab.WaitUntil(5*time.Second, func() bool { return len(B.Sink.Got()) == 1 }) {
		return fmt.Errorf("calibration message did not arrive")
	}
	overhead = int(proxy.BytesForwarded.Load())
	return nil
}

type lab struct {
	A, B  *rlab.Node
	proxy *rlab.Proxy
	bindB string
}

func newLab(limit int, plans ...rlab.ConnPlan) (*lab, error) {
	l := &lab{bindB: fmt.Sprintf("127.0.0.1:%d", rlab.FreePort())}
	l.proxy = rlab.NewProxy(l.bindB, plans...)
	var err error
	if l.B, err = rlab.StartNode(rlab.NodeOpt{Bind: l.bindB, Advertise: l.proxy.Addr, ReconnectLimit: -1}); err != nil {
		l.proxy.Close()
		return nil, err
	}
	bindA := fmt.Sprintf("127.0.0.1:%d", rlab.FreePort())
	if l.A, err = rlab.StartNode(rlab.NodeOpt{Bind: bindA, Advertise: bindA, ReconnectLimit: limit, RawLimit: limit < 0}); err != nil {
		l.B.Stop()
		l.proxy.Close()
		return nil, err
	}
	return l, nil
}

func (l *lab) close() {
	l.A.Stop()
	l.B.Stop()
	l.proxy.Close()
}

// subsequence oracle on everything the receiver got from `sender`
func subsequence(got []rlab.Rec, sizes map[int64]int, c Case) *verdict {
	last := int64(-1)
	seen := map[int64]bool{}
	for _, r := range got {
		if r.Sender != sender || r.Kind != rlab.KData {
			continue
		}
		if seen[r.Seq] {
			return &verdict{"C14/subsequence|duplicate", fmt.Sprintf("message %d was delivered twice; case %s", r.Seq, c.JSON())}
		}
		seen[r.Seq] = true
		if r.Seq < last {
			return &verdict{"C14/subsequence|reordered", fmt.Sprintf("message %d was delivered after %d; case %s", r.Seq, last, c.JSON())}
		}
		last = r.Seq
		sz, known := sizes[r.Seq]
		if !known {
			return &verdict{"C14/subsequence|invented", fmt.Sprintf("the receiver got message %d which was never sent; case %s", r.Seq, c.JSON())}
		}
		want := rlab.Body(sender, r.Seq, sz)
		if r.Len != len(want) || r.Sum != fnv(want) {
			return &verdict{"C14/subsequence|corrupted", fmt.Sprintf("message %d arrived with %d bytes / other content (sent %d bytes); case %s", r.Seq, r.Len, len(want), c.JSON())}
		}
	}
	return nil
}

func fnv(b []byte) uint64 {
	var h uint64 = 14695981039346656037
	for _, x := range b {
		h ^= uint64(x)
		h *= 1099511628211
	}
	return h
}

func delivered(n *rlab.Node, seq int64) bool {
	for _, r := range n.Sink.Got() {
		if r.Sender == sender && r.Seq == seq && r.Kind == rlab.KData {
			return true
		}
	}
	return false
}

func deadLettered(n *rlab.Node, seq int64) int {
	k := 0
	for _, d := range n.Events.Snapshot().DeadLetters {
		if d.Sender == sender && d.Seq == seq {
			k++
		}
	}
	return k
}

func run(c Case) (v *verdict, inconclusive string, nontrivial bool, labels []string) {
	labels = []string{"kind:" + c.Kind, "limit:" + strconv.Itoa(c.Limit)}
	sizes := map[int64]int{}
	seq := int64(0)
	var plans []rlab.ConnPlan
	switch c.Kind {
	case "cut":
		plans = []rlab.ConnPlan{{Mode: "exact", CutAfter: c.Cut}, {Mode: "exact", CutAfter: -1}}
	case "refuse":
		for i := 0; i < c.Refuse; i++ {
			plans = append(plans, rlab.ConnPlan{Refuse: true})
		}
		plans = append(plans, rlab.ConnPlan{Mode: "exact", CutAfter: -1})
	case "inject-body":
		g := make([]byte, 4+c.Garbage)
		binary.BigEndian.PutUint32(g, uint32(c.Garbage))
		for i := 4; i < len(g); i++ {
			g[i] = byte(0xA5 ^ i)
		}
		plans = []rlab.ConnPlan{{Mode: "exact", CutAfter: -1, Inject: g, InjectAt: c.At}}
	case "inject-length":
		g := make([]byte, 4)
		binary.BigEndian.PutUint32(g, 4<<20+1)
		plans = []rlab.ConnPlan{{Mode: "exact", CutAfter: -1, Inject: g, InjectAt: c.At}, {Mode: "exact", CutAfter: -1}}
	case "inject-badref":
		plans = []rlab.ConnPlan{{Mode: "exact", CutAfter: -1}} // replaced below, once the refs exist
	default:
		plans = []rlab.ConnPlan{{Mode: "exact", CutAfter: -1}}
	}
	l, err := newLab(c.Limit, plans...)
	if err != nil {
		return nil, "lab did not start: " + err.Error(), false, nil
	}
	defer l.close()
	target := l.B.RemoteSink(l.A.Sys)
	if c.Kind == "inject-badref" {
		g, err := badRefFrame(c.Garbage, l.A.Sys.Ref(), target)
		if err != nil {
			return nil, "cannot build the unroutable frame: " + err.Error(), false, nil
		}
		l.proxy.SetPlans(rlab.ConnPlan{Mode: "exact", CutAfter: -1, Inject: g, InjectAt: c.At})
		labels = append(labels, "badref:"+badRefs[c.Garbage].name)
	}
	send := func(size int) int64 {
		s := seq
		seq++
		sizes[s] = size
		l.A.Sys.Tell(target, &rlab.Msg{Sender: sender, Seq: s, Kind: rlab.KData, Body: rlab.Body(sender, s, size)})
		return s
	}
	settled := func(s int64) (bool, int) {
		// a message is accounted for once it is delivered or dead-lettered; give the retries their time
		ok := rlab.WaitUntil(8*time.Second, func() bool { return delivered(l.B, s) || deadLettered(l.A, s) > 0 })
		return ok, deadLettered(l.A, s)
	}
	switch c.Kind {
	case "cut", "inject-body", "inject-badref", "inject-length":
		var first []int64
		for _, sz := range c.Sizes {
			first = append(first, send(sz))
		}
		// wait until the link is quiet: either everything arrived or the cut happened
		rlab.WaitUntil(3*time.Second, func() bool {
			return delivered(l.B, first[len(first)-1]) || l.proxy.Cuts.Load() > 0
		})
		time.Sleep(50 * time.Millisecond)
		if c.Kind == "cut" {
			nontrivial = l.proxy.CutsInsideFrame.Load() > 0
			if l.proxy.Cuts.Load() == 0 {
				labels = append(labels, "cut-not-reached")
			}
		} else {
			nontrivial = true
		}
		if c.Kind == "inject-badref" {
			// a well-framed envelope that cannot be routed: every real frame on the same connection is delivered
			for i, s := range first {
				if !rlab.WaitUntil(3*time.Second, func() bool { return delivered(l.B, s) }) {
					ev := l.B.Events.Snapshot()
					return &verdict{"C14/unroutable-frame|later-frames", fmt.Sprintf("a well-formed frame whose envelope cannot be routed (%s) was injected before frame %d; real frame %d was not delivered afterwards (receiver: %d decode failures, %d closed); case %s", badRefs[c.Garbage].name, c.At, i, ev.DecodeFail, ev.ConnClosed, c.JSON())}, "", nontrivial, labels
				}
			}
		}
		if c.Kind == "inject-body" {
			// an undecodable but well-framed body: every real frame on the same connection is delivered
			for i, s := range first {
				if !rlab.WaitUntil(3*time.Second, func() bool { return delivered(l.B, s) }) {
					ev := l.B.Events.Snapshot()
					return &verdict{"C14/undecodable-frame|later-frames", fmt.Sprintf("an undecodable frame of %d bytes was injected before frame %d; real frame %d was not delivered afterwards (receiver: %d decode failures, %d closed); case %s", c.Garbage, c.At, i, ev.DecodeFail, ev.ConnClosed, c.JSON())}, "", nontrivial, labels
				}
			}
			if ev := l.B.Events.Snapshot(); ev.DecodeFail == 0 {
				return nil, "the injected frame produced no decode-failure event: the injection did not happen as planned", false, nil
			}
		}
		// recovery: probe until the link works again (bounded), then a burst that must arrive completely
		recovered := false
		for k := 0; k < 8 && !recovered; k++ {
			s := send(3)
			ok, _ := settled(s)
			recovered = ok && delivered(l.B, s)
		}
		if !recovered {
			return &verdict{"C14/recovery|" + c.Kind, fmt.Sprintf("after the fault the proxy forwards normally again, but 8 further messages (each given 8 s) were not delivered; sender events %+v; case %s", l.A.Events.Snapshot(), c.JSON())}, "", nontrivial, labels
		}
		var after []int64
		for i := 0; i < c.After; i++ {
			after = append(after, send(20))
		}
		for _, s := range after {
			if !rlab.WaitUntil(5*time.Second, func() bool { return delivered(l.B, s) }) {
				return &verdict{"C14/recovery|later-messages", fmt.Sprintf("message %d, sent after the link had recovered, was not delivered; case %s", s, c.JSON())}, "", nontrivial, labels
			}
		}
	case "refuse":
		nontrivial = true
		// the Tell is issued on a goroutine of its own: with an unreachable peer it blocks its caller for the whole
		// retry loop (KF-C14-1), and a retry loop that never ends must become a verdict, not a hung check
		s0 := seq
		seq++
		sizes[s0] = c.Sizes[0]
		go l.A.Sys.Tell(target, &rlab.Msg{Sender: sender, Seq: s0, Kind: rlab.KData, Body: rlab.Body(sender, s0, c.Sizes[0])})
		ok, dl := settled(s0)
		if !ok {
			return &verdict{"C14/dead-letter|missing", fmt.Sprintf("%d connection attempts refused, reconnect limit %d: the message was neither delivered nor reported as a dead letter within 8 s; sender events %+v; case %s", c.Refuse, c.Limit, l.A.Events.Snapshot(), c.JSON())}, "", true, labels
		}
		attempts := max(c.Limit, 0) + 1 // a limit below 1 means no retry: one attempt
		if c.Refuse >= attempts {
			// every write attempt failed
			if delivered(l.B, s0) {
				return &verdict{"C14/retry-limit", fmt.Sprintf("%d refusals with limit %d (= %d attempts), yet the message was delivered", c.Refuse, c.Limit, attempts)}, "", true, labels
			}
			if dl != 1 {
				return &verdict{"C14/dead-letter|exactly-once", fmt.Sprintf("every one of the %d attempts failed: expected exactly one dead letter on the sending side, got %d; case %s", attempts, dl, c.JSON())}, "", true, labels
			}
			labels = append(labels, "exhausted")
		} else {
			if !delivered(l.B, s0) || dl != 0 {
				return &verdict{"C14/retry-limit", fmt.Sprintf("%d refusals, limit %d (= %d attempts): the message should have been delivered by a retry (delivered=%v, dead letters=%d); case %s", c.Refuse, c.Limit, attempts, delivered(l.B, s0), dl, c.JSON())}, "", true, labels
			}
			labels = append(labels, "retried")
		}
		// the link is healthy now (the proxy stopped refusing): later messages are delivered
		l.proxy.SetPlans(rlab.ConnPlan{Mode: "exact", CutAfter: -1})
		for i := 0; i < c.After; i++ {
			s := send(10)
			if !rlab.WaitUntil(8*time.Second, func() bool { return delivered(l.B, s) }) {
				return &verdict{"C14/recovery|later-messages", fmt.Sprintf("message %d, sent after the peer had become reachable again, was not delivered; sender events %+v; case %s", s, l.A.Events.Snapshot(), c.JSON())}, "", true, labels
			}
		}
		if c.Refuse2 > 0 {
			labels = append(labels, "second-outage")
			var pl []rlab.ConnPlan
			for i := 0; i < c.Refuse2; i++ {
				pl = append(pl, rlab.ConnPlan{Refuse: true})
			}
			pl = append(pl, rlab.ConnPlan{Mode: "exact", CutAfter: -1})
			l.proxy.SetPlans(pl...)
			l.proxy.DropAll()
			time.Sleep(300 * time.Millisecond)
			var second []int64
			for i := 0; i < 3; i++ {
				second = append(second, seq)
				sizes[seq] = 10
				seq++
			}
			go func() { // one goroutine: the order of the Tells is the order of the sequence numbers (a Tell may block, KF-C14-1)
				for _, s := range second {
					l.A.Sys.Tell(target, &rlab.Msg{Sender: sender, Seq: s, Kind: rlab.KData, Body: rlab.Body(sender, s, 10)})
					time.Sleep(200 * time.Millisecond)
				}
			}()
			last := second[len(second)-1]
			rlab.WaitUntil(10*time.Second, func() bool { return delivered(l.B, last) || deadLettered(l.A, last) > 0 })
			for _, s := range second {
				if dl := deadLettered(l.A, s); dl > 0 {
					return &verdict{"C14/retry-limit", fmt.Sprintf("second outage on the same peer: the connection was dropped and %d connection attempts were refused; with one failed write that is at most %d failed attempts, the limit is %d (= %d attempts), yet message %d was given up as a dead letter (the first outage had been survived after %d refusals); sender events %+v; case %s", c.Refuse2, c.Refuse2+1, c.Limit, c.Limit+1, s, c.Refuse, l.A.Events.Snapshot(), c.JSON())}, "", true, labels
				}
			}
			if !delivered(l.B, last) {
				return &verdict{"C14/recovery|later-messages", fmt.Sprintf("second outage on the same peer (%d refused attempts, limit %d): message %d, sent when the peer was reachable again, was not delivered within 10 s; sender events %+v; case %s", c.Refuse2, c.Limit, last, l.A.Events.Snapshot(), c.JSON())}, "", true, labels
			}
		}
	case "restart":
		nontrivial = true
		for _, sz := range c.Sizes {
			send(sz)
		}
		rlab.WaitUntil(3*time.Second, func() bool { return delivered(l.B, seq-1) })
		firstGot := l.B.Sink.Got()
		if v := subsequence(firstGot, sizes, c); v != nil {
			return v, "", true, labels
		}
		// peer restart: same addresses, new process state
		l.B.Stop()
		nb, err := rlab.StartNode(rlab.NodeOpt{Bind: l.bindB, Advertise: l.proxy.Addr, ReconnectLimit: -1})
		if err != nil {
			return nil, "the receiver did not restart: " + err.Error(), false, nil
		}
		l.B = nb
		l.proxy.DropAll()
		recovered := false
		for k := 0; k < 8 && !recovered; k++ {
			s := send(3)
			ok, _ := settled(s)
			recovered = ok && delivered(l.B, s)
		}
		if !recovered {
			return &verdict{"C14/recovery|restart", fmt.Sprintf("after the peer restarted, 8 further messages (each given 8 s) were neither delivered; sender events %+v; case %s", l.A.Events.Snapshot(), c.JSON())}, "", true, labels
		}
		for i := 0; i < c.After; i++ {
			s := send(10)
			if !rlab.WaitUntil(5*time.Second, func() bool { return delivered(l.B, s) }) {
				return &verdict{"C14/recovery|later-messages", fmt.Sprintf("message %d sent after the recovery was not delivered; case %s", s, c.JSON())}, "", true, labels
			}
		}
	}
	if v := subsequence(l.B.Sink.Got(), sizes, c); v != nil {
		return v, "", nontrivial, labels
	}
	// no message both delivered and dead-lettered, none dead-lettered twice
	for s := int64(0); s < seq; s++ {
		dl := deadLettered(l.A, s)
		if dl > 1 {
			return &verdict{"C14/dead-letter|exactly-once", fmt.Sprintf("message %d was reported %d times as a dead letter; case %s", s, dl, c.JSON())}, "", nontrivial, labels
		}
	}
	sort.Strings(labels)
	return
}

func check(fatalf func(string, ...any), c Case) {
	vt.SetCase(c)
	v, inc, nt, labels := run(c)
	if inc != "" {
		vstat.Note("inconclusive case (not counted): " + inc)
		vstat.Add("inconclusive_cases", 1)
		return
	}
	vstat.Case(vstat.Hash(c.JSON()), nt, labels, func() any { return c })
	if v != nil {
		if vstat.Fail(v.sig, v.detail, c) {
			return
		}
		vstat.FailFast(v.sig, v.detail)
		fatalf("VERIF-FAIL sig=%s :: %s", v.sig, v.detail)
	}
}

func ensureOverhead(t interface{ Fatalf(string, ...any) }) {
	if overhead < 0 {
		if err := measureOverhead(); err != nil {
			t.Fatalf("harness: calibration failed: %v", err)
		}
	}
}

// TestC14TwoOutages: only the two-outage shape of the refuse kind (the retry budget of one peer is spent, given back,
// and needed again), which the mixed generator draws too rarely for the quick tier.
func TestC14TwoOutages(t *testing.T) {
	ensureOverhead(t)
	rapid.Check(t, func(rt *rapid.T) {
		c := Case{Kind: "refuse", Frames: 3, Sizes: []int{rapid.SampledFrom([]int{0, 10, 1000}).Draw(rt, "size"), 1, 1}, After: rapid.IntRange(1, 3).Draw(rt, "after")}
		c.Limit = rapid.SampledFrom([]int{3, 2, 4}).Draw(rt, "limit")
		c.Refuse = rapid.IntRange(1, c.Limit).Draw(rt, "refuse1")
		c.Refuse2 = rapid.IntRange(1, c.Limit-1).Draw(rt, "refuse2")
		check(rt.Fatalf, c)
	})
}

func TestC14Faults(t *testing.T) {
	ensureOverhead(t)
	rapid.Check(t, func(rt *rapid.T) { check(rt.Fatalf, genCase(rt)) })
}

// TestC14CutEveryOffset: one stream of frames, the connection cut after EVERY byte offset
// (thorough), or every frame boundary +-2 (quick).
func TestC14CutEveryOffset(t *testing.T) {
	ensureOverhead(t)
	sizes := []int{0, 5, 300, 1}
	total := 0
	var bounds []int
	for _, s := range sizes {
		total += frameLen(s)
		bounds = append(bounds, total)
	}
	var offsets []int
	if os.Getenv("VERIF_TIER") == "thorough" {
		shard, _ := strconv.Atoi(os.Getenv("VERIF_SHARD"))
		nsh, _ := strconv.Atoi(os.Getenv("VERIF_NSHARDS"))
		if nsh <= 0 {
			nsh = 1
		}
		for o := shard; o <= total; o += nsh {
			offsets = append(offsets, o)
		}
		vstat.Add("exhaustive_done", 1)
	} else {
		set := map[int]bool{0: true, 1: true, 3: true, 4: true, 5: true}
		for _, b := range bounds {
			for d := -2; d <= 2; d++ {
				if b+d >= 0 && b+d <= total {
					set[b+d] = true
				}
			}
		}
		for o := range set {
			offsets = append(offsets, o)
		}
		sort.Ints(offsets)
	}
	for _, o := range offsets {
		check(t.Fatalf, Case{Kind: "cut", Frames: len(sizes), Sizes: sizes, Cut: int64(o), Limit: 2, After: 2})
	}
	// undecodable frames whose announced length is the largest the receiver accepts (and one byte less): the
	// body is consumed, the frames behind it are delivered
	for _, g := range []int{4 << 20, 4<<20 - 1} {
		check(t.Fatalf, Case{Kind: "inject-body", Frames: 3, Sizes: []int{10, 0, 100}, Limit: 2, After: 2, Garbage: g, At: 1})
	}
	vstat.Note(fmt.Sprintf("cut enumeration over a stream of %d frames = %d bytes", len(sizes), total))
}

// TestC14TellDoesNotBlock: with the peer unreachable, where is the caller of Tell?
func TestC14TellDoesNotBlock(t *testing.T) {
	vt.SetCase(map[string]any{"test": "TestC14TellDoesNotBlock"})
	l, err := newLab(3, rlab.ConnPlan{Refuse: true})
	if err != nil {
		t.Skipf("lab did not start: %v", err)
	}
	defer l.close()
	target := l.B.RemoteSink(l.A.Sys)
	done := make(chan struct{})
	go func() {
		tellFromHere(func() { l.A.Sys.Tell(target, &rlab.Msg{Sender: sender, Seq: 0, Kind: rlab.KData}) })
		close(done)
	}()
	// the property's own observation point: is the caller's goroutine found sleeping in the reconnect loop?
	var where string
	for i := 0; i < 40 && where == ""; i++ {
		time.Sleep(10 * time.Millisecond)
		select {
		case <-done:
			i = 1000
		default:
		}
		buf := make([]byte, 1<<20)
		n := runtime.Stack(buf, true)
		for _, g := range strings.Split(string(buf[:n]), "\n\n") {
			if strings.Contains(g, "c14.tellFromHere") && strings.Contains(g, "time.Sleep") {
				var chain []string
				for _, fn := range []string{"remoting.(*Mailbox).Enqueue", "utils.(*ExponentialBackoff).Try", "time.Sleep"} {
					if strings.Contains(g, fn) {
						chain = append(chain, fn)
					}
				}
				where = strings.Join(chain, ">")
			}
		}
	}
	<-done
	vstat.Case(vstat.Hash("tell-nonblocking", where), true, []string{"tell-nonblocking"}, func() any {
		return map[string]string{"scenario": "peer refuses every connection, reconnect limit 3", "caller_found_in": where}
	})
	vstat.Case(vstat.Hash("tell-nonblocking-2"), true, []string{"tell-nonblocking"}, nil)
	if where != "" {
		sig := "C14/tell-nonblocking|" + where
		detail := "with the peer unreachable the goroutine that called Tell is found sleeping in the reconnect loop: " + where
		if !vstat.Fail(sig, detail, nil) {
			t.Fatalf("VERIF-FAIL sig=%s :: %s", sig, detail)
		}
	}
}

//go:noinline
func tellFromHere(f func()) { f() }

func TestReplay(t *testing.T) {
	p := os.Getenv("VERIF_REPLAY_CASE")
	if p == "" {
		t.Skip("no VERIF_REPLAY_CASE")
	}
	ensureOverhead(t)
	b, err := os.ReadFile(p)
	if err != nil {
		t.Fatal(err)
	}
	var c Case
	var hr struct {
		Case *Case `json:"case"`
	}
	if json.Unmarshal(b, &hr) == nil && hr.Case != nil && hr.Case.Kind != "" {
		c = *hr.Case
	} else if err := json.Unmarshal(b, &c); err != nil {
		t.Fatal(err)
	}
	check(t.Fatalf, c)
}
