// C19 — the event stream delivers each event once to exactly the current
// subscribers of its type, in publication order per publisher; nothing after
// Unsubscribe / UnsubscribeAll / termination, no table entry left; a restart
// keeps subscriptions.
package c19

import (
	"encoding/json"
	"fmt"
	"os"
	"sort"
	"strings"
	"testing"
	"time"

	"github.com/kercylan98/vivid/verif/internal/vstat"
	"github.com/kercylan98/vivid/verif/internal/vt"
	"github.com/kercylan98/vivid/verif/internal/world"
	"pgregory.net/rapid"
)

func TestMain(m *testing.M) {
	vt.StartWatchdog(30 * time.Second)
	vstat.Main(m.Run)
}

type Op struct {
	Kind  string `json:"kind"`            // sub | unsub | unsuball | pub | kill | restart
	Actor string `json:"actor,omitempty"` // "" = outside (pub only)
	Ev    string `json:"ev,omitempty"`
	ID    int    `json:"id,omitempty"`
}

type Case struct {
	Actors []string `json:"actors"`
	Pre    []Op     `json:"pre"` // executed sequentially (settled)
	Ops    []Op     `json:"ops"` // sequential or racing
	Racing bool     `json:"racing"`
}

func (c Case) JSON() string { b, _ := json.Marshal(c); return string(b) }

func (c Case) Describe() string {
	f := func(ops []Op) string {
		var s []string
		for _, o := range ops {
			who := o.Actor
			if who == "" {
				who = "outside"
			}
			switch o.Kind {
			case "pub":
				s = append(s, fmt.Sprintf("%s.pub(%s#%d)", who, o.Ev, o.ID))
			case "sub", "unsub":
				s = append(s, fmt.Sprintf("%s.%s(%s)", who, o.Kind, o.Ev))
			default:
				s = append(s, fmt.Sprintf("%s.%s", who, o.Kind))
			}
		}
		return strings.Join(s, " ")
	}
	r := ""
	if c.Racing {
		r = " [racing]"
	}
	return fmt.Sprintf("actors %v | pre: %s | ops%s: %s", c.Actors, f(c.Pre), r, f(c.Ops))
}

var types = []string{"A", "B", "C", "K"} // K = the library's own ves.ActorKilledEvent, published on every termination
var pubTypes = []string{"A", "B", "C"}

func genOps(t *rapid.T, actors []string, n int, nextID *int, allowDeath bool) []Op {
	var ops []Op
	for i := 0; i < n; i++ {
		kinds := []string{"sub", "sub", "sub", "unsub", "unsuball", "pub", "pub", "pub", "pub"}
		if allowDeath {
			kinds = append(kinds, "kill", "restart", "restart")
		}
		k := rapid.SampledFrom(kinds).Draw(t, "kind")
		o := Op{Kind: k}
		switch k {
		case "pub":
			if rapid.IntRange(0, 3).Draw(t, "outside") > 0 {
				o.Actor = rapid.SampledFrom(actors).Draw(t, "publisher")
			}
			o.Ev = rapid.SampledFrom(pubTypes).Draw(t, "ev")
			*nextID++
			o.ID = *nextID
		case "sub", "unsub":
			o.Actor = rapid.SampledFrom(actors).Draw(t, "actor")
			o.Ev = rapid.SampledFrom(types).Draw(t, "ev")
		default:
			o.Actor = rapid.SampledFrom(actors).Draw(t, "actor")
		}
		ops = append(ops, o)
	}
	return ops
}

func genCase(t *rapid.T) Case {
	var c Case
	n := rapid.IntRange(2, 6).Draw(t, "nActors")
	for i := 0; i < n; i++ {
		c.Actors = append(c.Actors, string("abcdef"[i]))
	}
	id := 0
	c.Racing = rapid.IntRange(0, 3).Draw(t, "racing") == 0
	c.Pre = genOps(t, c.Actors, rapid.IntRange(0, 10).Draw(t, "nPre"), &id, false)
	c.Ops = genOps(t, c.Actors, rapid.IntRange(1, 14).Draw(t, "nOps"), &id, true)
	return c
}

type verdict struct{ sig, detail string }

type model struct {
	subs  map[string]map[string]bool // type -> actor -> subscribed
	alive map[string]bool
}

func (m *model) apply(o Op) {
	switch o.Kind {
	case "sub":
		if m.alive[o.Actor] {
			m.subs[o.Ev][o.Actor] = true
		}
	case "unsub":
		if m.alive[o.Actor] {
			delete(m.subs[o.Ev], o.Actor)
		}
	case "unsuball":
		if m.alive[o.Actor] {
			for _, t := range types {
				delete(m.subs[t], o.Actor)
			}
		}
	case "kill":
		m.alive[o.Actor] = false
		for _, t := range types {
			delete(m.subs[t], o.Actor)
		}
	}
}

func evKind(ev string) string {
	switch ev {
	case "A":
		return "evt:EvA"
	case "B":
		return "evt:*EvB"
	}
	return "evt:EvC"
}

func typeName(ev string) string {
	switch ev {
	case "A":
		return "world.EvA"
	case "B":
		return "*world.EvB"
	case "K":
		return "ves.ActorKilledEvent"
	}
	return "world.EvC"
}

func exec(w *world.World, o Op) {
	switch o.Kind {
	case "sub":
		w.Tell(o.Actor, "", 0, []world.Step{{Op: "sub", S: o.Ev}})
	case "unsub":
		w.Tell(o.Actor, "", 0, []world.Step{{Op: "unsub", S: o.Ev}})
	case "unsuball":
		w.Tell(o.Actor, "", 0, []world.Step{{Op: "unsuball"}})
	case "pub":
		if o.Actor == "" {
			w.Sys.EventStream().Publish(w.Sys, evValue(o.Ev, o.ID))
		} else {
			w.Tell(o.Actor, "", 0, []world.Step{{Op: "pub", S: o.Ev, ID: o.ID}})
		}
	case "kill":
		w.Kill(o.Actor, "", false)
	case "restart":
		w.Tell(o.Actor, "", 0, []world.Step{{Op: "panic"}})
	}
}

func evValue(s string, id int) any {
	switch s {
	case "A":
		return world.EvA{ID: id}
	case "B":
		return &world.EvB{ID: id}
	}
	return world.EvC{ID: id}
}

func run(t *testing.T, c Case) (v *verdict, nontrivial bool, labels []string) {
	lab := map[string]bool{}
	res := vt.Run(t, func() {
		// every failure is answered by a restart of the failing actor
		w := world.New(world.Options{SysDecisions: []string{"restart"}, SysStrategy: "one"})
		defer w.Close()
		for _, a := range c.Actors {
			_, _ = w.Spawn(world.Spec{Name: a, Provider: a < "c"})
		}
		vt.Settle()
		m := &model{subs: map[string]map[string]bool{}, alive: map[string]bool{}}
		for _, t := range types {
			m.subs[t] = map[string]bool{}
		}
		for _, a := range c.Actors {
			m.alive[a] = true
		}
		formerly := map[string]bool{} // type|actor once subscribed, no longer
		deliveries := func(tr []world.Ev, ev string, id int) map[string]int {
			got := map[string]int{}
			for _, e := range tr {
				if e.Kind == evKind(ev) && e.ID == id {
					got[strings.TrimPrefix(e.Actor, "/")]++
				}
			}
			return got
		}
		seqCheck := func(o Op) bool {
			tr, obs := w.Snapshot()
			got := deliveries(tr, o.Ev, o.ID)
			want := m.subs[o.Ev]
			if o.Actor != "" && !m.alive[o.Actor] {
				want = map[string]bool{} // a terminated actor publishes nothing
			}
			if len(want) >= 2 {
				for k := range formerly {
					if strings.HasPrefix(k, o.Ev+"|") {
						nontrivial = true
					}
				}
			}
			for a := range want {
				if got[a] != 1 {
					v = &verdict{"C19/exactly-once|subscriber", fmt.Sprintf("publication %s#%d: subscriber %s received it %d times (subscribers by the model: %v); case: %s", o.Ev, o.ID, a, got[a], keys(want), c.Describe())}
					return false
				}
			}
			for a, n := range got {
				if !want[a] {
					why := "never subscribed to that type"
					if formerly[o.Ev+"|"+a] {
						why = "unsubscribed / terminated before the publication"
					}
					v = &verdict{"C19/nobody-else", fmt.Sprintf("publication %s#%d was delivered %d times to %s, which is not a subscriber (%s); case: %s", o.Ev, o.ID, n, a, why, c.Describe())}
					return false
				}
			}
			for _, ob := range obs {
				if ob.Type == "DeadLetter" && strings.Contains(ob.Note, "world.Ev") && ob.MsgID == o.ID {
					v = &verdict{"C19/nobody-else|dead-letter", fmt.Sprintf("an event was sent to %s, which is terminated (dead letter %s); case: %s", ob.Actor, ob.Note, c.Describe())}
					return false
				}
			}
			return true
		}
		track := func(o Op) {
			before := map[string]bool{}
			for _, t := range types {
				for a := range m.subs[t] {
					before[t+"|"+a] = true
				}
			}
			m.apply(o)
			for k := range before {
				t, a, _ := strings.Cut(k, "|")
				if !m.subs[t][a] {
					formerly[k] = true
				}
			}
			for _, t := range types {
				for a := range m.subs[t] {
					delete(formerly, t+"|"+a)
				}
			}
		}
		for _, o := range c.Pre {
			exec(w, o)
			vt.Settle()
			track(o)
			if o.Kind == "pub" && !seqCheck(o) {
				return
			}
		}
		if !c.Racing {
			for _, o := range c.Ops {
				wasAlive := map[string]bool{}
				for k, x := range m.alive {
					wasAlive[k] = x
				}
				exec(w, o)
				vt.Settle()
				track(o)
				lab["op:"+o.Kind] = true
				if o.Kind == "pub" && !seqCheck(o) {
					return
				}
				if o.Kind == "kill" && wasAlive[o.Actor] {
					// the termination publishes ves.ActorKilledEvent: to the current subscribers of that
					// type, never to the terminated actor itself
					tr, obs := w.Snapshot()
					for a := range m.subs["K"] {
						n := 0
						for _, e := range tr {
							if e.Kind == "evt:Killed" && e.Actor == "/"+a && e.Note == "/"+o.Actor {
								n++
							}
						}
						if n != 1 {
							v = &verdict{"C19/exactly-once|subscriber", fmt.Sprintf("%s is subscribed to ActorKilledEvent but received %d events for the termination of %s; case: %s", a, n, o.Actor, c.Describe())}
							return
						}
						lab["killed-event-subscriber"] = true
					}
					for _, e := range tr {
						if e.Kind == "evt:Killed" && e.Actor == "/"+o.Actor && e.Note == "/"+o.Actor {
							v = &verdict{"C19/after-termination", fmt.Sprintf("%s received the ActorKilledEvent of its own termination; case: %s", o.Actor, c.Describe())}
							return
						}
					}
					for _, ob := range obs {
						if ob.Type == "DeadLetter" && ob.Note == "ves.ActorKilledEvent" && ob.Actor == "/"+o.Actor {
							v = &verdict{"C19/after-termination", fmt.Sprintf("an event published after the termination of %s was sent to it (dead letter of ves.ActorKilledEvent): its subscriptions were still in the tables; case: %s", o.Actor, c.Describe())}
							return
						}
					}
				}
			}
		} else {
			lab["racing"] = true
			// who is subscribed throughout / never during the racing phase
			throughout := map[string]bool{}
			for _, t := range types {
				for a := range m.subs[t] {
					throughout[t+"|"+a] = true
				}
			}
			ever := map[string]bool{}
			for k := range throughout {
				ever[k] = true
			}
			for _, o := range c.Ops {
				switch o.Kind {
				case "sub":
					ever[o.Ev+"|"+o.Actor] = true
				case "unsub":
					delete(throughout, o.Ev+"|"+o.Actor)
				case "unsuball", "kill":
					for _, t := range types {
						delete(throughout, t+"|"+o.Actor)
					}
				}
			}
			for _, o := range c.Ops {
				exec(w, o)
			}
			vt.Settle()
			for _, o := range c.Ops {
				track(o)
			}
			tr, _ := w.Snapshot()
			for _, o := range c.Ops {
				if o.Kind != "pub" {
					continue
				}
				got := deliveries(tr, o.Ev, o.ID)
				for a, n := range got {
					if n > 1 {
						v = &verdict{"C19/exactly-once|duplicate", fmt.Sprintf("publication %s#%d reached %s %d times; case: %s", o.Ev, o.ID, a, n, c.Describe())}
						return
					}
					if !ever[o.Ev+"|"+a] {
						v = &verdict{"C19/nobody-else", fmt.Sprintf("publication %s#%d reached %s, which was never subscribed to that type; case: %s", o.Ev, o.ID, a, c.Describe())}
						return
					}
				}
				publisherKilled := false
				for _, x := range c.Ops {
					if x.Kind == "kill" && x.Actor == o.Actor {
						publisherKilled = true // the publishing actor may have been dead before it got to publish
					}
				}
				for k := range throughout {
					t, a, _ := strings.Cut(k, "|")
					if t == o.Ev && got[a] != 1 && !publisherKilled {
						v = &verdict{"C19/exactly-once|subscriber", fmt.Sprintf("publication %s#%d: %s was subscribed throughout but received it %d times; case: %s", o.Ev, o.ID, a, got[a], c.Describe())}
						return
					}
				}
				if len(throughout) >= 2 {
					nontrivial = true
				}
			}
		}
		// ---- per (publisher, subscriber) order
		tr, _ := w.Snapshot()
		pubOrder := map[string][]int{} // publisher -> ids in publication order
		for _, o := range append(append([]Op{}, c.Pre...), c.Ops...) {
			if o.Kind == "pub" {
				pubOrder[o.Actor] = append(pubOrder[o.Actor], o.ID)
			}
		}
		publisherOf := map[int]string{}
		rank := map[int]int{}
		for p, ids := range pubOrder {
			for i, id := range ids {
				publisherOf[id] = p
				rank[id] = i
			}
		}
		lastRank := map[string]int{}
		for _, e := range tr {
			if !strings.HasPrefix(e.Kind, "evt:") {
				continue
			}
			p, ok := publisherOf[e.ID]
			if !ok {
				continue
			}
			// the outside publisher in racing mode is a single goroutine: order holds for it as well
			k := p + ">" + e.Actor
			if r, seen := lastRank[k]; seen && rank[e.ID] < r {
				v = &verdict{"C19/publication-order", fmt.Sprintf("%s received event #%d of publisher %q after a later one of the same publisher; case: %s", e.Actor, e.ID, p, c.Describe())}
				return
			}
			lastRank[k] = rank[e.ID]
		}
		// ---- tables at quiescence == model
		byType, byPath := w.Sys.VerifEventStream()
		for _, a := range c.Actors {
			var want []string
			for _, t := range types {
				if m.subs[t][a] {
					want = append(want, typeName(t))
				}
			}
			sort.Strings(want)
			p := "/" + a
			if c.Racing && m.alive[a] {
				// sub/unsub of the same (actor, type) raced: the final state is the mailbox order of that actor = script order: still determined
			}
			if fmt.Sprint(byType[p]) != fmt.Sprint(want) || fmt.Sprint(byPath[p]) != fmt.Sprint(want) {
				clause := "table-entry-left"
				if len(want) > len(byType[p]) || len(want) > len(byPath[p]) {
					clause = "subscription-lost"
				}
				v = &verdict{"C19/" + clause, fmt.Sprintf("at quiescence the event stream holds for %s: by type %v, by subscriber %v; expected %v (alive=%v); case: %s", a, byType[p], byPath[p], want, m.alive[a], c.Describe())}
				return
			}
		}
		// ---- a final publication of every type reaches exactly the model's subscribers (restart keeps subscriptions)
		for i, t := range pubTypes {
			o := Op{Kind: "pub", Ev: t, ID: 90000 + i}
			exec(w, o)
			vt.Settle()
			if !seqCheck(o) {
				return
			}
		}
	})
	if v == nil && res.Panic != nil {
		v = &verdict{"C19/harness-panic", fmt.Sprintf("%v\n%s", res.Panic, res.Stack)}
	}
	for l := range lab {
		labels = append(labels, l)
	}
	sort.Strings(labels)
	return
}

func keys(m map[string]bool) []string {
	var k []string
	for x := range m {
		k = append(k, x)
	}
	sort.Strings(k)
	return k
}

func check(t *testing.T, fatalf func(string, ...any), c Case) {
	vt.SetCase(c)
	v, nt, labels := run(t, c)
	vstat.Case(vstat.Hash(c.JSON()), nt, labels, func() any { return c.Describe() })
	if v != nil {
		if vstat.Fail(v.sig, v.detail, c) {
			return
		}
		fatalf("VERIF-FAIL sig=%s :: %s\njson=%s", v.sig, v.detail, c.JSON())
	}
}

func TestC19EventStream(t *testing.T) {
	rapid.Check(t, func(rt *rapid.T) { check(t, rt.Fatalf, genCase(rt)) })
}

func TestReplay(t *testing.T) {
	p := os.Getenv("VERIF_REPLAY_CASE")
	if p == "" {
		t.Skip("no VERIF_REPLAY_CASE")
	}
	b, err := os.ReadFile(p)
	if err != nil {
		t.Fatal(err)
	}
	if replayHandover(t, b) {
		return
	}
	var c Case
	var hr struct {
		Case *Case `json:"case"`
	}
	if json.Unmarshal(b, &hr) == nil && hr.Case != nil && len(hr.Case.Actors) > 0 {
		c = *hr.Case
	} else if err := json.Unmarshal(b, &c); err != nil {
		t.Fatal(err)
	}
	check(t, t.Fatalf, c)
}
