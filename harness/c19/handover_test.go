// C19, unit "handover": the termination / restart chain of a subscriber is stopped at a drawn statement boundary
// (window points inserted into a copy of killed_handler.go at check time, see cmd/vcheck/instr.go) and, while it stands
// there, other parties act: the name is spawned again and the successor subscribes, others subscribe / unsubscribe /
// publish. Random scheduling practically never lands inside these windows (a few instructions wide); here the generator
// owns the position. The oracle is the property's own clauses, for the parties whose situation is determined:
//   - an actor that is subscribed and alive (a bystander, the successor under the old name, the restarted actor) gets
//     every publication of that type exactly once; nobody else gets it;
//   - after the termination no table entry is left for the terminated actor - and the successor's entries are its own;
//   - a restart keeps subscriptions.
package c19

import (
	"encoding/json"
	"fmt"
	"os"
	"sort"
	"strings"
	"sync"
	"testing"

	"github.com/kercylan98/vivid/internal/actor"
	"github.com/kercylan98/vivid/verif/internal/vstat"
	"github.com/kercylan98/vivid/verif/internal/vt"
	"github.com/kercylan98/vivid/verif/internal/world"
	"pgregory.net/rapid"
)

type HOp struct {
	Kind  string `json:"kind"` // respawn | sub | unsub | unsuball | pub | kill
	Actor string `json:"actor,omitempty"`
	Ev    string `json:"ev,omitempty"`
	ID    int    `json:"id,omitempty"`
	Subs  string `json:"subs,omitempty"` // respawn: type the successor subscribes to in its OnLaunch ("" = none)
}

type HCase struct {
	Trigger  string `json:"trigger"` // kill | poison | restart | zombie
	Child    bool   `json:"child,omitempty"`
	Provider bool   `json:"provider,omitempty"`
	Point    int    `json:"point"` // the n-th window point the target reaches after the trigger
	Pre      []HOp  `json:"pre"`
	Intr     []HOp  `json:"intr"`
	Post     []HOp  `json:"post"`
}

func (c HCase) JSON() string { b, _ := json.Marshal(c); return string(b) }

func (c HCase) Describe() string {
	f := func(ops []HOp) string {
		var s []string
		for _, o := range ops {
			who := o.Actor
			if who == "" {
				who = "outside"
			}
			switch o.Kind {
			case "pub":
				s = append(s, fmt.Sprintf("%s.pub(%s#%d)", who, o.Ev, o.ID))
			case "sub", "unsub":
				s = append(s, fmt.Sprintf("%s.%s(%s)", who, o.Kind, o.Ev))
			case "respawn":
				s = append(s, fmt.Sprintf("respawn(a, OnLaunch subscribes %q)", o.Subs))
			default:
				s = append(s, fmt.Sprintf("%s.%s", who, o.Kind))
			}
		}
		return strings.Join(s, " ")
	}
	return fmt.Sprintf("target a (child=%v provider=%v) | pre: %s | %s, parked at its window point %d | meanwhile: %s | released | then: %s", c.Child, c.Provider, f(c.Pre), c.Trigger, c.Point, f(c.Intr), f(c.Post))
}

func genHOps(t *rapid.T, n int, id *int, phase string, trigger string) []HOp {
	var ops []HOp
	for i := 0; i < n; i++ {
		kinds := []string{"sub", "sub", "unsub", "unsuball", "pub", "pub", "pub"}
		if phase == "pre" {
			kinds = []string{"sub", "sub", "sub", "unsub"}
		}
		if phase != "pre" && (trigger == "kill" || trigger == "poison") {
			kinds = append(kinds, "respawn", "respawn", "respawn")
		}
		if phase == "post" && trigger == "zombie" {
			kinds = append(kinds, "kill", "kill", "respawn")
		}
		o := HOp{Kind: rapid.SampledFrom(kinds).Draw(t, "kind")}
		switch o.Kind {
		case "pub":
			if rapid.Bool().Draw(t, "outside") {
				o.Actor = ""
			} else {
				o.Actor = rapid.SampledFrom([]string{"b", "c"}).Draw(t, "publisher")
			}
			o.Ev = rapid.SampledFrom(pubTypes).Draw(t, "ev")
			*id++
			o.ID = *id
		case "sub", "unsub":
			o.Actor = rapid.SampledFrom([]string{"a", "a", "b", "c"}).Draw(t, "actor")
			o.Ev = rapid.SampledFrom(pubTypes).Draw(t, "ev")
		case "unsuball":
			o.Actor = rapid.SampledFrom([]string{"a", "b", "c"}).Draw(t, "actor")
		case "respawn":
			o.Subs = rapid.SampledFrom([]string{"A", "B", "", "C"}).Draw(t, "successorSubscribes")
		case "kill":
			o.Actor = "a"
		}
		ops = append(ops, o)
	}
	return ops
}

func genHCase(t *rapid.T) HCase {
	c := HCase{Trigger: rapid.SampledFrom([]string{"kill", "kill", "restart", "poison", "zombie"}).Draw(t, "trigger")}
	c.Child = rapid.IntRange(0, 2).Draw(t, "child") == 0
	c.Provider = rapid.Bool().Draw(t, "provider")
	c.Point = rapid.IntRange(0, 44).Draw(t, "point")
	id := 0
	c.Pre = genHOps(t, rapid.IntRange(1, 6).Draw(t, "nPre"), &id, "pre", c.Trigger)
	c.Intr = genHOps(t, rapid.IntRange(1, 6).Draw(t, "nIntr"), &id, "intr", c.Trigger)
	c.Post = genHOps(t, rapid.IntRange(0, 5).Draw(t, "nPost"), &id, "post", c.Trigger)
	return c
}

// runHandover executes the case; when the target passes fewer window points than the drawn index, the case is executed
// once more with the index folded into the number of points it did pass.
func runHandover(t *testing.T, c HCase) (v *verdict, nontrivial bool, labels []string) {
	var reached int
	v, nontrivial, labels, reached = runHandoverAt(t, c, c.Point)
	if v == nil && !nontrivial && reached > 0 {
		v, nontrivial, labels, _ = runHandoverAt(t, c, c.Point%reached)
	}
	return
}

func runHandoverAt(t *testing.T, c HCase, point int) (v *verdict, nontrivial bool, labels []string, reachedN int) {
	lab := map[string]bool{}
	res := vt.Run(t, func() {
		w := world.New(world.Options{SysDecisions: []string{"restart"}, SysStrategy: "one"})
		defer w.Close()
		spec := world.Spec{Name: "a", Provider: c.Provider}
		if c.Trigger == "zombie" {
			spec.FailRestarted = []int{1}
			spec.FailMode = "err"
		}
		_, _ = w.Spawn(spec)
		_, _ = w.Spawn(world.Spec{Name: "b"})
		_, _ = w.Spawn(world.Spec{Name: "c"})
		vt.Settle()
		if c.Child {
			w.Tell("a", "", 0, []world.Step{{Op: "spawn", Spec: &world.Spec{Name: "x"}}})
			vt.Settle()
		}
		// ---- model: who is subscribed to what. "a" means whoever legitimately holds the name.
		subs := map[string]map[string]bool{"a": {}, "b": {}, "c": {}}
		aState := "alive" // alive | dead | zombie
		successor := false
		var predInsts map[int]bool
		var deferred []HOp
		var apply func(o HOp, parked bool)
		apply = func(o HOp, parked bool) {
			switch o.Kind {
			case "sub", "unsub", "unsuball":
				if o.Actor == "a" {
					switch {
					case successor: // the successor handles it
					case aState == "alive" && !parked: // the target handles it
					case aState == "alive" && parked && (c.Trigger == "restart"):
						// queued during the restart, handled by the restarted actor (a restart keeps the mailbox): takes
						// effect after the release, in order
						deferred = append(deferred, o)
						return
					default:
						return // a terminating / terminated / zombie actor handles no user message
					}
				}
				switch o.Kind {
				case "sub":
					subs[o.Actor][o.Ev] = true
				case "unsub":
					delete(subs[o.Actor], o.Ev)
				case "unsuball":
					subs[o.Actor] = map[string]bool{}
				}
			}
		}
		execH := func(o HOp) {
			switch o.Kind {
			case "sub":
				w.Tell(o.Actor, "", 0, []world.Step{{Op: "sub", S: o.Ev}})
			case "unsub":
				w.Tell(o.Actor, "", 0, []world.Step{{Op: "unsub", S: o.Ev}})
			case "unsuball":
				w.Tell(o.Actor, "", 0, []world.Step{{Op: "unsuball"}})
			case "pub":
				if o.Actor == "" {
					w.Sys.EventStream().Publish(w.Sys, evValue(o.Ev, o.ID))
				} else {
					w.Tell(o.Actor, "", 0, []world.Step{{Op: "pub", S: o.Ev, ID: o.ID}})
				}
			case "kill":
				w.Kill("a", "", false)
			}
		}
		// counts deliveries of publication id per party; "a" = instances that are not the predecessor's once a successor exists
		count := func(ev string, id int) (got map[string]int, toPred int) {
			tr, _ := w.Snapshot()
			got = map[string]int{}
			for _, e := range tr {
				if e.Kind != evKind(ev) || e.ID != id {
					continue
				}
				who := strings.TrimPrefix(e.Actor, "/")
				if who == "a" && successor && predInsts[e.Inst] {
					toPred++
					continue
				}
				got[who]++
			}
			return
		}
		checkPub := func(o HOp, during bool) bool {
			got, toPred := count(o.Ev, o.ID)
			for _, who := range []string{"a", "b", "c"} {
				want := 0
				if subs[who][o.Ev] {
					want = 1
				}
				if who == "a" {
					switch {
					case successor: // determined: the successor's own subscriptions
					case aState == "alive" && !during: // determined
					case aState == "dead" && !during:
						want = 0
					default:
						continue // the terminating target / a zombie: what it still receives is not determined here
					}
				}
				if got[who] != want {
					sig := "C19/exactly-once|subscriber"
					if got[who] > want && want == 0 {
						sig = "C19/nobody-else"
					}
					v = &verdict{sig, fmt.Sprintf("publication %s#%d: %s received it %d times, expected %d (model: a=%v b=%v c=%v, successor=%v, a is %s); case: %s", o.Ev, o.ID, who, got[who], want, keys(subs["a"]), keys(subs["b"]), keys(subs["c"]), successor, aState, c.Describe())}
					return false
				}
			}
			if successor && toPred > 0 && !during {
				v = &verdict{"C19/after-termination", fmt.Sprintf("publication %s#%d was delivered to the terminated predecessor of a; case: %s", o.Ev, o.ID, c.Describe())}
				return false
			}
			return true
		}
		for _, o := range c.Pre {
			execH(o)
			vt.Settle()
			apply(o, false)
		}
		// ---- arm the window and pull the trigger
		var mu sync.Mutex
		armed, reached, site := true, 0, ""
		parked, release := make(chan struct{}), make(chan struct{})
		actor.VerifWindowHook = func(s string, path string) {
			if path != "/a" {
				return
			}
			mu.Lock()
			if !armed {
				mu.Unlock()
				return
			}
			k := reached
			reached++
			hit := k == point
			if hit {
				armed, site = false, s
			}
			mu.Unlock()
			if hit {
				close(parked)
				<-release
			}
		}
		defer func() { actor.VerifWindowHook = nil }()
		switch c.Trigger {
		case "kill":
			w.Kill("a", "", false)
		case "poison":
			w.Kill("a", "", true)
		default:
			w.Tell("a", "", 0, []world.Step{{Op: "panic"}})
		}
		vt.Settle()
		isParked := false
		select {
		case <-parked:
			isParked = true
		default:
		}
		mu.Lock()
		armed = false
		n := reached
		mu.Unlock()
		reachedN = n
		if !isParked {
			lab["point-not-reached"] = true
			lab[fmt.Sprintf("points:%s=%d", c.Trigger, n)] = true
			return
		}
		frozen := map[string]bool{}
		for k := range subs["a"] {
			frozen[k] = true
		}
		lab["parked:"+strings.SplitN(site, ":", 2)[0]] = true
		lab["trigger:"+c.Trigger] = true
		doOps := func(ops []HOp, during bool) bool {
			for _, o := range ops {
				switch o.Kind {
				case "respawn":
					if successor || (aState == "alive" && !during) {
						continue
					}
					tr, _ := w.Snapshot()
					insts := map[int]bool{}
					for _, e := range tr {
						if e.Actor == "/a" {
							insts[e.Inst] = true
						}
					}
					sp := world.Spec{Name: "a"}
					if o.Subs != "" {
						sp.OnLaunch = []world.Step{{Op: "sub", S: o.Subs}}
					}
					_, err := w.Spawn(sp)
					vt.Settle()
					if err == nil {
						successor, predInsts = true, insts
						aState = "alive"
						subs["a"] = map[string]bool{}
						if o.Subs != "" {
							subs["a"][o.Subs] = true
						}
						lab["successor"] = true
						if during {
							lab["successor-during-window"] = true
						}
					}
				case "kill":
					if aState == "zombie" || (aState == "alive" && !successor) {
						execH(o)
						vt.Settle()
						aState = "dead"
						subs["a"] = map[string]bool{}
						lab["zombie-killed"] = true
					}
				default:
					execH(o)
					vt.Settle()
					apply(o, during)
					if o.Kind == "pub" && !checkPub(o, during) {
						return false
					}
				}
			}
			return true
		}
		if !doOps(c.Intr, true) {
			close(release)
			return
		}
		close(release)
		vt.Settle()
		// the trigger has run its course
		if !successor {
			switch c.Trigger {
			case "kill", "poison":
				aState = "dead"
				subs["a"] = map[string]bool{}
			case "zombie":
				aState = "zombie"
			}
		}
		nontrivial = true
		// publications made during the window, judged again now that everything has settled (queued deliveries to the
		// restarted actor have arrived by now)
		for _, o := range c.Intr {
			if o.Kind == "pub" && c.Trigger == "restart" {
				got, _ := count(o.Ev, o.ID)
				want := 0
				if frozen[o.Ev] {
					want = 1 // subscribed at the time of publication: the event waits in the mailbox and a restart keeps it
				}
				if got["a"] != want {
					sig := "C19/exactly-once|subscriber"
					if got["a"] > 1 {
						sig = "C19/exactly-once|duplicate"
					} else if want == 0 {
						sig = "C19/nobody-else"
					}
					v = &verdict{sig, fmt.Sprintf("publication %s#%d, made while a was being restarted (a subscribed to %v at that time), reached a %d times, expected %d; case: %s", o.Ev, o.ID, keys(frozen), got["a"], want, c.Describe())}
					return
				}
			}
		}
		for _, o := range deferred {
			apply(o, false)
		}
		if !doOps(c.Post, false) {
			return
		}
		// ---- a final publication of every type
		for i, ty := range pubTypes {
			o := HOp{Kind: "pub", Ev: ty, ID: 90000 + i}
			execH(o)
			vt.Settle()
			if !checkPub(o, false) {
				return
			}
		}
		// ---- tables at quiescence
		byType, byPath := w.Sys.VerifEventStream()
		for _, who := range []string{"a", "b", "c"} {
			if who == "a" && aState == "zombie" {
				continue // a zombie keeps its entries until it is released
			}
			var want []string
			for ty := range subs[who] {
				want = append(want, typeName(ty))
			}
			sort.Strings(want)
			p := "/" + who
			if fmt.Sprint(byType[p]) != fmt.Sprint(want) || fmt.Sprint(byPath[p]) != fmt.Sprint(want) {
				clause := "table-entry-left"
				if len(want) > len(byType[p]) || len(want) > len(byPath[p]) {
					clause = "subscription-lost"
				}
				v = &verdict{"C19/" + clause, fmt.Sprintf("at quiescence the event stream holds for %s: by type %v, by subscriber %v; expected %v (a is %s, successor=%v); case: %s", who, byType[p], byPath[p], want, aState, successor, c.Describe())}
				return
			}
		}
	})
	if v == nil && res.Panic != nil {
		v = &verdict{"C19/harness-panic", fmt.Sprintf("%v\n%s", res.Panic, res.Stack)}
	}
	for l := range lab {
		labels = append(labels, l)
	}
	sort.Strings(labels)
	return
}

func checkHandover(t *testing.T, fatalf func(string, ...any), c HCase) {
	vt.SetCase(map[string]any{"handover": c})
	v, nt, labels := runHandover(t, c)
	vstat.Case(vstat.Hash(c.JSON()), nt, labels, func() any { return c.Describe() })
	if v != nil {
		if vstat.Fail(v.sig, v.detail, map[string]any{"handover": c}) {
			return
		}
		fatalf("VERIF-FAIL sig=%s :: %s\njson=%s", v.sig, v.detail, c.JSON())
	}
}

func TestC19Handover(t *testing.T) {
	rapid.Check(t, func(rt *rapid.T) { checkHandover(t, rt.Fatalf, genHCase(rt)) })
}

func replayHandover(t *testing.T, b []byte) bool {
	var hr struct {
		Case *struct {
			Handover *HCase `json:"handover"`
		} `json:"case"`
		Handover *HCase `json:"handover"`
	}
	if json.Unmarshal(b, &hr) != nil {
		return false
	}
	switch {
	case hr.Case != nil && hr.Case.Handover != nil:
		checkHandover(t, t.Fatalf, *hr.Case.Handover)
	case hr.Handover != nil:
		checkHandover(t, t.Fatalf, *hr.Handover)
	default:
		return false
	}
	return true
}

var _ = os.Getenv
