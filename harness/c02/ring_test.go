// C02 (queue part) — the ring queue is a FIFO whatever its length and however
// it grows; with concurrent producers and the single consumer the mailbox
// guarantees, each producer's items come out in order.
package c02

import (
	"fmt"
	"github.com/kercylan98/vivid/verif/internal/vt"
	"os"
	"strconv"
	"sync"
	"testing"

	"github.com/kercylan98/vivid/internal/queues"
	"github.com/kercylan98/vivid/verif/internal/vstat"
	"pgregory.net/rapid"
)

func TestMain(m *testing.M) { mainHook(m) }

var mainHook = func(m *testing.M) { vstat.Main(m.Run) }

// TestC02RingModel: rapid state machine, reference model = Go slice.
func TestC02RingModel(t *testing.T) {
	rapid.Check(t, func(rt *rapid.T) {
		vt.Progress() // the package's watchdog (world tests) must not take a long pure run for a hang
		size := rapid.SampledFrom([]int{1, 2, 3, 4, 5, 7, 8, 9, 256}).Draw(rt, "size")
		q := queues.New(int64(size))
		var model []int
		next := 0
		grows, wrappedGrow, pops := 0, false, 0
		cap_ := size
		head := 0 // number of pops since the last growth, modulo capacity: tracks whether the content is wrapped
		var hist []string
		fail := func(clause, format string, a ...any) {
			sig := "C02/ring|" + clause
			detail := fmt.Sprintf(format, a...) + fmt.Sprintf(" | size=%d ops=%v", size, tail(hist, 40))
			if vstat.Fail(sig, detail, nil) {
				return
			}
			rt.Fatalf("VERIF-FAIL sig=%s :: %s", sig, detail)
		}
		// the push/pop ratio is drawn per case so that the ring wraps, empties and grows repeatedly
		pushWeight := rapid.IntRange(1, 9).Draw(rt, "pushWeight")
		push := func(rt *rapid.T) {
			n := 1
			if rapid.IntRange(0, 5).Draw(rt, "burst") == 0 {
				n = rapid.IntRange(1, 2*cap_+2).Draw(rt, "burstLen")
			}
			for i := 0; i < n; i++ {
				if len(model)+1 >= cap_ { // the ring grows when the tail meets the head
					grows++
					if head%cap_ != 0 {
						wrappedGrow = true
					}
					cap_ *= 2
					head = 0
				}
				q.Push(next)
				model = append(model, next)
				next++
			}
			hist = append(hist, fmt.Sprintf("push×%d", n))
		}
		pop := func(rt *rapid.T) {
			v, ok := q.Pop()
			hist = append(hist, "pop")
			if len(model) == 0 {
				if ok {
					fail("pop-empty", "Pop on an empty queue returned (%v, true)", v)
				}
				return
			}
			pops++
			head++
			if !ok || v != model[0] {
				fail("fifo", "Pop returned (%v,%v), reference FIFO has %d at its head (length %d)", v, ok, model[0], len(model))
			}
			model = model[1:]
		}
		acts := map[string]func(*rapid.T){
			"popMany": func(rt *rapid.T) {
				n := rapid.IntRange(0, len(model)+2).Draw(rt, "n")
				vs, ok := q.PopMany(int64(n))
				hist = append(hist, fmt.Sprintf("popMany(%d)", n))
				if len(model) == 0 {
					if ok {
						fail("pop-empty", "PopMany on an empty queue returned (%v, true)", vs)
					}
					return
				}
				want := n
				if want > len(model) {
					want = len(model)
				}
				if !ok || len(vs) != want {
					fail("popmany-count", "PopMany(%d) returned %d items (ok=%v), reference gives %d", n, len(vs), ok, want)
					return
				}
				for i := range vs {
					if vs[i] != model[i] {
						fail("fifo", "PopMany(%d)[%d] = %v, reference %d", n, i, vs[i], model[i])
						return
					}
				}
				model = model[want:]
				head += want
			},
			"": func(rt *rapid.T) {
				if int(q.Length()) != len(model) {
					fail("length", "Length() = %d, reference %d", q.Length(), len(model))
				}
				if q.Empty() != (len(model) == 0) {
					fail("empty", "Empty() = %v, reference length %d", q.Empty(), len(model))
				}
			},
		}
		for i := 0; i < pushWeight; i++ {
			acts[fmt.Sprintf("push%d", i)] = push
		}
		for i := 0; i < 10-pushWeight; i++ {
			acts[fmt.Sprintf("pop%d", i)] = pop
		}
		rt.Repeat(acts)
		// drain: everything left comes out in order
		for len(model) > 0 {
			v, ok := q.Pop()
			if !ok || v != model[0] {
				fail("fifo", "draining: Pop returned (%v,%v), reference %d", v, ok, model[0])
				break
			}
			model = model[1:]
		}
		labels := []string{fmt.Sprintf("size:%d", size)}
		if grows > 0 {
			labels = append(labels, "grew")
		}
		if wrappedGrow {
			labels = append(labels, "grew-while-wrapped")
		}
		vstat.Case(vstat.Hash(size, hist), wrappedGrow, labels, func() any {
			return map[string]any{"size": size, "ops": tail(hist, 30), "growths": grows, "pops": pops}
		})
	})
}

func tail(s []string, n int) []string {
	if len(s) > n {
		return s[len(s)-n:]
	}
	return s
}

// TestC02RingBoundaries: every initial size 1..9 and every (pops before, length at growth) pair
// around each growth boundary, exhaustively: push k, pop j, then push until two growths happened.
func TestC02RingBoundaries(t *testing.T) {
	cases := 0
	for size := 1; size <= 9; size++ {
		vt.Progress()
		for pre := 0; pre <= 2*size+1; pre++ {
			for popped := 0; popped <= pre; popped++ {
				q := queues.New(int64(size))
				var model []int
				next := 0
				for i := 0; i < pre; i++ {
					q.Push(next)
					model = append(model, next)
					next++
				}
				for i := 0; i < popped; i++ {
					v, ok := q.Pop()
					if !ok || v != model[0] {
						ringFail(t, size, pre, popped, "pre-pop", v, model[0])
					}
					model = model[1:]
				}
				for i := 0; i < 4*size+4; i++ {
					q.Push(next)
					model = append(model, next)
					next++
				}
				for len(model) > 0 {
					v, ok := q.Pop()
					if !ok || v != model[0] {
						ringFail(t, size, pre, popped, "drain", v, model[0])
						break
					}
					model = model[1:]
				}
				cases++
				vstat.Case(vstat.Hash("b", size, pre, popped), popped > 0 && pre > popped, []string{"boundary-enumeration"}, func() any {
					return map[string]int{"size": size, "pushed_before": pre, "popped_before": popped}
				})
			}
		}
	}
	vstat.Add("ring_boundary_cases", int64(cases))
}

func ringFail(t *testing.T, size, pre, popped int, phase string, got any, want int) {
	sig := "C02/ring|fifo"
	detail := fmt.Sprintf("size=%d push %d, pop %d, then push %d: %s returned %v, reference %d", size, pre, popped, 4*size+4, phase, got, want)
	if vstat.Fail(sig, detail, nil) {
		return
	}
	t.Fatalf("VERIF-FAIL sig=%s :: %s", sig, detail)
}

// TestC02RingConcurrent: 2-8 real producers, one consumer; run with -race.
func TestC02RingConcurrent(t *testing.T) {
	rounds := 30
	if os.Getenv("VERIF_TIER") == "thorough" {
		rounds = 300
	}
	seed, _ := strconv.ParseUint(os.Getenv("VERIF_RSEED"), 10, 64)
	for r := 0; r < rounds; r++ {
		vt.Progress()
		x := seed + uint64(r)*0x9e3779b97f4a7c15
		producers := 2 + int(x%7)
		perProducer := []int{100, 1000, 5000, 20000}[(x>>8)%4]
		size := []int{1, 2, 8, 256}[(x>>16)%4]
		q := queues.New(int64(size))
		var wg sync.WaitGroup
		for p := 0; p < producers; p++ {
			wg.Add(1)
			go func(p int) {
				defer wg.Done()
				for i := 0; i < perProducer; i++ {
					q.Push([2]int{p, i})
				}
			}(p)
		}
		done := make(chan struct{})
		go func() { wg.Wait(); close(done) }()
		nextSeq := make([]int, producers)
		got := 0
		total := producers * perProducer
		finished := false
		for got < total {
			v, ok := q.Pop()
			if !ok {
				if finished {
					break
				}
				select {
				case <-done:
					finished = true
				default:
				}
				continue
			}
			it := v.([2]int)
			if it[1] != nextSeq[it[0]] {
				sig := "C02/ring|per-producer-order"
				detail := fmt.Sprintf("producer %d: got item %d, expected %d (producers=%d, size=%d)", it[0], it[1], nextSeq[it[0]], producers, size)
				if !vstat.Fail(sig, detail, nil) {
					t.Fatalf("VERIF-FAIL sig=%s :: %s", sig, detail)
				}
				return
			}
			nextSeq[it[0]]++
			got++
		}
		if got != total {
			sig := "C02/ring|lost"
			detail := fmt.Sprintf("consumer saw %d of %d items (producers=%d, size=%d)", got, total, producers, size)
			if !vstat.Fail(sig, detail, nil) {
				t.Fatalf("VERIF-FAIL sig=%s :: %s", sig, detail)
			}
			return
		}
		vstat.Case(vstat.Hash("c", producers, perProducer, size, r), true, []string{"concurrent-producers"}, func() any {
			return map[string]int{"producers": producers, "items_per_producer": perProducer, "initial_size": size}
		})
	}
}
