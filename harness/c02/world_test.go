// C02 (runtime part) — per-sender FIFO across every growth boundary of the
// mailbox ring, system-before-user (an immediate kill overtakes queued user
// messages, a poison kill is processed after everything its sender enqueued
// before it), stash order.
package c02

import (
	"encoding/json"
	"fmt"
	"os"
	"sort"
	"strings"
	"sync"
	"testing"
	"time"

	"github.com/kercylan98/vivid/verif/internal/vstat"
	"github.com/kercylan98/vivid/verif/internal/vt"
	"github.com/kercylan98/vivid/verif/internal/world"
	"pgregory.net/rapid"
)

func init() {
	mainHook = func(m *testing.M) {
		vt.StartWatchdog(60 * time.Second)
		vstat.Main(m.Run)
	}
}

type Sender struct {
	Actor  bool `json:"actor"` // an actor sends (from its handler), else a goroutine outside
	N      int  `json:"n"`
	KillAt int  `json:"killAt"` // after this many sends the sender kills the target (-1 never)
	Poison bool `json:"poison"`
}

type OrderCase struct {
	Senders []Sender `json:"senders"`
	Racing  bool     `json:"racing"` // senders run concurrently (else one after the other)
}

func (c OrderCase) JSON() string { b, _ := json.Marshal(c); return string(b) }

var boundaries = []int{1, 2, 10, 254, 255, 256, 257, 300, 511, 512, 513, 1023, 1025, 2049, 5000}

func genOrder(t *rapid.T) OrderCase {
	var c OrderCase
	ns := rapid.IntRange(1, 4).Draw(t, "senders")
	killer := -1
	if rapid.IntRange(0, 2).Draw(t, "withKill") > 0 {
		killer = rapid.IntRange(0, ns-1).Draw(t, "killer")
	}
	for i := 0; i < ns; i++ {
		s := Sender{Actor: rapid.Bool().Draw(t, "actor"), KillAt: -1}
		s.N = rapid.SampledFrom(boundaries).Draw(t, "burst") + rapid.IntRange(-1, 1).Draw(t, "jitter")
		if s.N < 1 {
			s.N = 1
		}
		if ns > 2 && s.N > 1100 {
			s.N = 600
		}
		if i == killer {
			s.KillAt = rapid.IntRange(0, s.N).Draw(t, "killAt")
			s.Poison = rapid.Bool().Draw(t, "poison")
		}
		c.Senders = append(c.Senders, s)
	}
	c.Racing = ns > 1 && rapid.Bool().Draw(t, "racing")
	return c
}

type verdict struct{ sig, detail string }

func idOf(sender, seq int) int { return (sender+1)*100000 + seq + 1 }

func runOrder(t *testing.T, c OrderCase) (v *verdict, nontrivial bool, labels []string) {
	lab := map[string]bool{}
	res := vt.Run(t, func() {
		w := world.New(world.Options{})
		defer w.Close()
		_, _ = w.Spawn(world.Spec{Name: "t"})
		for i, s := range c.Senders {
			if s.Actor {
				_, _ = w.Spawn(world.Spec{Name: fmt.Sprintf("s%d", i)})
			}
		}
		vt.Settle()
		// the target blocks in its first handler so that everything piles up in its mailbox
		w.Tell("t", "", 99, []world.Step{{Op: "gate", S: "g"}})
		vt.Settle()
		var wg sync.WaitGroup
		send := func(i int, s Sender) {
			if s.Actor {
				var prog []world.Step
				for k := 0; k < s.N; k++ {
					if k == s.KillAt {
						prog = append(prog, world.Step{Op: "kill", To: "t", B: s.Poison})
					}
					prog = append(prog, world.Step{Op: "tell", To: "t", ID: idOf(i, k)})
				}
				if s.KillAt == s.N {
					prog = append(prog, world.Step{Op: "kill", To: "t", B: s.Poison})
				}
				w.Tell(fmt.Sprintf("s%d", i), "", 0, prog)
				return
			}
			for k := 0; k < s.N; k++ {
				if k == s.KillAt {
					w.Kill("t", "", s.Poison)
				}
				w.Tell("t", "", idOf(i, k), nil)
			}
			if s.KillAt == s.N {
				w.Kill("t", "", s.Poison)
			}
		}
		for i, s := range c.Senders {
			if c.Racing {
				wg.Add(1)
				go func(i int, s Sender) { defer wg.Done(); send(i, s) }(i, s)
			} else {
				send(i, s)
				vt.Settle()
			}
		}
		wg.Wait()
		vt.Settle()
		w.Open("g")
		vt.Settle()
		tr, obs := w.Snapshot()
		evs := world.PerActor(tr)["/t"]
		// position of each handled message, of the kill
		pos := map[int]int{}
		killPos := -1
		for i, e := range evs {
			if e.Kind == "msg" && e.ID >= 100000 {
				if _, dup := pos[e.ID]; dup {
					v = &verdict{"C02/exactly-once|duplicate", fmt.Sprintf("message %d handled twice", e.ID)}
					return
				}
				pos[e.ID] = i
			}
			if e.Kind == "kill" && killPos < 0 {
				killPos = i
			}
		}
		dead := map[int]int{}
		for _, o := range obs {
			if o.Type == "DeadLetter" && o.MsgID >= 100000 {
				dead[o.MsgID]++
			}
		}
		total := 0
		for i, s := range c.Senders {
			total += s.N
			last := -1
			handledAfterGap := false
			for k := 0; k < s.N; k++ {
				id := idOf(i, k)
				p, ok := pos[id]
				switch {
				case ok && dead[id] > 0:
					v = &verdict{"C02/exactly-once|handled-and-dead", fmt.Sprintf("message %d (sender %d #%d) both handled and dead-lettered", id, i, k)}
				case !ok && dead[id] == 0:
					v = &verdict{"C02/lost", fmt.Sprintf("message %d (sender %d #%d of %d) neither handled nor dead-lettered; senders=%s", id, i, k, s.N, c.JSON())}
				case dead[id] > 1:
					v = &verdict{"C02/exactly-once|dead-twice", fmt.Sprintf("message %d dead-lettered %d times", id, dead[id])}
				case ok && p < last:
					v = &verdict{"C02/per-sender-fifo", fmt.Sprintf("sender %d: message #%d was handled before #%d (burst of %d, %d messages queued in total); senders=%s", i, k, k-1, s.N, totalN(c), c.JSON())}
				case ok && handledAfterGap:
					v = &verdict{"C02/per-sender-fifo|gap", fmt.Sprintf("sender %d: message #%d was handled although an earlier one of the same sender was dead-lettered", i, k)}
				}
				if v != nil {
					return
				}
				if ok {
					last = p
				} else {
					handledAfterGap = false // dead letters at the end of a burst are fine; a handled one after a dead one is checked via order of kill below
				}
			}
			// kill semantics for the killing sender
			if s.KillAt >= 0 && killPos >= 0 {
				for k := 0; k < s.N; k++ {
					id := idOf(i, k)
					p, ok := pos[id]
					if s.Poison {
						if k < s.KillAt && !ok && !c.Racing {
							v = &verdict{"C02/poison-kill|overtook", fmt.Sprintf("poison kill after %d sends: message #%d, enqueued before it by the same sender, was not handled (dead letters: %d); senders=%s", s.KillAt, k, dead[id], c.JSON())}
						}
						if k < s.KillAt && ok && p > killPos {
							v = &verdict{"C02/poison-kill|overtook", fmt.Sprintf("poison kill after %d sends: message #%d of the same sender was handled after OnKill", s.KillAt, k)}
						}
					}
					if ok && p > killPos {
						v = &verdict{"C02/after-kill", fmt.Sprintf("message #%d of sender %d was handled after OnKill", k, i)}
					}
					if v != nil {
						return
					}
				}
				if !s.Poison && !c.Racing {
					// an immediate kill is a system message: it overtakes every queued user message
					if killPos >= 0 {
						for id, p := range pos {
							if p > killPos {
								v = &verdict{"C02/after-kill", fmt.Sprintf("message %d handled after OnKill", id)}
								return
							}
						}
						handledAfterGate := 0
						for _, p := range pos {
							if p < killPos {
								handledAfterGate++
							}
						}
						// everything that was queued when the gate opened must have been overtaken
						earlier := 0
						for j := 0; j < i; j++ {
							earlier += c.Senders[j].N
						}
						if handledAfterGate > 0 {
							v = &verdict{"C02/immediate-kill|did-not-overtake", fmt.Sprintf("an immediate kill was queued while the target was blocked, yet %d queued user messages were handled before OnKill; senders=%s", handledAfterGate, c.JSON())}
							return
						}
						_ = earlier
					}
				}
				lab["with-kill"] = true
				if s.Poison {
					lab["poison"] = true
				} else {
					lab["immediate"] = true
				}
			}
		}
		if total+1 >= 256 {
			lab["ring-grew"] = true
			nontrivial = true
		}
		if total+1 >= 512 {
			lab["ring-grew-twice"] = true
		}
		if killPos >= 0 && total >= 2 {
			nontrivial = true
		}
		if c.Racing {
			lab["concurrent-senders"] = true
		}
	})
	if v == nil && res.Panic != nil {
		v = &verdict{"C02/harness-panic", fmt.Sprintf("%v\n%s", res.Panic, res.Stack)}
	}
	for l := range lab {
		labels = append(labels, l)
	}
	sort.Strings(labels)
	return
}

func totalN(c OrderCase) int {
	n := 0
	for _, s := range c.Senders {
		n += s.N
	}
	return n
}

func TestC02Order(t *testing.T) {
	rapid.Check(t, func(rt *rapid.T) {
		c := genOrder(rt)
		vt.SetCase(c)
		v, nt, labels := runOrder(t, c)
		vstat.Case(vstat.Hash(c.JSON()), nt, labels, func() any { return c })
		if v != nil {
			if vstat.Fail(v.sig, v.detail, c) {
				return
			}
			rt.Fatalf("VERIF-FAIL sig=%s :: %s\njson=%s", v.sig, v.detail, c.JSON())
		}
	})
}

// ---------------------------------------------------------------------------
// stash

type StashMsg struct {
	Stash   bool `json:"stash,omitempty"`
	Unstash int  `json:"unstash,omitempty"` // 0 none, -999 Unstash(), n Unstash(n) (incl. n <= 0)
	Sched   bool `json:"sched,omitempty"`   // delivered by the scheduler (Once with delay 0 from another actor) instead of Tell
}

type StashCase struct {
	Msgs []StashMsg `json:"msgs"`
}

func (c StashCase) JSON() string { b, _ := json.Marshal(c); return string(b) }

func genStash(t *rapid.T) StashCase {
	var c StashCase
	n := rapid.IntRange(2, 30).Draw(t, "n")
	for i := 0; i < n; i++ {
		m := StashMsg{}
		switch rapid.IntRange(0, 5).Draw(t, "kind") {
		case 0, 1:
			m.Stash = true
		case 2:
			m.Unstash = -999
		case 3:
			m.Unstash = rapid.SampledFrom([]int{1, 2, 3, 5, 100, -1, -5}).Draw(t, "k")
		}
		m.Sched = rapid.IntRange(0, 3).Draw(t, "sched") == 0
		c.Msgs = append(c.Msgs, m)
	}
	// drain at the end so that most of the stash comes back
	c.Msgs = append(c.Msgs, StashMsg{Unstash: 100})
	return c
}

// reference model: mailbox queue + stash list
func stashModel(c StashCase) (order []int, left []int, partial bool) {
	type q struct{ id int }
	var queue []int
	for i := range c.Msgs {
		queue = append(queue, i+1)
	}
	stashedOnce := map[int]bool{}
	var stash []int
	for len(queue) > 0 {
		id := queue[0]
		queue = queue[1:]
		m := c.Msgs[id-1]
		if m.Stash && !stashedOnce[id] {
			stashedOnce[id] = true
			stash = append(stash, id)
			continue
		}
		order = append(order, id)
		if m.Unstash != 0 {
			n := 0
			switch {
			case m.Unstash == -999:
				n = 1
			case m.Unstash > 0:
				n = m.Unstash
			}
			if n > len(stash) {
				n = len(stash)
			}
			if n > 1 && n < len(stash) {
				partial = true
			}
			queue = append(queue, stash[:n]...)
			stash = stash[n:]
		}
	}
	return order, stash, partial
}

func TestC02Stash(t *testing.T) {
	rapid.Check(t, func(rt *rapid.T) {
		c := genStash(rt)
		vt.SetCase(c)
		var v *verdict
		want, left, partial := stashModel(c)
		res := vt.Run(t, func() {
			w := world.New(world.Options{})
			defer w.Close()
			_, _ = w.Spawn(world.Spec{Name: "t"})
			_, _ = w.Spawn(world.Spec{Name: "s"})
			vt.Settle()
			w.Tell("t", "", 9999, []world.Step{{Op: "gate", S: "g"}})
			vt.Settle()
			for i, m := range c.Msgs {
				var do []world.Step
				if m.Stash {
					do = append(do, world.Step{Op: "stash"})
				}
				if m.Unstash != 0 {
					do = append(do, world.Step{Op: "unstash", N: m.Unstash})
				}
				if m.Sched {
					// through the scheduler: settled, so that the mailbox order is the script order
					w.Tell("s", "", 0, []world.Step{{Op: "once", To: "t", D: 0, ID: i + 1, Do: do, S: fmt.Sprintf("j%d", i)}})
					vt.Settle()
				} else {
					w.Tell("t", "", i+1, do)
				}
			}
			w.Open("g")
			vt.Settle()
			w.Tell("t", "", 9998, []world.Step{{Op: "stashcount"}})
			vt.Settle()
			tr, _ := w.Snapshot()
			var got []int
			for _, e := range world.PerActor(tr)["/t"] {
				if e.Kind == "msg" && e.Note != "stashed" && e.ID < 9000 {
					got = append(got, e.ID)
				}
			}
			if fmt.Sprint(got) != fmt.Sprint(want) {
				v = &verdict{"C02/stash-order", fmt.Sprintf("handled order %v, reference model (re-enqueue stash[0..n) at the tail, in order) gives %v; script %s", got, want, c.JSON())}
				return
			}
			for _, cl := range w.CallsCopy() {
				if cl.Op == "stashcount" && cl.Note != fmt.Sprint(len(left)) {
					v = &verdict{"C02/stash-count", fmt.Sprintf("StashCount() = %s, reference model has %d left (%v)", cl.Note, len(left), left)}
				}
			}
		})
		if v == nil && res.Panic != nil {
			v = &verdict{"C02/harness-panic", fmt.Sprintf("%v\n%s", res.Panic, res.Stack)}
		}
		labels := []string{"stash"}
		if partial {
			labels = append(labels, "partial-unstash")
		}
		vstat.Case(vstat.Hash(c.JSON()), partial, labels, func() any { return map[string]any{"script": c, "expected_order": want} })
		if v != nil {
			if vstat.Fail(v.sig, v.detail, c) {
				return
			}
			rt.Fatalf("VERIF-FAIL sig=%s :: %s", v.sig, v.detail)
		}
	})
}

// System before user, also for a system message that is issued while system messages are being handled: a
// supervisor that reacts to the death of a child (OnKilled, a system message) by killing itself immediately
// (OnKill, a system message enqueued during the drain of the system queue) handles none of the 1-6 user messages
// that were already waiting; they become dead letters.
func TestC02SystemFirst(t *testing.T) {
	rapid.Check(t, func(rt *rapid.T) {
		k := rapid.IntRange(1, 6).Draw(rt, "waiting")
		kids := rapid.IntRange(1, 3).Draw(rt, "children")
		poisonKid := rapid.Bool().Draw(rt, "poisonKid")
		c := map[string]any{"test": "TestC02SystemFirst", "waiting": k, "children": kids, "poisonKid": poisonKid}
		vt.SetCase(c)
		var v *verdict
		res := vt.Run(t, func() {
			w := world.New(world.Options{})
			defer w.Close()
			_, _ = w.Spawn(world.Spec{Name: "p", KillSelfOnChild: true})
			for i := 0; i < kids; i++ {
				sp := world.Spec{Name: fmt.Sprintf("c%d", i)}
				w.Tell("p", "", 0, []world.Step{{Op: "spawn", Spec: &sp}})
			}
			vt.Settle()
			w.Tell("p", "", 9999, []world.Step{{Op: "gate", S: "g"}})
			vt.Settle()
			w.Kill("p/c0", "", poisonKid)
			vt.Settle() // the child is gone, its OnKilled waits in p's system queue
			for i := 0; i < k; i++ {
				w.Tell("p", "", i+1, nil)
			}
			w.Open("g")
			vt.Settle()
			tr, obs := w.Snapshot()
			seenChildDeath := false
			for _, e := range world.PerActor(tr)["/p"] {
				if e.Kind == "killed:/p/c0" {
					seenChildDeath = true
				}
				if seenChildDeath && e.Kind == "msg" && e.ID < 9000 {
					v = &verdict{"C02/system-before-user|issued-during-system-handling", fmt.Sprintf("/p killed itself (immediately) while handling its child's OnKilled, yet it handled user message %d afterwards, before its own OnKill; trace of /p: %s", e.ID, world.Fmt(world.PerActor(tr)["/p"]))}
					return
				}
			}
			if !seenChildDeath {
				v = &verdict{"C02/harness", "the parent never saw its child's OnKilled"}
				return
			}
			dead := map[int]bool{}
			for _, o := range obs {
				if o.Type == "DeadLetter" {
					dead[o.MsgID] = true
				}
			}
			for i := 1; i <= k; i++ {
				if !dead[i] {
					v = &verdict{"C02/system-before-user|waiting-mail-not-dead-lettered", fmt.Sprintf("user message %d, waiting when /p killed itself immediately, was not published as a dead letter; trace of /p: %s", i, world.Fmt(world.PerActor(tr)["/p"]))}
					return
				}
			}
		})
		if v == nil && res.Panic != nil {
			v = &verdict{"C02/harness-panic", fmt.Sprintf("%v\n%s", res.Panic, res.Stack)}
		}
		vstat.Case(vstat.Hash("sysfirst", k, kids, poisonKid), true, []string{"system-message-issued-during-system-handling"}, func() any { return c })
		if v != nil {
			if v.sig == "C02/harness" {
				rt.Fatalf("harness: %s", v.detail)
			}
			if vstat.Fail(v.sig, v.detail, c) {
				return
			}
			rt.Fatalf("VERIF-FAIL sig=%s :: %s", v.sig, v.detail)
		}
	})
}

func TestReplay(t *testing.T) {
	p := os.Getenv("VERIF_REPLAY_CASE")
	if p == "" {
		t.Skip("no VERIF_REPLAY_CASE")
	}
	b, err := os.ReadFile(p)
	if err != nil {
		t.Fatal(err)
	}
	s := string(b)
	if strings.Contains(s, "senders") {
		var c OrderCase
		var hr struct {
			Case *OrderCase `json:"case"`
		}
		if json.Unmarshal(b, &hr) == nil && hr.Case != nil && len(hr.Case.Senders) > 0 {
			c = *hr.Case
		} else if err := json.Unmarshal(b, &c); err != nil {
			t.Fatal(err)
		}
		v, _, _ := runOrder(t, c)
		if v != nil {
			t.Fatalf("VERIF-FAIL sig=%s :: %s", v.sig, v.detail)
		}
	}
}
