// Package rlab is the remoting lab: real actor systems on loopback TCP with a
// byte-level fault proxy owned by the generator between a sender and a
// receiver (DESIGN.md §3.6). Real time: every wait is patience, never an
// oracle.
package rlab

import (
	"encoding/binary"
	"errors"
	"fmt"
	"hash/fnv"
	"io"
	"net"
	"sync"
	"sync/atomic"
	"time"

	"github.com/kercylan98/vivid"
	"github.com/kercylan98/vivid/internal/actor"
	"github.com/kercylan98/vivid/internal/messages"
	"github.com/kercylan98/vivid/pkg/ves"
	"github.com/kercylan98/vivid/verif/internal/hlog"
)

// Msg is the payload of the lab (registered with RegisterCustomMessage).
type Msg struct {
	Sender int32
	Seq    int64
	Kind   int8 // 0 data, 1 fence, 2 ask, 3 reply
	Body   []byte
}

const (
	KData int8 = iota
	KFence
	KAsk
	KReply
	KBad // the receiving side's reader rejects it (a peer with a different idea of this message: version skew)
)

// ErrBad is what the registered reader returns for a KBad message.
var ErrBad = errors.New("verif: this side cannot decode the message (KBad)")

func init() {
	vivid.RegisterCustomMessage[*Msg]("verif.rlab.Msg",
		func(message any, r *messages.Reader, _ messages.Codec) error {
			m := message.(*Msg)
			if err := r.ReadInto(&m.Sender, &m.Seq, &m.Kind, &m.Body); err != nil {
				return err
			}
			if m.Kind == KBad {
				return ErrBad
			}
			return nil
		},
		func(message any, w *messages.Writer, _ messages.Codec) error {
			m := message.(*Msg)
			return w.WriteFrom(m.Sender, m.Seq, m.Kind, m.Body)
		})
}

// Body builds a deterministic body of n bytes for (sender, seq).
func Body(sender int32, seq int64, n int) []byte {
	b := make([]byte, n)
	x := uint64(sender)*0x9e3779b97f4a7c15 + uint64(seq)*0xbf58476d1ce4e5b9 + 1
	for i := range b {
		x ^= x << 13
		x ^= x >> 7
		x ^= x << 17
		b[i] = byte(x)
	}
	return b
}

func sum(b []byte) uint64 {
	h := fnv.New64a()
	h.Write(b)
	return h.Sum64()
}

// Rec is one message seen by a sink.
type Rec struct {
	Sender     int32
	Seq        int64
	Kind       int8
	Len        int
	Sum        uint64
	SenderAddr string
	SenderPath string
}

// Sink records what it receives and answers asks.
type Sink struct {
	mu  sync.Mutex
	got []Rec
}

func (s *Sink) OnReceive(ctx vivid.ActorContext) {
	m, ok := ctx.Message().(*Msg)
	if !ok {
		return
	}
	r := Rec{Sender: m.Sender, Seq: m.Seq, Kind: m.Kind, Len: len(m.Body), Sum: sum(m.Body)}
	if sd := ctx.Sender(); sd != nil {
		r.SenderAddr, r.SenderPath = sd.GetAddress(), sd.GetPath()
	}
	s.mu.Lock()
	s.got = append(s.got, r)
	s.mu.Unlock()
	if m.Kind == KAsk {
		ctx.Reply(&Msg{Sender: m.Sender, Seq: m.Seq, Kind: KReply, Body: m.Body})
	}
}

// Got returns a copy of the records.
func (s *Sink) Got() []Rec {
	s.mu.Lock()
	defer s.mu.Unlock()
	return append([]Rec(nil), s.got...)
}

// EvLog collects events of one system.
type EvLog struct {
	mu          sync.Mutex
	DeadLetters []DeadLetter
	DecodeFail  int
	ConnFailed  int
	ConnClosed  int
	Established int
	SendFailed  int
}

type DeadLetter struct {
	Sender int32
	Seq    int64
	Kind   int8
	Other  string
}

type evActor struct{ l *EvLog }

func (e *evActor) OnReceive(ctx vivid.ActorContext) {
	switch m := ctx.Message().(type) {
	case *vivid.OnLaunch:
		es := ctx.EventStream()
		for _, p := range []any{ves.DeathLetterEvent{}, ves.RemotingMessageDecodeFailedEvent{}, ves.RemotingConnectionFailedEvent{}, ves.RemotingConnectionClosedEvent{}, ves.RemotingConnectionEstablishedEvent{}, ves.RemotingMessageSendFailedEvent{}} {
			es.Subscribe(ctx, p)
		}
	case ves.DeathLetterEvent:
		e.l.mu.Lock()
		d := DeadLetter{Sender: -1}
		if m.Envelope != nil {
			if mm, ok := m.Envelope.Message().(*Msg); ok {
				d = DeadLetter{Sender: mm.Sender, Seq: mm.Seq, Kind: mm.Kind}
			} else {
				d.Other = fmt.Sprintf("%T", m.Envelope.Message())
			}
		}
		e.l.DeadLetters = append(e.l.DeadLetters, d)
		e.l.mu.Unlock()
	case ves.RemotingMessageDecodeFailedEvent:
		e.l.mu.Lock()
		e.l.DecodeFail++
		e.l.mu.Unlock()
	case ves.RemotingConnectionFailedEvent:
		e.l.mu.Lock()
		e.l.ConnFailed++
		e.l.mu.Unlock()
	case ves.RemotingConnectionClosedEvent:
		e.l.mu.Lock()
		e.l.ConnClosed++
		e.l.mu.Unlock()
	case ves.RemotingConnectionEstablishedEvent:
		e.l.mu.Lock()
		e.l.Established++
		e.l.mu.Unlock()
	case ves.RemotingMessageSendFailedEvent:
		e.l.mu.Lock()
		e.l.SendFailed++
		e.l.mu.Unlock()
	}
}

// EvSnap is a copy of an EvLog.
type EvSnap struct {
	DeadLetters []DeadLetter
	DecodeFail  int
	ConnFailed  int
	ConnClosed  int
	Established int
	SendFailed  int
}

// Snapshot copies the log.
func (l *EvLog) Snapshot() EvSnap {
	l.mu.Lock()
	defer l.mu.Unlock()
	return EvSnap{DeadLetters: append([]DeadLetter(nil), l.DeadLetters...), DecodeFail: l.DecodeFail, ConnFailed: l.ConnFailed, ConnClosed: l.ConnClosed, Established: l.Established, SendFailed: l.SendFailed}
}

// Node is one system of the lab.
type Node struct {
	Sys     *actor.System
	Bind    string
	Addr    string // advertised address
	Sink    *Sink
	SinkRef vivid.ActorRef
	Events  *EvLog
}

// FreePort returns a free loopback port.
func FreePort() int {
	for {
		l, err := net.Listen("tcp", "127.0.0.1:0")
		if err != nil {
			panic(err)
		}
		p := l.Addr().(*net.TCPAddr).Port
		_ = l.Close()
		if p != 8080 && p != 8081 {
			return p
		}
	}
}

// NodeOpt configures a node.
type NodeOpt struct {
	Bind, Advertise string
	Codec           vivid.Codec
	ReconnectLimit  int // -1 = library default
	// RawLimit: ReconnectLimit (any value, also a negative one: documented as "less than 1 means no retry") is set
	// through the public options struct instead of the option function, which ignores negative values
	RawLimit bool
}

// StartNode starts a system with remoting, a sink ("/sink") and an event log.
func StartNode(o NodeOpt) (*Node, error) {
	opts := []vivid.ActorSystemOption{vivid.WithActorSystemLogger(hlog.Nop), vivid.WithActorSystemRemoting(o.Bind, o.Advertise), vivid.WithActorSystemStopTimeout(20 * time.Second)}
	if o.Codec != nil {
		opts = append(opts, vivid.WithActorSystemCodec(o.Codec))
	}
	if o.RawLimit {
		ro := vivid.NewActorSystemRemotingOptions()
		ro.ReconnectLimit = o.ReconnectLimit
		opts = append(opts, vivid.WithActorSystemRemotingOptions(ro))
	} else if o.ReconnectLimit >= 0 {
		opts = append(opts, vivid.WithActorSystemRemotingOption(vivid.WithActorSystemRemotingReconnectLimit(o.ReconnectLimit)))
	}
	n := &Node{Bind: o.Bind, Addr: o.Advertise, Sink: &Sink{}, Events: &EvLog{}}
	n.Sys = actor.NewSystem(opts...)
	if err := n.Sys.Start(); err != nil {
		return nil, err
	}
	if _, err := n.Sys.ActorOf(&evActor{l: n.Events}, vivid.WithActorName("zz-events")); err != nil {
		return nil, err
	}
	ref, err := n.Sys.ActorOf(n.Sink, vivid.WithActorName("sink"))
	if err != nil {
		return nil, err
	}
	n.SinkRef = ref
	// wait for the listener
	deadline := time.Now().Add(10 * time.Second)
	for time.Now().Before(deadline) {
		c, err := net.DialTimeout("tcp", o.Bind, 200*time.Millisecond)
		if err == nil {
			_ = c.Close()
			return n, nil
		}
		time.Sleep(10 * time.Millisecond)
	}
	return nil, fmt.Errorf("listener of %s did not come up", o.Bind)
}

// Stop stops the node.
func (n *Node) Stop() { _ = n.Sys.Stop(20 * time.Second) }

// RemoteSink returns, for use on another system, a reference to this node's sink.
func (n *Node) RemoteSink(from *actor.System) vivid.ActorRef {
	r, err := from.CreateRef(n.Addr, "/sink")
	if err != nil {
		panic(err)
	}
	return r
}

// WaitUntil polls cond for at most budget of real time.
func WaitUntil(budget time.Duration, cond func() bool) bool {
	deadline := time.Now().Add(budget)
	for {
		if cond() {
			return true
		}
		if time.Now().After(deadline) {
			return false
		}
		time.Sleep(2 * time.Millisecond)
	}
}

// ---------------------------------------------------------------------------
// fault proxy

// ConnPlan says what the proxy does with one accepted connection.
type ConnPlan struct {
	Refuse    bool   // close right after accepting
	BlackHole bool   // accept, forward nothing
	Mode      string // exact | bytewise | coalesce | split | chunks
	N         int    // coalesce: frames per write; split: offset inside each frame; chunks: chunk size
	CutAfter  int64  // cut both directions after this many client->server bytes following the handshake; < 0 never
	Inject    []byte // raw bytes injected client->server
	InjectAt  int    // ... in front of this (0-based) frame
	// HoldHandshake > 0: the client's handshake is held back this long; whatever the client has sent by then
	// goes to the server in the same write (a slow path that coalesces: legal TCP behaviour). A conforming
	// client sends nothing before the server has answered its handshake, so on a correct tree this is a delay.
	HoldHandshake time.Duration
}

// Proxy forwards client->server bytes according to per-connection plans.
type Proxy struct {
	ln     net.Listener
	Addr   string
	target string
	mu     sync.Mutex
	plans  []ConnPlan // consumed one per accepted connection; the last one repeats
	conns  int
	closed atomic.Bool
	live   []net.Conn

	// statistics (coverage only, never an oracle)
	Writes           atomic.Int64
	WritesSplitFrame atomic.Int64 // a write ended strictly inside a frame
	WritesMultiFrame atomic.Int64 // a write contained a frame boundary strictly inside it
	BytesForwarded   atomic.Int64
	Cuts             atomic.Int64
	CutsInsideFrame  atomic.Int64
	FramesSeen       atomic.Int64
	Refused          atomic.Int64
	AcceptErrors     atomic.Int64
	HandshakesHeld   atomic.Int64
	HeldWithMore     atomic.Int64 // the client had sent more than its handshake by the end of the hold
}

// NewProxy listens on a free port and forwards to target.
func NewProxy(target string, plans ...ConnPlan) *Proxy {
	ln, err := net.Listen("tcp", "127.0.0.1:0")
	if err != nil {
		panic(err)
	}
	p := &Proxy{ln: ln, Addr: ln.Addr().String(), target: target, plans: plans}
	if len(p.plans) == 0 {
		p.plans = []ConnPlan{{Mode: "exact", CutAfter: -1}}
	}
	go p.accept()
	return p
}

// SetPlans replaces the plans for future connections.
func (p *Proxy) SetPlans(plans ...ConnPlan) {
	p.mu.Lock()
	p.plans = plans
	p.conns = 0
	p.mu.Unlock()
}

// DropAll closes every live connection.
func (p *Proxy) DropAll() {
	p.mu.Lock()
	for _, c := range p.live {
		_ = c.Close()
	}
	p.live = nil
	p.mu.Unlock()
}

// Close stops the proxy.
func (p *Proxy) Close() {
	p.closed.Store(true)
	_ = p.ln.Close()
	p.DropAll()
}

func (p *Proxy) accept() {
	for {
		c, err := p.ln.Accept()
		if err != nil {
			if p.closed.Load() {
				return
			}
			// a transient accept error (descriptor pressure on a busy machine) must not leave a listening socket
			// that nobody serves: connections would be established by the kernel and never answered
			p.AcceptErrors.Add(1)
			time.Sleep(5 * time.Millisecond)
			continue
		}
		p.mu.Lock()
		i := p.conns
		if i >= len(p.plans) {
			i = len(p.plans) - 1
		}
		plan := p.plans[i]
		p.conns++
		p.live = append(p.live, c)
		p.mu.Unlock()
		go p.serve(c, plan)
	}
}

func (p *Proxy) serve(client net.Conn, plan ConnPlan) {
	defer client.Close()
	if plan.Refuse {
		p.Refused.Add(1)
		return
	}
	if plan.BlackHole {
		_, _ = io.Copy(io.Discard, client)
		return
	}
	server, err := net.DialTimeout("tcp", p.target, 2*time.Second)
	if err != nil {
		return
	}
	defer server.Close()
	p.mu.Lock()
	p.live = append(p.live, server)
	p.mu.Unlock()
	if tc, ok := server.(*net.TCPConn); ok {
		_ = tc.SetNoDelay(true)
	}
	// server -> client: untouched
	go func() { _, _ = io.Copy(client, server); _ = client.Close() }()

	// the handshake: one length-prefixed string, forwarded as it is
	hdr := make([]byte, 4)
	if _, err := io.ReadFull(client, hdr); err != nil {
		return
	}
	n := binary.BigEndian.Uint32(hdr)
	if n > 4096 {
		return
	}
	body := make([]byte, n)
	if _, err := io.ReadFull(client, body); err != nil {
		return
	}
	first := append(append([]byte{}, hdr...), body...)
	if plan.HoldHandshake > 0 {
		p.HandshakesHeld.Add(1)
		deadline := time.Now().Add(plan.HoldHandshake)
		extra := make([]byte, 0, 1<<16)
		buf := make([]byte, 1<<16)
		for time.Now().Before(deadline) {
			_ = client.SetReadDeadline(deadline)
			k, err := client.Read(buf)
			extra = append(extra, buf[:k]...)
			if err != nil {
				break
			}
		}
		_ = client.SetReadDeadline(time.Time{})
		if len(extra) > 0 {
			// the client did not wait for the answer: everything in one write, then plain forwarding
			p.HeldWithMore.Add(1)
			if _, err := server.Write(append(first, extra...)); err != nil {
				return
			}
			_, _ = io.Copy(server, client)
			return
		}
	}
	if _, err := server.Write(first); err != nil {
		return
	}
	var sent int64 // post-handshake bytes forwarded
	cut := func() {
		p.Cuts.Add(1)
		_ = server.Close()
		_ = client.Close()
	}
	// write with accounting of frame geometry; frameOff = offset of data[0] inside the current frame (incl. its 4-byte prefix), frameLen = total length of that frame
	write := func(data []byte) bool {
		if plan.CutAfter >= 0 && sent+int64(len(data)) > plan.CutAfter {
			data = data[:plan.CutAfter-sent]
			if len(data) > 0 {
				_, _ = server.Write(data)
				sent += int64(len(data))
				p.BytesForwarded.Add(int64(len(data)))
			}
			cut()
			return false
		}
		if len(data) == 0 {
			return true
		}
		if _, err := server.Write(data); err != nil {
			return false
		}
		p.Writes.Add(1)
		sent += int64(len(data))
		p.BytesForwarded.Add(int64(len(data)))
		if plan.CutAfter >= 0 && sent == plan.CutAfter {
			cut()
			return false
		}
		return true
	}
	// read frames from the client
	var pending [][]byte // complete frames (with prefix) waiting for a coalesced write
	frameIdx := 0
	flush := func() bool {
		if len(pending) == 0 {
			return true
		}
		var buf []byte
		for _, f := range pending {
			buf = append(buf, f...)
		}
		if len(pending) > 1 {
			p.WritesMultiFrame.Add(1)
		}
		pending = nil
		return write(buf)
	}
	for {
		if plan.Mode == "coalesce" && len(pending) > 0 {
			// do not wait for ever for more frames: flush when the client is quiet
			_ = client.SetReadDeadline(time.Now().Add(30 * time.Millisecond))
		} else {
			_ = client.SetReadDeadline(time.Time{})
		}
		if _, err := io.ReadFull(client, hdr); err != nil {
			if ne, ok := err.(net.Error); ok && ne.Timeout() {
				if !flush() {
					return
				}
				continue
			}
			flush()
			return
		}
		fl := binary.BigEndian.Uint32(hdr)
		frame := make([]byte, 4+int(fl))
		copy(frame, hdr)
		_ = client.SetReadDeadline(time.Time{})
		if _, err := io.ReadFull(client, frame[4:]); err != nil {
			return
		}
		p.FramesSeen.Add(1)
		// injections happen in front of a real frame, i.e. after the handshake has completed on both
		// sides (a conforming client sends its first frame only then)
		if len(plan.Inject) > 0 && plan.InjectAt == frameIdx {
			if !flush() || !write(plan.Inject) {
				return
			}
		}
		frameIdx++
		if plan.CutAfter >= 0 && sent <= plan.CutAfter && plan.CutAfter < sent+int64(len(frame)) && plan.CutAfter > sent {
			p.CutsInsideFrame.Add(1)
		}
		switch plan.Mode {
		case "bytewise":
			lim := len(frame)
			if lim > 2048 {
				lim = 2048
			}
			for i := 0; i < lim; i++ {
				if i < len(frame)-1 {
					p.WritesSplitFrame.Add(1)
				}
				if !write(frame[i : i+1]) {
					return
				}
			}
			if lim < len(frame) && !write(frame[lim:]) {
				return
			}
		case "split":
			k := plan.N
			if k <= 0 || k >= len(frame) {
				k = len(frame) / 2
			}
			if k > 0 && k < len(frame) {
				p.WritesSplitFrame.Add(1)
				if !write(frame[:k]) {
					return
				}
				time.Sleep(time.Millisecond)
				if !write(frame[k:]) {
					return
				}
			} else if !write(frame) {
				return
			}
		case "chunks":
			sz := plan.N
			if sz <= 0 {
				sz = 7
			}
			for off := 0; off < len(frame); off += sz {
				end := off + sz
				if end > len(frame) {
					end = len(frame)
				} else {
					p.WritesSplitFrame.Add(1)
				}
				if !write(frame[off:end]) {
					return
				}
			}
		case "coalesce":
			pending = append(pending, frame)
			k := plan.N
			if k <= 0 {
				k = 8
			}
			if len(pending) >= k {
				if !flush() {
					return
				}
			}
		default: // exact
			if !write(frame) {
				return
			}
		}
	}
}
