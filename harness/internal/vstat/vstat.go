// Package vstat collects, inside a test process, what a check actually
// executed: number of cases, distinct non-trivial cases, class histograms,
// samples, violations and hits of known findings. The driver (cmd/vcheck)
// aggregates the per-process summaries into /verif/evidence/<id>.json.
//
// Nothing here is a constant: every number is counted from calls made by the
// property while it runs.
package vstat

import (
	"encoding/json"
	"fmt"
	"hash/fnv"
	"os"
	"sort"
	"sync"
)

// Violation is one failed oracle.
type Violation struct {
	Sig    string `json:"sig"`
	Detail string `json:"detail"`
	Case   any    `json:"case,omitempty"`
}

// Summary is what one test process writes.
type Summary struct {
	Evaluations   int64             `json:"evaluations"`
	Nontrivial    int64             `json:"nontrivial"`
	Distinct      []uint64          `json:"distinct"` // distinct hashes of non-trivial cases (capped)
	DistinctSat   bool              `json:"distinct_saturated"`
	Labels        map[string]int64  `json:"labels"`
	Samples       []any             `json:"samples"`
	Violations    []Violation       `json:"violations"`
	KnownHits     map[string]int64  `json:"known_hits"`
	KnownExamples map[string]string `json:"known_examples"`
	Excluded      int64             `json:"excluded_known"`
	Notes         []string          `json:"notes"`
	Extra         map[string]int64  `json:"extra"`
}

type knownFile struct {
	Findings []struct {
		ID        string `json:"id"`
		Property  string `json:"property"`
		Status    string `json:"status"`
		Signature string `json:"signature"`
	} `json:"findings"`
}

const maxDistinct = 1 << 21

var (
	mu       sync.Mutex
	sum      = newSummary()
	distinct = map[uint64]struct{}{}
	known    map[string]bool
	path     = os.Getenv("VERIF_STATS")
	maxSamp  = 12
	dirty    int
)

func newSummary() *Summary {
	return &Summary{Labels: map[string]int64{}, KnownHits: map[string]int64{}, KnownExamples: map[string]string{}, Extra: map[string]int64{}}
}

func loadKnown() {
	if known != nil {
		return
	}
	known = map[string]bool{}
	p := os.Getenv("VERIF_KNOWN")
	if p == "" {
		return
	}
	b, err := os.ReadFile(p)
	if err != nil {
		return
	}
	var kf knownFile
	if json.Unmarshal(b, &kf) != nil {
		return
	}
	for _, f := range kf.Findings {
		if f.Status == "known" {
			known[f.Signature] = true
		}
	}
}

// Hash hashes any printable description of an executed case.
func Hash(parts ...any) uint64 {
	h := fnv.New64a()
	for _, p := range parts {
		fmt.Fprintf(h, "%v|", p)
	}
	return h.Sum64()
}

// HashBytes hashes a byte string.
func HashBytes(b []byte) uint64 {
	h := fnv.New64a()
	h.Write(b)
	return h.Sum64()
}

// Case records one executed case. hash identifies what was executed,
// nontrivial is the property's stated rule evaluated on the execution, desc is
// evaluated only when the case is kept as a sample.
func Case(hash uint64, nontrivial bool, labels []string, desc func() any) {
	mu.Lock()
	defer mu.Unlock()
	sum.Evaluations++
	for _, l := range labels {
		sum.Labels[l]++
	}
	if nontrivial {
		sum.Nontrivial++
		if _, ok := distinct[hash]; !ok {
			if len(distinct) < maxDistinct {
				distinct[hash] = struct{}{}
				// keep early non-trivial samples and then a thinning stream of later ones
				n := len(distinct)
				if desc != nil && (len(sum.Samples) < maxSamp/2 || (n&(n-1)) == 0 && len(sum.Samples) < maxSamp) {
					sum.Samples = append(sum.Samples, desc())
				}
			} else {
				sum.DistinctSat = true
			}
		}
	}
	dirty++
	if dirty >= 20000 {
		flushLocked()
	}
}

// Known reports whether a violation signature is a listed known finding.
func Known(sig string) bool {
	mu.Lock()
	defer mu.Unlock()
	loadKnown()
	return known[sig]
}

// Fail records a violation. If the signature is listed as a known finding it
// is counted as a hit and true is returned (the caller must then not fail the
// test, so that the search continues behind it); otherwise the violation is
// stored and false is returned (the caller fails the test).
func Fail(sig, detail string, cs any) (isKnown bool) {
	mu.Lock()
	defer mu.Unlock()
	loadKnown()
	if known[sig] {
		sum.KnownHits[sig]++
		if _, ok := sum.KnownExamples[sig]; !ok {
			sum.KnownExamples[sig] = detail
		}
		flushLocked()
		return true
	}
	if len(sum.Violations) < 50 {
		sum.Violations = append(sum.Violations, Violation{Sig: sig, Detail: detail, Case: cs})
	}
	flushLocked()
	return false
}

// Excluded counts a case (or a class inside a case) that the generator left
// out because it is a listed known finding.
func Excluded(n int) {
	mu.Lock()
	sum.Excluded += int64(n)
	mu.Unlock()
}

// Add adds to a free-form counter (states, steps, bytes, ...).
func Add(key string, n int64) {
	mu.Lock()
	sum.Extra[key] += n
	mu.Unlock()
}

// Note attaches a free-text note (deduplicated).
func Note(s string) {
	mu.Lock()
	defer mu.Unlock()
	for _, n := range sum.Notes {
		if n == s {
			return
		}
	}
	if len(sum.Notes) < 40 {
		sum.Notes = append(sum.Notes, s)
	}
}

// Label bumps a class counter without counting a case.
func Label(l string) {
	mu.Lock()
	sum.Labels[l]++
	mu.Unlock()
}

// Flush writes the summary to $VERIF_STATS (atomically). Called from TestMain
// and whenever a violation is recorded.
func Flush() {
	mu.Lock()
	defer mu.Unlock()
	flushLocked()
}

func flushLocked() {
	dirty = 0
	if path == "" {
		return
	}
	sum.Distinct = sum.Distinct[:0]
	for h := range distinct {
		sum.Distinct = append(sum.Distinct, h)
	}
	sort.Slice(sum.Distinct, func(i, j int) bool { return sum.Distinct[i] < sum.Distinct[j] })
	b, err := json.Marshal(sum)
	if err != nil {
		// a sample that cannot be marshalled must not hide the counts
		sum.Samples = []any{fmt.Sprintf("unmarshalable sample: %v", err)}
		b, _ = json.Marshal(sum)
	}
	tmp := path + ".tmp"
	if os.WriteFile(tmp, b, 0o644) == nil {
		_ = os.Rename(tmp, path)
	}
}

// FailFast ends the test process at the first oracle verdict when the driver asked for it
// (VERIF_FAILFAST=1): real-time units whose failing cases take minutes must not be re-run by
// the property library's shrinker. The case that failed is in the statistics file.
func FailFast(sig, detail string) {
	if os.Getenv("VERIF_FAILFAST") != "1" {
		return
	}
	fmt.Printf("VERIF-FAIL sig=%s :: %s\n", sig, detail)
	Flush()
	os.Exit(1)
}

// Main is a TestMain body: run, flush, exit.
func Main(run func() int) {
	code := run()
	Flush()
	os.Exit(code)
}
