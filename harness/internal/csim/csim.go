// Package csim is a deterministic discrete-event simulation of a cluster of
// real cluster.NodeActor values. Nothing of the membership protocol is
// re-implemented here: the nodes run the library's join / gossip / merge /
// failure-detection / leader code, and every message between two nodes is
// encoded and decoded with the library's remoting envelope codec. The
// simulation owns what the property quantifies over: start order, timer
// phases, per-message latency, losses, partitions, connection resets, crashes,
// restarts and graceful leaves.
//
// Run must be called inside a testing/synctest bubble: the library reads the
// clock with time.Now, and the simulation advances the bubble's clock by
// sleeping to the next event.
//
// Runtime semantics taken from the real system:
//   - an actor handles one message at a time, in arrival order (a queue per node);
//   - a handler runs to completion except inside ctx.Ask(...).Result(), where
//     the node is parked until the reply or the timeout; its queue keeps filling;
//   - the reply to an Ask goes to a future, not through the asker's queue;
//   - one ordered connection per pair of nodes (per-link FIFO), arbitrary
//     interleaving between links;
//   - scheduler jobs deliver their message through the node's queue;
//   - a message to a crashed, left or partitioned-away node is lost and Tell
//     never reports it.
package csim

import (
	"encoding/json"
	"container/heap"
	"fmt"
	"math/rand"
	"runtime/debug"
	"sort"
	"strings"
	"time"

	"github.com/kercylan98/vivid"
	"github.com/kercylan98/vivid/internal/cluster"
	"github.com/kercylan98/vivid/internal/mailbox"
	"github.com/kercylan98/vivid/internal/remoting/serialize"
	"github.com/kercylan98/vivid/pkg/log"
	"github.com/kercylan98/vivid/pkg/metrics"
	"github.com/kercylan98/vivid/pkg/ves"
)

const clusterPath = "/@cluster"

// NodeCfg configures one node (all durations in milliseconds so that a case is plain JSON).
type NodeCfg struct {
	Addr      string   `json:"addr"`
	ID        string   `json:"id"`
	Seeds     []string `json:"seeds"`
	StartMs   int      `json:"startMs"`
	FDMs      int      `json:"fdMs,omitempty"`      // failure detection timeout; 0 = library default (40 s)
	GossipMs  int      `json:"gossipMs,omitempty"`  // discovery interval; 0 = library default (1 s)
	SuspectMs int      `json:"suspectMs,omitempty"` // suspect confirm duration; 0 = none (library default)
	RateLimit int      `json:"rateLimit,omitempty"` // gossip rate limit, messages per second; 0 = none (library default)
	RateBurst int      `json:"rateBurst,omitempty"`
}

// Fault is one scheduled event of the fault phase.
type Fault struct {
	AtMs int    `json:"atMs"`
	Kind string `json:"kind"` // crash | restart | leave | partition | heal | reset | loss-on | loss-off
	Node int    `json:"node,omitempty"`
	Side []int  `json:"side,omitempty"` // partition: these nodes on one side, all others on the other
	// restart: the node comes back on a new address (same node id): its old address answers nobody any more
	NewAddr bool `json:"newAddr,omitempty"`
}

// Config is one complete scenario.
type Config struct {
	Nodes      []NodeCfg `json:"nodes"`
	Faults     []Fault   `json:"faults"`
	LatMs      []int     `json:"latMs"`          // latency tape, consumed cyclically, one entry per message
	Loss       []int     `json:"loss,omitempty"` // loss tape (1 = drop), consumed cyclically while loss is on
	FaultEndMs int       `json:"faultEndMs"`     // partitions heal and loss stops here; no fault is later
	QuietMs    int       `json:"quietMs"`        // observed time after FaultEndMs
	SampleMs   int       `json:"sampleMs"`       // sampling period during the quiet phase
	RandSeed   int64     `json:"randSeed"`       // seeds the global math/rand the library shuffles with
}

// MemberRec is one entry of one node's view.
type MemberRec struct {
	ID      string `json:"id"`
	Addr    string `json:"addr"`
	Gen     int    `json:"gen"`
	LClock  uint64 `json:"lclock"`
	Stamp   int64  `json:"stamp"`
	Status  int    `json:"status"`
	LastSee int64  `json:"-"`
}

// Sample is what every running node believed at one instant.
type Sample struct {
	AtMs    int                 `json:"atMs"`
	Views   map[int][]MemberRec `json:"views"`  // node index -> members sorted by ID
	Leaders map[int]string      `json:"leader"` // node index -> ComputeLeaderAddr of its view
}

// EventRec is one event a node published on its event stream.
type EventRec struct {
	AtMs      int      `json:"atMs"`
	Node      int      `json:"node"`
	Inc       int      `json:"inc"`
	Kind      string   `json:"kind"` // members | leader | view | quorum-lost | quorum-reached | leave-completed | dc-health
	Leader    string   `json:"leader,omitempty"`
	IAmLeader bool     `json:"iAmLeader,omitempty"`
	InQuorum  bool     `json:"inQuorum,omitempty"`
	Added     int      `json:"added,omitempty"`
	Removed   []string `json:"removed,omitempty"`
	Members   []string `json:"members,omitempty"`
}

// Life describes one incarnation of a node.
type Life struct {
	Node    int    `json:"node"`
	Inc     int    `json:"inc"`
	StartMs int    `json:"startMs"`
	EndMs   int    `json:"endMs"` // -1 = running at the end
	Stamp   int64  `json:"stamp"` // NodeState.Timestamp of this incarnation at creation
	How     string `json:"how,omitempty"`
}

// Result is everything the oracle needs.
type Result struct {
	Samples  []Sample   `json:"samples"`
	Events   []EventRec `json:"events"`
	Lives    []Life     `json:"lives"`
	Running  []int      `json:"running"`
	Gap      string     `json:"gap,omitempty"`   // the simulation does not implement something the node used
	Panic    string     `json:"panic,omitempty"` // a node's handler panicked
	Sent     int        `json:"sent"`
	Dropped  int        `json:"dropped"`
	Encoded  int        `json:"encoded"`
	EncodeEr []string   `json:"encodeErrors,omitempty"`
	Asks     int        `json:"asks"`
	AskFail  int        `json:"askFailures"`
	Handled  int        `json:"handled"`
	FaultLog []string   `json:"faultLog,omitempty"`
	Addrs    [][]string `json:"addrs"` // per node: every address it has used, the current one last
}

// Events at the same instant are ordered by a key that does not depend on the order in which they were
// created (the library iterates over maps, so the creation order of the sends of one handler is random):
// scenario events first, then per node its own timers and continuations in the order the node created
// them, then deliveries by (destination, source, position on the link).
type event struct {
	at         time.Time
	class      int
	k1, k2, k3 int
	fn         func()
}
type evHeap []*event

func (h evHeap) Len() int { return len(h) }
func (h evHeap) Less(i, j int) bool {
	a, b := h[i], h[j]
	if !a.at.Equal(b.at) {
		return a.at.Before(b.at)
	}
	if a.class != b.class {
		return a.class < b.class
	}
	if a.k1 != b.k1 {
		return a.k1 < b.k1
	}
	if a.k2 != b.k2 {
		return a.k2 < b.k2
	}
	return a.k3 < b.k3
}
func (h evHeap) Swap(i, j int) { h[i], h[j] = h[j], h[i] }
func (h *evHeap) Push(x any)   { *h = append(*h, x.(*event)) }
func (h *evHeap) Pop() any {
	old := *h
	n := len(old)
	x := old[n-1]
	*h = old[:n-1]
	return x
}

type delivery struct {
	msg    vivid.Message
	sender vivid.ActorRef
}

type yieldKind int

const (
	yDone yieldKind = iota
	yParked
)

type askResult struct {
	msg vivid.Message
	err error
}

type ask struct {
	id   int
	n    *node
	done bool
}

type timer struct {
	interval time.Duration
	msg      vivid.Message
	loop     bool
}

type node struct {
	s      *sim
	idx    int
	inc    int
	cfg    NodeCfg
	actor  *cluster.NodeActor
	alive  bool
	busy   bool
	parked bool
	ctr    int
	queue  []delivery
	timers map[string]*timer
	resume chan delivery
	yield  chan yieldKind
	wake   chan askResult
	life   int // index into res.Lives
}

type sim struct {
	cfg      Config
	start    time.Time
	heap     evHeap
	seq      int
	nodes    []*node // current incarnation per index (nil before its start)
	all      []*node
	byAddr   map[string]int
	linkLast map[[2]int]time.Time
	linkGen  map[[2]int]int
	linkCnt  map[[2]int]int
	lossOn   bool
	side     map[int]int // nil = no partition
	asks     map[int]*ask
	askSeq   int
	res      *Result
	stopped  bool
}

func (s *sim) nowMs() int { return int(time.Since(s.start) / time.Millisecond) }

// at schedules a scenario-level event (creation order is fixed by the case).
func (s *sim) at(d time.Duration, fn func()) {
	s.seq++
	heap.Push(&s.heap, &event{at: time.Now().Add(d), class: 0, k1: s.seq, fn: fn})
}

// atNode schedules something node n set up itself (timer, continuation, ask timeout).
func (s *sim) atNode(n *node, d time.Duration, fn func()) {
	n.ctr++
	heap.Push(&s.heap, &event{at: time.Now().Add(d), class: 1, k1: n.idx, k2: n.inc, k3: n.ctr, fn: fn})
}

// atLink schedules the delivery of the cnt-th message of link src->dst.
func (s *sim) atLink(t time.Time, dst, src, cnt int, fn func()) {
	heap.Push(&s.heap, &event{at: t, class: 2, k1: dst, k2: src, k3: cnt, fn: fn})
}

func (s *sim) connected(a, b int) bool {
	if s.side == nil {
		return true
	}
	return s.side[a] == s.side[b]
}

// latency and loss of the cnt-th message of a link: a function of the link and the position only
func (s *sim) latOf(src, dst, cnt int) time.Duration {
	if len(s.cfg.LatMs) == 0 {
		return time.Millisecond
	}
	l := s.cfg.LatMs[(src*5+dst*3+cnt)%len(s.cfg.LatMs)]
	if l < 0 {
		l = 0
	}
	return time.Duration(l) * time.Millisecond
}

func (s *sim) lose(src, dst, cnt int) bool {
	if !s.lossOn || len(s.cfg.Loss) == 0 {
		return false
	}
	return s.cfg.Loss[(src*7+dst*11+cnt)%len(s.cfg.Loss)] == 1
}

type ref struct{ addr, path string }

func (r ref) GetAddress() string       { return r.addr }
func (r ref) GetPath() vivid.ActorPath { return r.path }
func (r ref) Equals(o vivid.ActorRef) bool {
	return o != nil && o.GetAddress() == r.addr && o.GetPath() == r.path
}
func (r ref) Clone() vivid.ActorRef        { return r }
func (r ref) ToActorRefs() vivid.ActorRefs { return vivid.ActorRefs{r} }
func (r ref) String() string               { return r.addr + r.path }

// send puts one message on the simulated wire (real envelope codec both ways).
func (s *sim) send(from *node, fromPath string, to vivid.ActorRef, m vivid.Message) {
	if !from.alive {
		return
	}
	s.res.Sent++
	dst, ok := s.byAddr[to.GetAddress()]
	if !ok {
		s.res.Dropped++
		return
	}
	if dst == from.idx {
		// a message to an actor of the same system does not cross the wire
		s.localDeliver(from, fromPath, to.GetPath(), m)
		return
	}
	data, err := serialize.EncodeEnvelopWithRemoting(nil, mailbox.NewEnvelop(false, ref{from.cfg.Addr, fromPath}, ref{to.GetAddress(), to.GetPath()}, m))
	if err != nil {
		s.res.Dropped++
		if len(s.res.EncodeEr) < 5 {
			s.res.EncodeEr = append(s.res.EncodeEr, fmt.Sprintf("%T: %v", m, err))
		}
		return
	}
	s.res.Encoded++
	target := s.nodes[dst]
	link := [2]int{from.idx, dst}
	s.linkCnt[link]++
	cnt := s.linkCnt[link]
	if target == nil || !target.alive || !s.connected(from.idx, dst) || s.lose(from.idx, dst, cnt) {
		s.res.Dropped++
		return
	}
	gen := s.linkGen[link]
	when := time.Now().Add(s.latOf(from.idx, dst, cnt))
	if last, ok := s.linkLast[link]; ok && when.Before(last) {
		when = last // one ordered connection per pair
	}
	s.linkLast[link] = when
	srcIdx := from.idx
	s.atLink(when, dst, srcIdx, cnt, func() {
		cur := s.nodes[dst]
		if cur != target || !cur.alive || s.linkGen[link] != gen || !s.connected(srcIdx, dst) {
			s.res.Dropped++
			return
		}
		_, sa, sp, _, rp, inst, err := serialize.DecodeEnvelopWithRemoting(nil, data)
		if err != nil {
			s.res.Dropped++
			if len(s.res.EncodeEr) < 5 {
				s.res.EncodeEr = append(s.res.EncodeEr, fmt.Sprintf("decode %T: %v", m, err))
			}
			return
		}
		if TraceFn != nil {
			TraceFn(fmt.Sprintf("+%dms n%d(inc %d) -> n%d(inc %d): %T %s", s.nowMs(), srcIdx, from.inc, dst, cur.inc, inst, traceMsg(inst)))
		}
		s.arrive(cur, rp, inst, ref{sa, sp})
	})
}

// TraceFn, when set (debugging a replay), receives one line per delivered inter-node message.
var TraceFn func(string)

func traceMsg(m any) string {
	b, err := json.Marshal(m)
	if err != nil {
		return ""
	}
	if len(b) > 6000 {
		b = b[:6000]
	}
	return string(b)
}

func (s *sim) localDeliver(n *node, fromPath, toPath string, m vivid.Message) {
	s.atNode(n, 0, func() {
		if s.nodes[n.idx] != n || !n.alive {
			return
		}
		s.arrive(n, toPath, m, ref{n.cfg.Addr, fromPath})
	})
}

// arrive hands a decoded message to the addressed actor of node n.
func (s *sim) arrive(n *node, path string, m vivid.Message, sender vivid.ActorRef) {
	if strings.HasPrefix(path, "/@future-") {
		var id int
		_, _ = fmt.Sscanf(path, "/@future-%d", &id)
		a := s.asks[id]
		if a == nil || a.done || a.n != n || !n.alive {
			return // late or foreign reply: a dead letter in the real system
		}
		a.done = true
		delete(s.asks, id)
		r := askResult{}
		switch v := m.(type) {
		case error:
			r.err = v
		case nil:
		default:
			r.msg = v
		}
		s.wakeNode(n, r)
		return
	}
	if path != clusterPath {
		return // no such actor: dead letter
	}
	s.dispatch(n, delivery{msg: m, sender: sender})
}

func (s *sim) dispatch(n *node, d delivery) {
	if !n.alive {
		return
	}
	if n.busy {
		n.queue = append(n.queue, d)
		return
	}
	n.busy = true
	n.resume <- d
	s.waitYield(n)
}

func (s *sim) waitYield(n *node) {
	y := <-n.yield
	if y == yParked {
		n.parked = true
		return
	}
	s.res.Handled++
	n.busy = false
	if len(n.queue) > 0 && n.alive {
		next := n.queue[0]
		n.queue = n.queue[1:]
		n.busy = true // keeps arrival order: later arrivals queue behind
		s.atNode(n, 0, func() {
			if !n.alive {
				return
			}
			n.resume <- next
			s.waitYield(n)
		})
	}
}

func (s *sim) wakeNode(n *node, r askResult) {
	n.parked = false
	n.wake <- r
	s.waitYield(n)
}

func (n *node) loop() {
	for d := range n.resume {
		func() {
			defer func() {
				if r := recover(); r != nil {
					if !n.alive {
						return // a handler released after its process was killed
					}
					msg := fmt.Sprint(r)
					if strings.Contains(msg, "simulation gap") || panicInSimulation(string(debug.Stack())) {
						// a method of the embedded nil ActorContext / ActorSystem: the simulation lacks something
						if n.s.res.Gap == "" {
							n.s.res.Gap = fmt.Sprintf("node %d handling %T: %v", n.idx, d.msg, r)
						}
					} else if n.s.res.Panic == "" {
						n.s.res.Panic = fmt.Sprintf("node %d (%s) handling %T panicked: %v\n%s", n.idx, n.cfg.Addr, d.msg, r, debug.Stack())
					}
				}
			}()
			n.actor.OnReceive(&ctx{n: n, msg: d.msg, sender: d.sender})
		}()
		n.yield <- yDone
	}
}

// panicInSimulation: the first non-runtime frame below the panic is one of this package's promoted
// methods of an embedded nil interface.
func panicInSimulation(stack string) bool {
	lines := strings.Split(stack, "\n")
	seenPanic := false
	for _, l := range lines {
		if strings.HasPrefix(l, "\t") {
			continue
		}
		if strings.HasPrefix(l, "panic(") {
			seenPanic = true
			continue
		}
		if !seenPanic || strings.HasPrefix(l, "runtime.") {
			continue
		}
		return strings.Contains(l, "/csim.")
	}
	return false
}

func (n *node) arm(key string, tm *timer) {
	if !n.alive {
		return
	}
	n.timers[key] = tm
	s := n.s
	var fire func()
	fire = func() {
		if !n.alive || n.timers[key] != tm {
			return
		}
		if tm.loop {
			s.atNode(n, tm.interval, fire)
		} else {
			delete(n.timers, key)
		}
		s.dispatch(n, delivery{msg: tm.msg})
	}
	s.atNode(n, tm.interval, fire)
}

// ---- the simulated ActorContext (exactly what NodeActor uses)

type ctx struct {
	vivid.ActorContext // nil: anything else NodeActor might call panics and is reported as a simulation gap
	n                  *node
	msg                vivid.Message
	sender             vivid.ActorRef
}

type nopLogger struct{}

func (nopLogger) Debug(string, ...any)          {}
func (nopLogger) Info(string, ...any)           {}
func (nopLogger) Warn(string, ...any)           {}
func (nopLogger) Error(string, ...any)          {}
func (l nopLogger) With(...any) log.Logger      { return l }
func (l nopLogger) WithGroup(string) log.Logger { return l }

func (c *ctx) Message() vivid.Message         { return c.msg }
func (c *ctx) Sender() vivid.ActorRef         { return c.sender }
func (c *ctx) Ref() vivid.ActorRef            { return ref{c.n.cfg.Addr, clusterPath} }
func (c *ctx) Logger() log.Logger             { return nopLogger{} }
func (c *ctx) MetricsEnabled() bool           { return false }
func (c *ctx) Metrics() metrics.Metrics       { return nil }
func (c *ctx) System() vivid.ActorSystem      { return &system{n: c.n} }
func (c *ctx) EventStream() vivid.EventStream { return &stream{n: c.n} }
func (c *ctx) Scheduler() vivid.Scheduler     { return &sched{n: c.n} }
func (c *ctx) TellSelf(m vivid.Message) {
	n := c.n
	if !n.alive {
		return
	}
	n.s.atNode(n, 0, func() { n.s.dispatch(n, delivery{msg: m, sender: ref{n.cfg.Addr, clusterPath}}) })
}
func (c *ctx) Tell(to vivid.ActorRef, m vivid.Message) {
	if to == nil {
		return
	}
	c.n.s.send(c.n, clusterPath, to, m)
}
func (c *ctx) Reply(m vivid.Message) {
	if c.sender == nil {
		return
	}
	c.Tell(c.sender, m)
}
func (c *ctx) Ask(to vivid.ActorRef, m vivid.Message, timeout ...time.Duration) vivid.Future[vivid.Message] {
	n, s := c.n, c.n.s
	if !n.alive {
		return future{askResult{err: vivid.ErrorFutureTimeout}}
	}
	s.res.Asks++
	s.askSeq++
	a := &ask{id: s.askSeq, n: n}
	s.asks[a.id] = a
	d := 5 * time.Second
	if len(timeout) > 0 && timeout[0] > 0 {
		d = timeout[0]
	}
	s.send(n, fmt.Sprintf("/@future-%d", a.id), to, m)
	s.atNode(n, d, func() {
		if a.done || !n.alive {
			return
		}
		a.done = true
		delete(s.asks, a.id)
		s.wakeNode(n, askResult{err: vivid.ErrorFutureTimeout})
	})
	n.yield <- yParked
	r := <-n.wake
	if r.err != nil {
		s.res.AskFail++
	}
	return future{r}
}

type future struct{ r askResult }

func (f future) Close(error)                    {}
func (f future) Result() (vivid.Message, error) { return f.r.msg, f.r.err }
func (f future) Wait() error                    { return f.r.err }
func (f future) PipeTo(vivid.ActorRefs) error   { return nil }

type system struct {
	vivid.ActorSystem
	n *node
}

func (s *system) CreateRef(address, path string) (vivid.ActorRef, error) {
	return ref{address, path}, nil
}

type stream struct{ n *node }

func (s *stream) Subscribe(vivid.EventStreamContext, vivid.Message)   {}
func (s *stream) Unsubscribe(vivid.EventStreamContext, vivid.Message) {}
func (s *stream) UnsubscribeAll(vivid.EventStreamContext)             {}
func (s *stream) Publish(_ vivid.EventStreamContext, ev vivid.Message) {
	n := s.n
	if !n.alive {
		return
	}
	r := EventRec{AtMs: n.s.nowMs(), Node: n.idx, Inc: n.inc}
	switch e := ev.(type) {
	case ves.ClusterMembersChangedEvent:
		r.Kind, r.Added, r.Removed = "members", e.AddedNum, append([]string(nil), e.Removed...)
		sort.Strings(r.Removed)
		r.Members = append([]string(nil), e.Members...)
		sort.Strings(r.Members)
	case ves.ClusterLeaderChangedEvent:
		r.Kind, r.Leader, r.IAmLeader, r.InQuorum = "leader", e.LeaderAddr, e.IAmLeader, e.InQuorum
	case ves.ClusterViewChangedEvent:
		r.Kind, r.Added, r.Removed = "view", e.AddedNum, append([]string(nil), e.Removed...)
		sort.Strings(r.Removed)
	case ves.ClusterQuorumLostEvent:
		r.Kind = "quorum-lost"
	case ves.ClusterQuorumReachedEvent:
		r.Kind = "quorum-reached"
	case ves.ClusterLeaveCompletedEvent:
		r.Kind = "leave-completed"
	case ves.ClusterDCHealthChangedEvent:
		r.Kind = "dc-health"
	default:
		r.Kind = fmt.Sprintf("%T", ev)
	}
	n.s.res.Events = append(n.s.res.Events, r)
}

type sched struct{ n *node }

func (s *sched) Cron(vivid.ActorRef, string, vivid.Message, ...vivid.ScheduleOption) error {
	panic("simulation gap: Scheduler.Cron")
}
func (s *sched) Once(_ vivid.ActorRef, d time.Duration, m vivid.Message, o ...vivid.ScheduleOption) error {
	s.n.arm(vivid.NewScheduleOptions(o...).Reference, &timer{interval: d, msg: m})
	return nil
}
func (s *sched) Loop(_ vivid.ActorRef, d time.Duration, m vivid.Message, o ...vivid.ScheduleOption) error {
	s.n.arm(vivid.NewScheduleOptions(o...).Reference, &timer{interval: d, msg: m, loop: true})
	return nil
}
func (s *sched) Exists(key string) bool { _, ok := s.n.timers[key]; return ok }
func (s *sched) Cancel(key string) error {
	delete(s.n.timers, key)
	return nil
}
func (s *sched) Clear() { s.n.timers = map[string]*timer{} }

// ---- node life cycle

func (s *sim) startNode(i int, how string) {
	c := s.cfg.Nodes[i]
	opts := []vivid.ClusterOption{vivid.WithClusterNodeID(c.ID), vivid.WithClusterName("verif"), vivid.WithClusterSeeds(c.Seeds)}
	if c.FDMs > 0 {
		opts = append(opts, vivid.WithClusterFailureDetectionTimeout(time.Duration(c.FDMs)*time.Millisecond))
	}
	if c.GossipMs > 0 {
		opts = append(opts, vivid.WithClusterDiscoveryInterval(time.Duration(c.GossipMs)*time.Millisecond))
	}
	if c.SuspectMs > 0 {
		opts = append(opts, vivid.WithClusterSuspectConfirmDuration(time.Duration(c.SuspectMs)*time.Millisecond))
	}
	if c.RateLimit > 0 {
		opts = append(opts, vivid.WithClusterGossipRateLimit(float64(c.RateLimit), c.RateBurst))
	}
	inc := 0
	if old := s.nodes[i]; old != nil {
		inc = old.inc + 1
	}
	n := &node{s: s, idx: i, inc: inc, cfg: c, alive: true, timers: map[string]*timer{},
		resume: make(chan delivery), yield: make(chan yieldKind), wake: make(chan askResult)}
	n.actor = cluster.NewNodeActor(c.Addr, *vivid.NewClusterOptions(opts...))
	s.nodes[i] = n
	s.all = append(s.all, n)
	n.life = len(s.res.Lives)
	s.res.Lives = append(s.res.Lives, Life{Node: i, Inc: inc, StartMs: s.nowMs(), EndMs: -1, Stamp: n.actor.VerifSelf().Timestamp, How: how})
	go n.loop()
	s.dispatch(n, delivery{msg: &vivid.OnLaunch{}})
}

// kill stops the process abruptly: timers die, queued and in-flight messages are lost.
func (s *sim) kill(n *node, how string) {
	if n == nil || !n.alive {
		return
	}
	n.alive = false
	n.timers = map[string]*timer{}
	n.queue = nil
	s.res.Lives[n.life].EndMs = s.nowMs()
	s.res.Lives[n.life].How += "/" + how
	for k := range s.linkGen {
		if k[0] == n.idx || k[1] == n.idx {
			s.linkGen[k]++
		}
	}
	for l := range s.linkLast {
		if l[0] == n.idx || l[1] == n.idx {
			delete(s.linkLast, l)
		}
	}
	// a handler parked inside Ask dies with its process: release its goroutine, every effect of a dead node is suppressed
	for id, a := range s.asks {
		if a.n == n {
			a.done = true
			delete(s.asks, id)
		}
	}
	if n.parked {
		s.wakeNode(n, askResult{err: vivid.ErrorFutureTimeout})
	}
}

func (s *sim) applyFault(f Fault) {
	log := func(format string, a ...any) {
		s.res.FaultLog = append(s.res.FaultLog, fmt.Sprintf("+%dms ", s.nowMs())+fmt.Sprintf(format, a...))
	}
	switch f.Kind {
	case "crash":
		if n := s.nodes[f.Node]; n != nil && n.alive {
			s.kill(n, "crash")
			log("crash %d", f.Node)
		}
	case "restart":
		if n := s.nodes[f.Node]; n != nil {
			if n.alive {
				s.kill(n, "crash")
			}
			if f.NewAddr {
				old := s.cfg.Nodes[f.Node].Addr
				host, port, _ := strings.Cut(old, ":")
				var p int
				_, _ = fmt.Sscanf(port, "%d", &p)
				fresh := fmt.Sprintf("%s:%d", host, p+100)
				delete(s.byAddr, old)
				s.byAddr[fresh] = f.Node
				s.cfg.Nodes[f.Node].Addr = fresh
				s.res.Addrs[f.Node] = append(s.res.Addrs[f.Node], fresh)
				log("restart %d on the new address %s", f.Node, fresh)
			} else {
				log("restart %d", f.Node)
			}
			s.startNode(f.Node, "restart")
		}
	case "leave":
		if n := s.nodes[f.Node]; n != nil && n.alive {
			log("leave %d", f.Node)
			s.dispatch(n, delivery{msg: &cluster.LeaveRequest{}})
			// the system stops once the node reported that it has left (or after the stop timeout)
			var poll func(k int)
			poll = func(k int) {
				if !n.alive {
					return
				}
				left := false
				for _, e := range s.res.Events {
					if e.Node == n.idx && e.Inc == n.inc && e.Kind == "leave-completed" {
						left = true
					}
				}
				if left || k > 100 {
					s.kill(n, "left")
					return
				}
				s.atNode(n, 100*time.Millisecond, func() { poll(k + 1) })
			}
			s.atNode(n, time.Millisecond, func() { poll(0) })
		}
	case "partition":
		s.side = map[int]int{}
		for _, i := range f.Side {
			s.side[i] = 1
		}
		log("partition %v | rest", f.Side)
	case "heal":
		s.side = nil
		log("heal")
	case "reset":
		for k := range s.linkGen {
			s.linkGen[k]++
		}
		for i := range s.cfg.Nodes {
			for j := range s.cfg.Nodes {
				s.linkGen[[2]int{i, j}]++
			}
		}
		s.linkLast = map[[2]int]time.Time{}
		log("reset of all connections")
	case "loss-on":
		s.lossOn = true
		log("loss on")
	case "loss-off":
		s.lossOn = false
		log("loss off")
	}
}

func (s *sim) sample() {
	smp := Sample{AtMs: s.nowMs(), Views: map[int][]MemberRec{}, Leaders: map[int]string{}}
	for i, n := range s.nodes {
		if n == nil || !n.alive {
			continue
		}
		v := n.actor.VerifView()
		var ms []MemberRec
		for _, m := range v.Members {
			if m == nil {
				continue
			}
			ms = append(ms, MemberRec{ID: m.ID, Addr: m.Address, Gen: m.Generation, LClock: m.LogicalClock, Stamp: m.Timestamp, Status: int(m.Status), LastSee: m.LastSeen})
		}
		sort.Slice(ms, func(a, b int) bool { return ms[a].ID < ms[b].ID })
		smp.Views[i] = ms
		smp.Leaders[i] = cluster.ComputeLeaderAddr(v)
	}
	s.res.Samples = append(s.res.Samples, smp)
}

// Run executes the scenario. It must be called inside a synctest bubble.
func Run(cfg Config) *Result {
	rand.Seed(cfg.RandSeed)                          //nolint:staticcheck // the library shuffles with the global source (GODEBUG randseednop=0 in the test binary)
	cfg.Nodes = append([]NodeCfg(nil), cfg.Nodes...) // a restart on a new address rewrites the node's configuration
	s := &sim{cfg: cfg, start: time.Now(), nodes: make([]*node, len(cfg.Nodes)), byAddr: map[string]int{},
		linkLast: map[[2]int]time.Time{}, linkGen: map[[2]int]int{}, linkCnt: map[[2]int]int{}, asks: map[int]*ask{}, res: &Result{}}
	for i, n := range cfg.Nodes {
		s.byAddr[n.Addr] = i
		s.res.Addrs = append(s.res.Addrs, []string{n.Addr})
	}
	for i, n := range cfg.Nodes {
		i := i
		s.at(time.Duration(n.StartMs)*time.Millisecond, func() { s.startNode(i, "start") })
	}
	for _, f := range cfg.Faults {
		f := f
		s.at(time.Duration(f.AtMs)*time.Millisecond, func() { s.applyFault(f) })
	}
	s.at(time.Duration(cfg.FaultEndMs)*time.Millisecond, func() {
		s.side = nil
		s.lossOn = false
		s.res.FaultLog = append(s.res.FaultLog, fmt.Sprintf("+%dms faults end", s.nowMs()))
	})
	every := cfg.SampleMs
	if every <= 0 {
		every = 1000
	}
	for t := cfg.FaultEndMs; t <= cfg.FaultEndMs+cfg.QuietMs; t += every {
		s.at(time.Duration(t)*time.Millisecond+500*time.Microsecond, s.sample)
	}
	deadline := s.start.Add(time.Duration(cfg.FaultEndMs+cfg.QuietMs)*time.Millisecond + time.Millisecond)
	for s.heap.Len() > 0 && !s.heap[0].at.After(deadline) && s.res.Gap == "" && s.res.Panic == "" {
		ev := heap.Pop(&s.heap).(*event)
		if d := time.Until(ev.at); d > 0 {
			time.Sleep(d)
		}
		ev.fn()
	}
	for i, n := range s.nodes {
		if n != nil && n.alive {
			s.res.Running = append(s.res.Running, i)
		}
	}
	s.stopped = true
	for _, n := range s.all {
		if n.alive {
			n.alive = false
			if n.parked {
				s.wakeNode(n, askResult{err: vivid.ErrorFutureTimeout})
			}
		}
		close(n.resume)
	}
	return s.res
}
