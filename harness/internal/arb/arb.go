// Package arb builds rapid generators for arbitrary Go types by reflection and
// a semantic equality for what the wire codec is able to preserve.
package arb

import (
	"errors"
	"fmt"
	"math"
	"reflect"
	"sort"
	"strings"
	"time"
	"unsafe"

	"github.com/kercylan98/vivid"
	"github.com/kercylan98/vivid/internal/actor"
	"github.com/kercylan98/vivid/internal/cluster"
	"github.com/kercylan98/vivid/internal/messages"
	"pgregory.net/rapid"
)

var (
	tTime     = reflect.TypeOf(time.Time{})
	tDuration = reflect.TypeOf(time.Duration(0))
	tRef      = reflect.TypeOf((*vivid.ActorRef)(nil)).Elem()
	tError    = reflect.TypeOf((*error)(nil)).Elem()
	tAny      = reflect.TypeOf((*any)(nil)).Elem()
	tVV       = reflect.TypeOf(cluster.VersionVector{})
	tVErr     = reflect.TypeOf(vivid.Error{})
)

// Opt tunes generation.
type Opt struct {
	// Registry: name -> struct type of every registered wire message.
	Registry map[string]reflect.Type
	// NilMessage allows nil for interface-typed message fields.
	NilMessage bool
	// Outside, when set, supplies messages only a user Codec knows (not registered) for interface-typed message fields,
	// in about one case of four.
	Outside func(t *rapid.T) any
	// NilPointers allows nil for pointer fields whose writer dereferences them.
	NilPointers bool
	// Names restricts nested messages (empty = all registered).
	MaxDepth int
}

// Strings that matter to a length-prefixed codec.
func genString() *rapid.Generator[string] {
	return rapid.OneOf(
		rapid.SampledFrom([]string{"", "", "a", "node-1", "127.0.0.1:8080", "/user/a", "\x00", "\xff\xfe", "日本語", string(make([]byte, 255)), string(make([]byte, 256)), string(make([]byte, 300))}),
		rapid.StringN(0, 40, 200),
		rapid.String(),
	)
}

func genBytes() *rapid.Generator[[]byte] {
	return rapid.OneOf(
		rapid.SampledFrom([][]byte{nil, {}, {0}, {0xff}, make([]byte, 255), make([]byte, 256), make([]byte, 4097)}),
		rapid.SliceOfN(rapid.Byte(), 0, 300),
	)
}

var hostAddrs = []string{"127.0.0.1:8080", "localhost", "example.com:1", "10.1.2.3:65535", "[::1]:9000"}
var paths = []string{"/", "/a", "/user/worker-1", "/@cluster", "/a/b/c/d", "/x/@future@6ba7b810-9dad-11d1-80b4-00c04fd430c8"}

// GenRef generates an *actor.Ref (never nil).
func GenRef(t *rapid.T) *actor.Ref {
	r, err := actor.NewRef(rapid.SampledFrom(hostAddrs).Draw(t, "addr"), rapid.SampledFrom(paths).Draw(t, "path"))
	if err != nil {
		panic(fmt.Sprintf("harness: NewRef: %v", err))
	}
	return r
}

var registeredErrors = []*vivid.Error{
	vivid.ErrorException, vivid.ErrorNotFound, vivid.ErrorActorDeaded, vivid.ErrorFutureTimeout, vivid.ErrorIllegalArgument,
	vivid.ErrorCronParse, vivid.ErrorRefEmpty, vivid.ErrorRemotingMessageDecodeFailed, vivid.ErrorClusterNotInQuorum, vivid.ErrorActorSystemStopFailed,
}

// GenError: nil, a registered *vivid.Error (plain, With, WithMessage) or a foreign error.
func GenError(t *rapid.T) error {
	switch rapid.IntRange(0, 5).Draw(t, "errKind") {
	case 0:
		return nil
	case 1:
		return rapid.SampledFrom(registeredErrors).Draw(t, "verr")
	case 2:
		return rapid.SampledFrom(registeredErrors).Draw(t, "verr").WithMessage(genString().Draw(t, "wm"))
	case 3:
		return rapid.SampledFrom(registeredErrors).Draw(t, "verr").With(errors.New(genString().Draw(t, "cause")))
	case 4:
		return errors.New(genString().Draw(t, "foreign"))
	default:
		return fmt.Errorf("wrapped: %w", rapid.SampledFrom(registeredErrors).Draw(t, "verr"))
	}
}

// GenVersionVector builds a vector through the wire reader (explicit zeros and extremes possible).
func GenVersionVector(t *rapid.T) cluster.VersionVector {
	if rapid.IntRange(0, 5).Draw(t, "vvZero") == 0 {
		return cluster.VersionVector{}
	}
	n := rapid.IntRange(0, 4).Draw(t, "vvN")
	ids := rapid.SliceOfNDistinct(rapid.SampledFrom([]string{"n0", "n1", "n2", "n3", "10.0.0.1:1", "x"}), n, n, func(s string) string { return s }).Draw(t, "vvIDs")
	sort.Strings(ids)
	w := messages.NewWriter()
	w.WriteUint32(uint32(len(ids)))
	for _, id := range ids {
		w.WriteString(id)
		w.WriteUint64(rapid.OneOf(rapid.SampledFrom([]uint64{0, 1, 2, 1<<63 - 1}), rapid.Uint64Range(0, 1<<63-1)).Draw(t, "vvC"))
	}
	v, err := cluster.ReadVersionVector(messages.NewReader(w.Bytes()))
	if err != nil {
		panic(fmt.Sprintf("harness: vv: %v", err))
	}
	return v
}

func set(dst reflect.Value, v reflect.Value) {
	if dst.CanSet() {
		dst.Set(v)
		return
	}
	reflect.NewAt(dst.Type(), unsafe.Pointer(dst.UnsafeAddr())).Elem().Set(v)
}

// Readable makes an unexported field readable.
func Readable(v reflect.Value) reflect.Value {
	if v.CanInterface() {
		return v
	}
	if v.CanAddr() {
		return reflect.NewAt(v.Type(), unsafe.Pointer(v.UnsafeAddr())).Elem()
	}
	// copy into an addressable value
	c := reflect.New(v.Type()).Elem()
	// cannot Set from unexported; fall back to unsafe copy via pointer when possible
	return c
}

// Message generates a pointer to a registered message type with arbitrary field values.
func Message(t *rapid.T, typ reflect.Type, o Opt, depth int) any {
	p := reflect.New(typ)
	fill(t, p.Elem(), o, depth, typ.Name())
	return p.Interface()
}

// AnyMessage draws one registered message (pointer) at random.
func AnyMessage(t *rapid.T, o Opt, depth int) any {
	names := make([]string, 0, len(o.Registry))
	for n := range o.Registry {
		names = append(names, n)
	}
	sort.Strings(names)
	if depth >= o.MaxDepth {
		// leaf-ish messages only
		var leaf []string
		for _, n := range names {
			if !hasMessageField(o.Registry[n]) {
				leaf = append(leaf, n)
			}
		}
		names = leaf
	}
	n := rapid.SampledFrom(names).Draw(t, "msgType")
	return Message(t, o.Registry[n], o, depth)
}

func hasMessageField(typ reflect.Type) bool {
	for i := 0; i < typ.NumField(); i++ {
		ft := typ.Field(i).Type
		if ft.Kind() == reflect.Interface && ft != tRef && ft != tError {
			return true
		}
	}
	return false
}

func fill(t *rapid.T, v reflect.Value, o Opt, depth int, path string) {
	typ := v.Type()
	switch {
	case typ == tTime:
		// the format stores UnixNano: values outside its range cannot be represented
		ns := rapid.OneOf(rapid.SampledFrom([]int64{0, 1, -1, math.MaxInt64, math.MinInt64, 946684800000000000}), rapid.Int64()).Draw(t, "unixnano")
		set(v, reflect.ValueOf(time.Unix(0, ns)))
		return
	case typ == tVV:
		set(v, reflect.ValueOf(GenVersionVector(t)))
		return
	case typ == tVErr:
		// vivid.Error value (only reachable as *Error message): copy a registered one
		e := GenError(t)
		var ve *vivid.Error
		if !errors.As(e, &ve) || ve == nil {
			ve = vivid.ErrorNotFound
		}
		set(v, reflect.ValueOf(*ve))
		return
	}
	switch typ.Kind() {
	case reflect.Bool:
		set(v, reflect.ValueOf(rapid.Bool().Draw(t, "b")).Convert(typ))
	case reflect.Int:
		// every int field of a wire message is stored as int32 by its writer
		set(v, reflect.ValueOf(int(rapid.OneOf(rapid.SampledFrom([]int32{0, 1, -1, math.MaxInt32, math.MinInt32}), rapid.Int32()).Draw(t, "i"))).Convert(typ))
	case reflect.Int8:
		set(v, reflect.ValueOf(rapid.Int8().Draw(t, "i8")).Convert(typ))
	case reflect.Int16:
		set(v, reflect.ValueOf(rapid.Int16().Draw(t, "i16")).Convert(typ))
	case reflect.Int32:
		set(v, reflect.ValueOf(rapid.OneOf(rapid.SampledFrom([]int32{0, 1, -1, math.MaxInt32, math.MinInt32}), rapid.Int32()).Draw(t, "i32")).Convert(typ))
	case reflect.Int64:
		set(v, reflect.ValueOf(rapid.OneOf(rapid.SampledFrom([]int64{0, 1, -1, math.MaxInt64, math.MinInt64}), rapid.Int64()).Draw(t, "i64")).Convert(typ))
	case reflect.Uint8:
		set(v, reflect.ValueOf(rapid.Uint8().Draw(t, "u8")).Convert(typ))
	case reflect.Uint16:
		set(v, reflect.ValueOf(rapid.OneOf(rapid.SampledFrom([]uint16{0, 1, math.MaxUint16}), rapid.Uint16()).Draw(t, "u16")).Convert(typ))
	case reflect.Uint32:
		set(v, reflect.ValueOf(rapid.OneOf(rapid.SampledFrom([]uint32{0, 1, math.MaxUint32}), rapid.Uint32()).Draw(t, "u32")).Convert(typ))
	case reflect.Uint64:
		set(v, reflect.ValueOf(rapid.OneOf(rapid.SampledFrom([]uint64{0, 1, math.MaxUint64, 1 << 63}), rapid.Uint64()).Draw(t, "u64")).Convert(typ))
	case reflect.Float32:
		set(v, reflect.ValueOf(rapid.Float32().Draw(t, "f32")).Convert(typ))
	case reflect.Float64:
		set(v, reflect.ValueOf(rapid.Float64().Draw(t, "f64")).Convert(typ))
	case reflect.String:
		set(v, reflect.ValueOf(genString().Draw(t, "s")).Convert(typ))
	case reflect.Slice:
		if typ.Elem().Kind() == reflect.Uint8 {
			set(v, reflect.ValueOf(genBytes().Draw(t, "bytes")).Convert(typ))
			return
		}
		n := rapid.IntRange(-1, 4).Draw(t, "len")
		if n < 0 {
			set(v, reflect.Zero(typ))
			return
		}
		s := reflect.MakeSlice(typ, n, n)
		for i := 0; i < n; i++ {
			fill(t, s.Index(i), o, depth+1, path)
		}
		set(v, s)
	case reflect.Array:
		a := reflect.New(typ).Elem()
		for i := 0; i < typ.Len(); i++ {
			fill(t, a.Index(i), o, depth+1, path)
		}
		set(v, a)
	case reflect.Map:
		n := rapid.IntRange(-1, 3).Draw(t, "maplen")
		if n < 0 {
			set(v, reflect.Zero(typ))
			return
		}
		m := reflect.MakeMap(typ)
		for i := 0; i < n; i++ {
			k := reflect.New(typ.Key()).Elem()
			fill(t, k, o, depth+1, path)
			e := reflect.New(typ.Elem()).Elem()
			fill(t, e, o, depth+1, path)
			m.SetMapIndex(k, e)
		}
		set(v, m)
	case reflect.Ptr:
		if o.NilPointers && rapid.IntRange(0, 4).Draw(t, "nilptr") == 0 {
			set(v, reflect.Zero(typ))
			return
		}
		p := reflect.New(typ.Elem())
		fill(t, p.Elem(), o, depth+1, path)
		set(v, p)
	case reflect.Struct:
		tmp := reflect.New(typ).Elem()
		for i := 0; i < typ.NumField(); i++ {
			fill(t, tmp.Field(i), o, depth, path+"."+typ.Field(i).Name)
		}
		set(v, tmp)
	case reflect.Interface:
		switch {
		case typ == tRef:
			// only in exported fields (what a user can build); the library's own unexported fields are filled from
			// ctx.Sender() and the like, which never hold a typed nil
			if o.NilPointers && exportedLeaf(path) && rapid.IntRange(0, 5).Draw(t, "typedNilRef") == 0 {
				// a nil *actor.Ref inside the interface (the unchecked result of a failed reference construction)
				set(v, reflect.ValueOf((*actor.Ref)(nil)).Convert(typ))
			} else if rapid.IntRange(0, 4).Draw(t, "nilref") == 0 {
				set(v, reflect.Zero(typ))
			} else {
				set(v, reflect.ValueOf(GenRef(t)).Convert(typ))
			}
		case typ == tError:
			e := GenError(t)
			if e == nil {
				set(v, reflect.Zero(typ))
			} else {
				set(v, reflect.ValueOf(e).Convert(typ))
			}
		default:
			// vivid.Message / any: a nested registered message
			if o.NilMessage && rapid.IntRange(0, 4).Draw(t, "nilmsg") == 0 {
				set(v, reflect.Zero(typ))
				return
			}
			if o.Outside != nil && rapid.IntRange(0, 3).Draw(t, "outsidemsg") == 0 {
				set(v, reflect.ValueOf(o.Outside(t)))
				return
			}
			m := AnyMessage(t, o, depth+1)
			set(v, reflect.ValueOf(m))
		}
	default:
		panic(fmt.Sprintf("arb: no generator for %v at %s (a registered message uses a kind this harness does not know: extend arb)", typ, path))
	}
}

// FillValue fills an addressable value of a plain (primitive / slice / array / struct) type.
func FillValue(t *rapid.T, v reflect.Value) { fill(t, v, Opt{}, 0, "") }

// exportedLeaf reports whether the last field name of a fill path is exported.
func exportedLeaf(path string) bool {
	i := strings.LastIndex(path, ".")
	name := path[i+1:]
	return name != "" && name[0] >= 'A' && name[0] <= 'Z'
}

// ---------------------------------------------------------------------------
// semantic equality

// NormError reduces an error to what the wire carries: (code, message).
func NormError(e error) (int32, string, bool) {
	if e == nil {
		return 0, "", false
	}
	var ve *vivid.Error
	if v, ok := e.(*vivid.Error); ok {
		ve = v
	}
	if ve != nil {
		return ve.GetCode(), ve.GetMessage(), true
	}
	w := vivid.ErrorException.With(e)
	return w.GetCode(), w.GetMessage(), true
}

// Equal compares want (the generated value) with got (the decoded one).
func Equal(want, got reflect.Value, path string) error {
	if !want.IsValid() || !got.IsValid() {
		if want.IsValid() != got.IsValid() {
			return fmt.Errorf("%s: validity differs", path)
		}
		return nil
	}
	want, got = Readable(want), Readable(got)
	typ := want.Type()
	if typ != got.Type() {
		return fmt.Errorf("%s: type %v vs %v", path, typ, got.Type())
	}
	switch {
	case typ == tTime:
		a, b := want.Interface().(time.Time), got.Interface().(time.Time)
		if !a.Equal(b) {
			return fmt.Errorf("%s: time %v vs %v", path, a, b)
		}
		return nil
	case typ == tVV:
		a, b := want.Interface().(cluster.VersionVector), got.Interface().(cluster.VersionVector)
		if fmt.Sprint(a.SortedEntries()) != fmt.Sprint(b.SortedEntries()) {
			return fmt.Errorf("%s: version vector %v vs %v", path, a.SortedEntries(), b.SortedEntries())
		}
		return nil
	case typ == tVErr:
		mk := func(v reflect.Value) *vivid.Error {
			if v.CanAddr() {
				return v.Addr().Interface().(*vivid.Error)
			}
			c := reflect.New(v.Type())
			c.Elem().Set(v)
			return c.Interface().(*vivid.Error)
		}
		a, b := mk(want), mk(got)
		if a.GetCode() != b.GetCode() || a.GetMessage() != b.GetMessage() {
			return fmt.Errorf("%s: error (%d,%q) vs (%d,%q)", path, a.GetCode(), a.GetMessage(), b.GetCode(), b.GetMessage())
		}
		return nil
	}
	switch typ.Kind() {
	case reflect.Float32, reflect.Float64:
		a, b := want.Float(), got.Float()
		if math.Float64bits(a) != math.Float64bits(b) && !(math.IsNaN(a) && math.IsNaN(b)) {
			return fmt.Errorf("%s: %v vs %v", path, a, b)
		}
		return nil
	case reflect.Slice:
		if want.Len() != got.Len() { // nil == empty
			return fmt.Errorf("%s: len %d vs %d", path, want.Len(), got.Len())
		}
		for i := 0; i < want.Len(); i++ {
			if err := Equal(want.Index(i), got.Index(i), fmt.Sprintf("%s[%d]", path, i)); err != nil {
				return err
			}
		}
		return nil
	case reflect.Array:
		for i := 0; i < want.Len(); i++ {
			if err := Equal(want.Index(i), got.Index(i), fmt.Sprintf("%s[%d]", path, i)); err != nil {
				return err
			}
		}
		return nil
	case reflect.Map:
		// nil == empty; a nil pointer element == absent (the wire cannot tell them apart)
		cnt := func(m reflect.Value) int {
			n := 0
			it := m.MapRange()
			for it.Next() {
				if it.Value().Kind() == reflect.Ptr && it.Value().IsNil() {
					continue
				}
				n++
			}
			return n
		}
		if cnt(want) != cnt(got) {
			return fmt.Errorf("%s: map size %d vs %d", path, cnt(want), cnt(got))
		}
		it := want.MapRange()
		for it.Next() {
			if it.Value().Kind() == reflect.Ptr && it.Value().IsNil() {
				continue
			}
			g := got.MapIndex(it.Key())
			if !g.IsValid() {
				return fmt.Errorf("%s: key %v missing", path, it.Key())
			}
			if err := Equal(it.Value(), g, fmt.Sprintf("%s[%v]", path, it.Key())); err != nil {
				return err
			}
		}
		return nil
	case reflect.Ptr:
		if want.IsNil() || got.IsNil() {
			if want.IsNil() != got.IsNil() {
				return fmt.Errorf("%s: nil-ness differs (want nil=%v, got nil=%v)", path, want.IsNil(), got.IsNil())
			}
			return nil
		}
		return Equal(want.Elem(), got.Elem(), path)
	case reflect.Struct:
		if typ.Name() == "singletonForwardedMessage" {
			return equalForwarded(want, got, path)
		}
		for i := 0; i < typ.NumField(); i++ {
			if err := Equal(want.Field(i), got.Field(i), path+"."+typ.Field(i).Name); err != nil {
				return err
			}
		}
		return nil
	case reflect.Interface:
		switch {
		case typ == tRef:
			nilRef := func(v reflect.Value) bool {
				return v.IsNil() || (v.Elem().Kind() == reflect.Pointer && v.Elem().IsNil())
			}
			if nilRef(want) || nilRef(got) {
				if nilRef(want) != nilRef(got) {
					return fmt.Errorf("%s: ref nil-ness differs (want nil=%v, got nil=%v)", path, nilRef(want), nilRef(got))
				}
				return nil
			}
			a, b := want.Interface().(vivid.ActorRef), got.Interface().(vivid.ActorRef)
			if !a.Equals(b) {
				return fmt.Errorf("%s: ref %v vs %v", path, a, b)
			}
			return nil
		case typ == tError:
			var ea, eb error
			if !want.IsNil() {
				ea = want.Interface().(error)
			}
			if !got.IsNil() {
				eb = got.Interface().(error)
			}
			ca, ma, oka := NormError(ea)
			cb, mb, okb := NormError(eb)
			if oka != okb || ca != cb || ma != mb {
				return fmt.Errorf("%s: error (%v,%d,%q) vs (%v,%d,%q)", path, oka, ca, ma, okb, cb, mb)
			}
			return nil
		default:
			if want.IsNil() || got.IsNil() {
				if want.IsNil() != got.IsNil() {
					return fmt.Errorf("%s: message nil-ness differs", path)
				}
				return nil
			}
			return Equal(want.Elem(), got.Elem(), path)
		}
	default:
		a, b := Readable(want), Readable(got)
		if !reflect.DeepEqual(a.Interface(), b.Interface()) {
			return fmt.Errorf("%s: %v vs %v", path, a.Interface(), b.Interface())
		}
		return nil
	}
}

// the forwarded message carries its sender either as a ref or as two strings
func equalForwarded(want, got reflect.Value, path string) error {
	eff := func(v reflect.Value) (string, string) {
		s := Readable(v.FieldByName("sender"))
		if !s.IsNil() {
			r := s.Interface().(vivid.ActorRef)
			return r.GetAddress(), r.GetPath()
		}
		return Readable(v.FieldByName("senderAddr")).String(), Readable(v.FieldByName("senderPath")).String()
	}
	a1, p1 := eff(want)
	a2, p2 := eff(got)
	if a1 != a2 || p1 != p2 {
		return fmt.Errorf("%s: forwarded sender (%q,%q) vs (%q,%q)", path, a1, p1, a2, p2)
	}
	return Equal(want.FieldByName("message"), got.FieldByName("message"), path+".message")
}

// IsZero reports whether a generated message equals its type's zero value.
func IsZero(m any) bool {
	v := reflect.ValueOf(m)
	if v.Kind() == reflect.Ptr {
		v = v.Elem()
	}
	return Equal(reflect.New(v.Type()).Elem(), v, "") == nil
}
