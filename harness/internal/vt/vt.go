// Package vt runs one generated case inside a testing/synctest bubble
// (virtual clock, exact quiescence) and guards the process against cases that
// can never become quiescent.
//
// Rules (DESIGN.md §3.3): all rapid draws happen before Run is called; the
// bubble never fails *testing.T; a panic on the bubble's root goroutine is
// recovered and returned as a value.
package vt

import (
	"encoding/json"
	"fmt"
	"os"
	"regexp"
	"runtime"
	"runtime/debug"
	"strings"
	"sync"
	"sync/atomic"
	"testing"
	"testing/synctest"
	"time"
)

// Result of one bubble.
type Result struct {
	Panic    any    // recovered panic value of the root goroutine (nil if none)
	Stack    string // its stack
	Deadlock bool   // synctest reported "all goroutines in bubble are blocked"
}

// Run executes f inside a bubble and waits for it.
func Run(t *testing.T, f func()) (res Result) {
	Progress()
	defer Progress()
	defer func() {
		// synctest.Test panics on the caller's goroutine when the bubble deadlocks
		if r := recover(); r != nil {
			s := fmt.Sprint(r)
			if strings.Contains(s, "deadlock") {
				res.Deadlock = true
				res.Panic = s
				res.Stack = AllStacks()
				return
			}
			res.Panic = r
			res.Stack = string(debug.Stack())
		}
	}()
	synctest.Test(t, func(*testing.T) {
		defer func() {
			if r := recover(); r != nil {
				res.Panic = r
				res.Stack = string(debug.Stack())
			}
		}()
		f()
	})
	return res
}

// Settle waits until every other goroutine of the bubble is durably blocked.
func Settle() { synctest.Wait() }

// Advance moves the virtual clock by d and settles.
func Advance(d time.Duration) {
	time.Sleep(d)
	synctest.Wait()
}

// AllStacks returns the stacks of all goroutines.
func AllStacks() string {
	buf := make([]byte, 1<<20)
	for {
		n := runtime.Stack(buf, true)
		if n < len(buf) {
			return string(buf[:n])
		}
		buf = make([]byte, 2*len(buf))
	}
}

// ---------------------------------------------------------------------------
// watchdog

var (
	progress  atomic.Int64
	caseMu    sync.Mutex
	curCase   any
	wdStarted atomic.Bool
)

// Progress tells the watchdog that the process is alive.
func Progress() { progress.Add(1) }

// SetCase stores the case about to be executed (written to the hang report
// and, if $VERIF_CASEFILE is set, persisted before execution so that a case
// that kills the process can be replayed).
func SetCase(c any) {
	caseMu.Lock()
	curCase = c
	caseMu.Unlock()
	Progress()
	if p := os.Getenv("VERIF_CASEFILE"); p != "" {
		if b, err := json.Marshal(c); err == nil {
			_ = os.WriteFile(p, b, 0o644)
		}
	}
}

// HangReport is written to $VERIF_HANG when the watchdog fires.
type HangReport struct {
	Case      any      `json:"case"`
	Sig       string   `json:"sig"`
	Blocked   []string `json:"blocked"`
	AllStacks string   `json:"stacks"`
}

var goroutineHdr = regexp.MustCompile(`(?m)^goroutine (\d+)(?: gp=\S+ m=\S+(?: mp=\S+)?)? \[([^\]]*)\]:$`)

// StartWatchdog starts (once) a goroutine outside any bubble that ends the
// process with exit code 3 when Progress has not been called for limit of real
// time. It is *not* an oracle by itself: the report classifies what the stuck
// goroutines are doing. Goroutines of vivid blocked on a sync.Mutex/RWMutex
// are a deadlock (a mutex-blocked goroutine is never woken by time); a
// goroutine that is running/runnable in vivid code is a spin. Anything else
// is "unknown" and the driver treats it as inconclusive.
func StartWatchdog(limit time.Duration) {
	if !wdStarted.CompareAndSwap(false, true) {
		return
	}
	go func() {
		last := progress.Load()
		lastChange := time.Now()
		for {
			time.Sleep(500 * time.Millisecond)
			cur := progress.Load()
			if cur != last {
				last, lastChange = cur, time.Now()
				continue
			}
			if time.Since(lastChange) < limit {
				continue
			}
			// two snapshots one second apart: a goroutine counts only if it is
			// stuck at the same place in both
			s1 := AllStacks()
			time.Sleep(time.Second)
			s2 := AllStacks()
			rep := classify(s1, s2)
			caseMu.Lock()
			rep.Case = curCase
			caseMu.Unlock()
			if p := os.Getenv("VERIF_HANG"); p != "" {
				b, _ := json.MarshalIndent(rep, "", " ")
				_ = os.WriteFile(p, b, 0o644)
			}
			fmt.Fprintf(os.Stderr, "VERIF-HANG sig=%s\n%s\n", rep.Sig, strings.Join(rep.Blocked, "\n---\n"))
			os.Exit(3)
		}
	}()
}

type gor struct {
	id, state, body string
}

func parseStacks(s string) map[string]gor {
	out := map[string]gor{}
	blocks := strings.Split(s, "\n\n")
	for _, b := range blocks {
		b = strings.TrimSpace(b)
		m := goroutineHdr.FindStringSubmatch(b)
		if m == nil {
			continue
		}
		nl := strings.IndexByte(b, '\n')
		body := ""
		if nl >= 0 {
			body = b[nl+1:]
		}
		out[m[1]] = gor{id: m[1], state: m[2], body: body}
	}
	return out
}

var frameRe = regexp.MustCompile(`(?m)^(github\.com/kercylan98/vivid[^\s(]*(?:\([^)]*\))?[^\s(]*)\(`)

func vividFrames(body string) []string {
	var fr []string
	for _, m := range frameRe.FindAllStringSubmatch(body, -1) {
		f := m[1]
		if strings.Contains(f, "/vivid/verif/") {
			continue
		}
		f = strings.TrimPrefix(f, "github.com/kercylan98/vivid/")
		fr = append(fr, f)
	}
	return fr
}

func classify(s1, s2 string) HangReport {
	g1, g2 := parseStacks(s1), parseStacks(s2)
	rep := HangReport{AllStacks: s2, Sig: "hang/unknown"}
	var mutexSig, spinSig string
	for id, a := range g2 {
		b, ok := g1[id]
		if !ok {
			continue
		}
		fr := vividFrames(a.body)
		if len(fr) == 0 {
			continue
		}
		st := strings.Split(a.state, ",")[0]
		switch {
		case strings.HasPrefix(st, "sync.Mutex.Lock") || strings.HasPrefix(st, "sync.RWMutex") || strings.HasPrefix(st, "semacquire"):
			if strings.Split(b.state, ",")[0] == st && strings.Join(vividFrames(b.body), ">") == strings.Join(fr, ">") {
				rep.Blocked = append(rep.Blocked, "goroutine "+id+" ["+a.state+"]\n"+a.body)
				sig := "hang/mutex|" + fr[0]
				if mutexSig == "" || sig < mutexSig {
					mutexSig = sig
				}
			}
		case st == "running" || st == "runnable":
			bs := strings.Split(b.state, ",")[0]
			if bs == "running" || bs == "runnable" {
				fb := vividFrames(b.body)
				// same outermost vivid frame in both snapshots
				if len(fb) > 0 && fb[len(fb)-1] == fr[len(fr)-1] {
					rep.Blocked = append(rep.Blocked, "goroutine "+id+" ["+a.state+"]\n"+a.body)
					sig := "hang/spin|" + fr[len(fr)-1]
					if spinSig == "" || sig < spinSig {
						spinSig = sig
					}
				}
			}
		}
	}
	if mutexSig != "" {
		rep.Sig = mutexSig
	} else if spinSig != "" {
		rep.Sig = spinSig
	}
	return rep
}
