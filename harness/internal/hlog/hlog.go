// Package hlog is a no-op vivid logger for the harness.
package hlog

import "github.com/kercylan98/vivid/pkg/log"

type nop struct{}

// Nop discards everything.
var Nop log.Logger = nop{}

func (nop) Debug(string, ...any)          {}
func (nop) Info(string, ...any)           {}
func (nop) Warn(string, ...any)           {}
func (nop) Error(string, ...any)          {}
func (n nop) With(...any) log.Logger      { return n }
func (n nop) WithGroup(string) log.Logger { return n }
