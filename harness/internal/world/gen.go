package world

import (
	"encoding/json"
	"fmt"
	"strings"
	"time"

	"github.com/kercylan98/vivid/verif/internal/vt"
	"pgregory.net/rapid"
)

// Scenario is a fully pre-drawn case: a tree, a script of top-level
// operations and the world options. It is plain data (JSON) so that it can be
// persisted before execution and replayed without rapid.
type Scenario struct {
	Opt    ScenOpt `json:"opt"`
	Tree   []Node  `json:"tree"`
	Script []Step  `json:"script"`
	Racing bool    `json:"racing,omitempty"` // do not settle between script operations
}

type ScenOpt struct {
	SysDecisions []string `json:"sysDecisions,omitempty"`
	SysStrategy  string   `json:"sysStrategy,omitempty"`
}

// Node of the initial tree: Parent is a logical name ("" = top level).
type Node struct {
	Parent string `json:"parent"`
	Spec   Spec   `json:"spec"`
}

func (n Node) Name() string {
	if n.Parent == "" {
		return n.Spec.Name
	}
	return n.Parent + "/" + n.Spec.Name
}

func (s Scenario) JSON() string {
	b, _ := json.Marshal(s)
	return string(b)
}

// GenCfg tunes the generators.
type GenCfg struct {
	MaxActors     int
	MaxDepth      int
	Failures      bool // allow panics / Failed / failing hooks
	Hooks         bool // allow failing restart hooks (zombies)
	Decisions     []string
	Kills         bool
	Stash         bool
	Become        bool
	Spawns        bool // handlers may spawn
	Provenance    bool // vary how references are obtained
	Ghosts        bool // targets that never existed
	MaxOps        int
	Watch         bool
	LifecycleFail bool // failures while handling OnKill / OnKilled
	LateSpawn     bool // actors that spawn a child while they are terminating
}

var allDecisions = []string{"restart", "grestart", "stop", "gstop", "resume", "escalate"}

// GenTree draws an initial tree.
func GenTree(t *rapid.T, c GenCfg) []Node {
	n := rapid.IntRange(1, c.MaxActors).Draw(t, "nActors")
	var nodes []Node
	depth := map[string]int{}
	letters := "abcdefgh"
	for i := 0; i < n; i++ {
		parent := ""
		if i > 0 && rapid.IntRange(0, 2).Draw(t, "nested") > 0 {
			// choose an existing node that is not too deep
			var cands []string
			for _, x := range nodes {
				if depth[x.Name()] < c.MaxDepth-1 {
					cands = append(cands, x.Name())
				}
			}
			if len(cands) > 0 {
				parent = rapid.SampledFrom(cands).Draw(t, "parent")
			}
		}
		sp := GenSpec(t, c, string(letters[i]))
		nd := Node{Parent: parent, Spec: sp}
		nodes = append(nodes, nd)
		if parent == "" {
			depth[nd.Name()] = 0
		} else {
			depth[nd.Name()] = depth[parent] + 1
		}
	}
	return nodes
}

// GenSpec draws a spec.
func GenSpec(t *rapid.T, c GenCfg, name string) Spec {
	sp := Spec{Name: name}
	decs := c.Decisions
	if len(decs) == 0 {
		decs = allDecisions
	}
	if c.Failures && rapid.IntRange(0, 3).Draw(t, "ownStrategy") > 0 {
		sp.Strategy = rapid.SampledFrom([]string{"one", "one", "all"}).Draw(t, "strategy")
		k := rapid.IntRange(1, 3).Draw(t, "nDecisions")
		for i := 0; i < k; i++ {
			sp.Decisions = append(sp.Decisions, rapid.SampledFrom(decs).Draw(t, "decision"))
		}
	}
	sp.Provider = rapid.Bool().Draw(t, "provider")
	if c.Failures && rapid.IntRange(0, 5).Draw(t, "failLaunch") == 0 {
		sp.FailLaunch = []int{rapid.IntRange(0, 1).Draw(t, "failLaunchAt")}
	}
	if c.Hooks && rapid.IntRange(0, 4).Draw(t, "hookFail") == 0 {
		at := []int{rapid.IntRange(0, 2).Draw(t, "hookFailAt")}
		sp.FailMode = rapid.SampledFrom([]string{"err", "panic"}).Draw(t, "failMode")
		switch rapid.IntRange(0, 2).Draw(t, "whichHook") {
		case 0:
			sp.FailPreRestart = at
		case 1:
			if at[0] == 0 {
				at[0] = 1
			}
			sp.FailRestarted = at
		default:
			if at[0] == 0 {
				at[0] = 1 // incarnation 0 = the initial spawn: that is a spawn error, generated separately
			}
			sp.FailPrelaunch = at
		}
	}
	if c.LateSpawn && rapid.IntRange(0, 5).Draw(t, "lateSpawn") == 0 {
		sp.LateSpawn = rapid.IntRange(1, 2).Draw(t, "lateSpawns")
	}
	if c.LifecycleFail && rapid.IntRange(0, 6).Draw(t, "lifeFail") == 0 {
		switch rapid.IntRange(0, 2).Draw(t, "lifeFailKind") {
		case 0:
			sp.FailOnKill = true
		case 1:
			sp.FailOnChildKilled = rapid.IntRange(1, 2).Draw(t, "nChildKilledFail")
		default:
			sp.FailOnOwnKilled = true
		}
	}
	return sp
}

func via(t *rapid.T, c GenCfg) string {
	if !c.Provenance {
		return ""
	}
	return rapid.SampledFrom([]string{"", "", "clone", "parse", "create", "find"}).Draw(t, "via")
}

// GenScript draws a script of top-level operations against the named actors.
func GenScript(t *rapid.T, c GenCfg, names []string, nextID *int) []Step {
	nops := rapid.IntRange(1, c.MaxOps).Draw(t, "nOps")
	var script []Step
	pick := func(label string) string {
		if c.Ghosts && rapid.IntRange(0, 9).Draw(t, "ghost") == 0 {
			return "/ghost" + fmt.Sprint(rapid.IntRange(0, 1).Draw(t, "ghostN"))
		}
		return rapid.SampledFrom(names).Draw(t, label)
	}
	id := func() int { *nextID++; return *nextID }
	var inner func(depth int) []Step
	inner = func(depth int) []Step {
		var do []Step
		k := rapid.IntRange(0, 2).Draw(t, "nInner")
		for i := 0; i < k; i++ {
			var ops []string
			ops = append(ops, "tell", "tell")
			if c.Failures {
				ops = append(ops, "panic", "failed")
			}
			if c.Kills {
				ops = append(ops, "kill")
			}
			if c.Stash {
				ops = append(ops, "stash", "unstash")
			}
			if c.Become {
				ops = append(ops, "become", "unbecome")
			}
			if c.Spawns {
				ops = append(ops, "spawn")
			}
			if c.Watch {
				ops = append(ops, "watch", "unwatch")
			}
			op := rapid.SampledFrom(ops).Draw(t, "innerOp")
			st := Step{Op: op}
			switch op {
			case "tell":
				st.To, st.Via, st.ID = pick("to"), via(t, c), id()
				if depth < 1 {
					st.Do = inner(depth + 1)
				}
			case "kill":
				st.To, st.Via, st.B = pick("to"), via(t, c), rapid.Bool().Draw(t, "poison")
			case "unstash":
				st.N = rapid.SampledFrom([]int{-999, -999, 0, 1, 2, 3, 10, -1}).Draw(t, "unstashN")
			case "become":
				st.S = rapid.SampledFrom([]string{"b1", "b2"}).Draw(t, "tag")
				st.B = rapid.Bool().Draw(t, "keepOld")
			case "unbecome":
				st.B = rapid.Bool().Draw(t, "keepOld")
			case "spawn":
				sp := GenSpec(t, c, rapid.SampledFrom([]string{"x", "y"}).Draw(t, "childName"))
				st.Spec = &sp
			case "watch", "unwatch":
				st.To, st.Via = pick("to"), via(t, c)
			}
			do = append(do, st)
			if op == "panic" || op == "failed" {
				break
			}
		}
		return do
	}
	for i := 0; i < nops; i++ {
		ops := []string{"tell", "tell", "tell", "tell"}
		if c.Kills {
			ops = append(ops, "kill")
		}
		if c.Spawns {
			ops = append(ops, "spawn")
		}
		op := rapid.SampledFrom(ops).Draw(t, "op")
		st := Step{Op: op}
		switch op {
		case "tell":
			st.To, st.Via, st.ID = pick("to"), via(t, c), id()
			st.Do = inner(0)
		case "kill":
			st.To, st.Via, st.B = pick("to"), via(t, c), rapid.Bool().Draw(t, "poison")
		case "spawn":
			sp := GenSpec(t, c, rapid.SampledFrom([]string{"x", "y", "z"}).Draw(t, "topName"))
			st.Spec = &sp
		}
		script = append(script, st)
	}
	if c.Stash && rapid.IntRange(0, 5).Draw(t, "stashBurst") == 0 {
		// m messages stashed at one actor, then a partial Unstash(n) for every relation of n to m
		// (n < m, n = m/2, n = m, n > m, n <= 0, no argument), optionally a second Unstash later
		to := pick("stashTarget")
		m := rapid.IntRange(1, 6).Draw(t, "stashed")
		for i := 0; i < m; i++ {
			script = append(script, Step{Op: "tell", To: to, ID: id(), Do: []Step{{Op: "stash"}}})
		}
		n := rapid.SampledFrom([]int{1, m / 2, m - 1, m, m + 2, 0, -1, -999}).Draw(t, "burstUnstashN")
		script = append(script, Step{Op: "tell", To: to, ID: id(), Do: []Step{{Op: "unstash", N: n}}})
		if rapid.Bool().Draw(t, "secondUnstash") {
			script = append(script, Step{Op: "tell", To: to, ID: id(), Do: []Step{{Op: "unstash", N: rapid.SampledFrom([]int{-999, 1, 2}).Draw(t, "secondN")}}})
		}
	}
	return script
}

// GenScenario draws tree + script.
func GenScenario(t *rapid.T, c GenCfg) Scenario {
	var s Scenario
	if c.Failures && rapid.IntRange(0, 2).Draw(t, "sysStrategy") == 0 {
		decs := []string{"restart", "grestart", "stop", "gstop", "resume"} // the system strategy never escalates: nothing is above the root
		s.Opt.SysStrategy = rapid.SampledFrom([]string{"one", "one", "all"}).Draw(t, "sysKind")
		if s.Opt.SysStrategy == "all" {
			// a one-for-all Stop at the root also terminates the harness's observer actor (a root
			// child like any other): that cell is not observable and is left out
			decs = []string{"restart", "grestart", "resume"}
		}
		k := rapid.IntRange(1, 2).Draw(t, "nSysDec")
		for i := 0; i < k; i++ {
			s.Opt.SysDecisions = append(s.Opt.SysDecisions, rapid.SampledFrom(decs).Draw(t, "sysDecision"))
		}
	}
	s.Tree = GenTree(t, c)
	var names []string
	for _, n := range s.Tree {
		names = append(names, n.Name())
	}
	id := 0
	s.Script = GenScript(t, c, names, &id)
	return s
}

// Build creates the world and the initial tree (settled).
func Build(s Scenario) *World {
	w := New(Options{SysDecisions: s.Opt.SysDecisions, SysStrategy: s.Opt.SysStrategy})
	for _, n := range s.Tree {
		if n.Parent == "" {
			_, _ = w.Spawn(n.Spec)
		} else {
			sp := n.Spec
			w.Tell(n.Parent, "", 0, []Step{{Op: "spawn", Spec: &sp}})
		}
		vt.Settle()
	}
	return w
}

// RunScript executes the script; in sequential mode the world is settled after every operation.
func (w *World) RunScript(s Scenario) {
	for _, st := range s.Script {
		w.Exec(st)
		if !s.Racing {
			vt.Settle()
		}
	}
	vt.Settle()
	// let every pending timer (ask timeouts, scheduled jobs) expire
	vt.Advance(2 * time.Minute)
}

// Exec executes one top-level operation.
func (w *World) Exec(st Step) {
	switch st.Op {
	case "tell":
		w.Tell(st.To, st.Via, st.ID, st.Do)
	case "kill":
		w.Kill(st.To, st.Via, st.B)
	case "spawn":
		_, _ = w.Spawn(*st.Spec)
	case "settle":
		vt.Settle()
	case "advance":
		vt.Advance(time.Duration(st.D))
	case "open":
		w.Open(st.S)
	case "ask":
		w.Ask("", nil, w.Resolve(st.To, st.Via, nil, nil), st)
	case "stop":
		_ = w.Stop(time.Duration(st.D))
	default:
		panic("harness: unknown script op " + st.Op)
	}
}

// Describe renders a scenario compactly for samples.
func (s Scenario) Describe() string {
	var b strings.Builder
	for _, n := range s.Tree {
		fmt.Fprintf(&b, "%s", n.Name())
		if n.Spec.Strategy != "" {
			fmt.Fprintf(&b, "{%s:%s}", n.Spec.Strategy, strings.Join(n.Spec.Decisions, ","))
		}
		if n.Spec.Provider {
			b.WriteString("+prov")
		}
		b.WriteString(" ")
	}
	b.WriteString("| ")
	var ds func(st Step) string
	ds = func(st Step) string {
		x := st.Op
		if st.To != "" {
			x += "→" + st.To
			if st.Via != "" {
				x += "(" + st.Via + ")"
			}
		}
		if st.ID != 0 {
			x += fmt.Sprintf("#%d", st.ID)
		}
		if st.Op == "kill" && st.B {
			x += "(poison)"
		}
		if st.Spec != nil {
			x += ":" + st.Spec.Name
		}
		if len(st.Do) > 0 {
			var in []string
			for _, d := range st.Do {
				in = append(in, ds(d))
			}
			x += "[" + strings.Join(in, ";") + "]"
		}
		return x
	}
	for _, st := range s.Script {
		b.WriteString(ds(st) + " ")
	}
	if len(s.Opt.SysDecisions) > 0 {
		fmt.Fprintf(&b, "| sys=%s:%s", s.Opt.SysStrategy, strings.Join(s.Opt.SysDecisions, ","))
	}
	return b.String()
}
