// Package world is the scenario engine shared by the actor-runtime checks
// (C02–C09, C19, C20). A scenario is data: programs (lists of Step) that are
// carried by messages and interpreted by one generic probe actor, so generated
// scenarios reach every API from inside handlers; everything a behaviour sees
// and every event-stream event is appended to a global trace with its virtual
// time. The engine must run inside a synctest bubble (internal/vt).
package world

import (
	"context"
	"errors"
	"fmt"
	"reflect"
	"sort"
	"strings"
	"sync"
	"time"

	"github.com/kercylan98/vivid"
	"github.com/kercylan98/vivid/internal/actor"
	"github.com/kercylan98/vivid/pkg/ves"
	"github.com/kercylan98/vivid/verif/internal/hlog"
	"github.com/kercylan98/vivid/verif/internal/vt"
)

// Step is one instruction of a program.
type Step struct {
	Op      string   `json:"op"`
	To      string   `json:"to,omitempty"`  // logical actor name ("a", "a/b"), or a raw path for ghosts ("/ghost")
	Via     string   `json:"via,omitempty"` // how the reference is obtained: "" spawn ref | clone | parse | create | find | sender | self | parent
	ID      int      `json:"id,omitempty"`
	N       int      `json:"n,omitempty"`
	D       int64    `json:"d,omitempty"` // nanoseconds
	B       bool     `json:"b,omitempty"`
	S       string   `json:"s,omitempty"`
	L       []string `json:"l,omitempty"`
	Do      []Step   `json:"do,omitempty"` // program carried by the message that is sent
	Spec    *Spec    `json:"spec,omitempty"`
	PerLife bool     `json:"perLife,omitempty"` // once / loop in a launch program: see run
}

// Spec describes an actor to spawn.
type Spec struct {
	Name     string `json:"name"`               // last path element
	Strategy string `json:"strategy,omitempty"` // "" (inherit system default) | one | all
	// Decisions is consumed one entry per consultation (the last one repeats):
	// restart | grestart | stop | gstop | resume | escalate
	Decisions []string `json:"decisions,omitempty"`
	Provider  bool     `json:"provider,omitempty"`
	// hooks: which incarnation numbers (0 = first) fail, and how ("err" | "panic")
	FailLaunch        []int  `json:"failLaunch,omitempty"` // incarnations whose OnLaunch handler panics
	FailPrelaunch     []int  `json:"failPrelaunch,omitempty"`
	FailPreRestart    []int  `json:"failPreRestart,omitempty"`
	FailRestarted     []int  `json:"failRestarted,omitempty"`
	FailMode          string `json:"failMode,omitempty"`
	FailOnKill        bool   `json:"failOnKill,omitempty"`        // panic while handling OnKill
	FailOnChildKilled int    `json:"failOnChildKilled,omitempty"` // panic on the first n OnKilled of children
	FailOnOwnKilled   bool   `json:"failOnOwnKilled,omitempty"`
	OnLaunch          []Step `json:"onLaunch,omitempty"`         // program run by every incarnation on OnLaunch
	GateKill          string `json:"gateKill,omitempty"`         // gate the OnKill handler blocks on
	RespawnKilled     bool   `json:"respawnKilled,omitempty"`    // on a child's OnKilled (while running) respawn it under the same name, once per name
	RespawnAlways     bool   `json:"respawnAlways,omitempty"`    // with RespawnKilled: every time, not once per name
	LateSpawn         int    `json:"lateSpawn,omitempty"`        // while terminating: on a child's OnKilled spawn a fresh child "lateN" (at most this many times)
	KillSelfOnChild   bool   `json:"killSelfOnChild,omitempty"`  // on a child's OnKilled (a system message) kill itself immediately (another system message)
	AskTimeout        int64  `json:"askTimeout,omitempty"`       // the actor's own default Ask timeout (ns), 0 = inherit the system's
	FailDyingOnChild  int    `json:"failDyingOnChild,omitempty"` // panic on the first n OnKilled of children that arrive while this actor is itself terminating
}

// Msg is the only user message.
type Msg struct {
	ID    int
	Do    []Step
	Sched bool // was sent through the scheduler
}

func (m *Msg) String() string { return fmt.Sprintf("Msg#%d", m.ID) }

// Event types for the event stream (value and pointer kinds).
type EvA struct{ ID int }
type EvB struct{ ID int }
type EvC struct{ ID int }

// Ev is one entry of the behaviour-level trace.
type Ev struct {
	T     int64  `json:"t"`
	Actor string `json:"actor"` // path
	Inst  int    `json:"inst"`
	Kind  string `json:"kind"` // launch | kill | killed:<path> | msg | evt:<type> | pipe | hook:<name> | other:<type>
	ID    int    `json:"id,omitempty"`
	From  string `json:"from,omitempty"`
	Beh   string `json:"beh,omitempty"`
	Count int    `json:"count,omitempty"` // the instance's user-message counter after this delivery
	Sched bool   `json:"sched,omitempty"`
	Note  string `json:"note,omitempty"`
	Fails bool   `json:"fails,omitempty"` // the handler of this delivery raises a failure (panic or Failed): the actor is suspended from here until its supervisor has decided
}

func (e Ev) String() string {
	s := fmt.Sprintf("%s@%s#%d", e.Kind, e.Actor, e.Inst)
	if e.Kind == "msg" || e.ID != 0 {
		s += fmt.Sprintf("(%d)", e.ID)
	}
	if e.Beh != "" {
		s += "[" + e.Beh + "]"
	}
	return s
}

// Obs is one event-stream observation made by the observer actor.
type Obs struct {
	T      int64  `json:"t"`
	Type   string `json:"type"`            // Spawned | Launched | Killed | Restarting | Restarted | Failed | Watched | Unwatched | Paused | Resumed | DeadLetter
	Actor  string `json:"actor"`           // path of the subject
	MsgID  int    `json:"msgId,omitempty"` // dead letters: id of the *Msg (0 otherwise)
	Note   string `json:"note,omitempty"`
	System bool   `json:"system,omitempty"`
}

// Sent is one user message handed to Tell / TellSelf.
type Sent struct {
	ID        int
	T         int64
	From      string // logical name of the sending actor, "" = outside
	To        string // path of the target
	Via       string
	AfterStop bool
	TraceIdx  int // len(Trace) when the message was sent
	EventIdx  int // len(Events) when the message was sent
}

// CallResult of an operation issued from a handler or the script.
type CallResult struct {
	T    int64
	Who  string
	Op   string
	ID   int
	Err  string
	Note string
}

// FutureRec tracks an Ask.
type FutureRec struct {
	ID      int
	Asker   string
	T0      int64
	Timeout int64
	F       vivid.Future[vivid.Message]
	mu      sync.Mutex
	Results []FutResult // one per waiter that returned
}

type FutResult struct {
	T     int64
	MsgID int // id of the reply (*Msg), -1 if none
	Err   string
	Other string
}

// World is one running system plus everything observed.
type World struct {
	Sys     *actor.System
	UserCtx context.Context
	Cancel  context.CancelFunc

	mu       sync.Mutex
	Trace    []Ev
	Events   []Obs
	Calls    []CallResult
	Sends    []Sent
	refs     map[string]vivid.ActorRef // logical name -> ref returned by ActorOf
	senders  map[string]vivid.ActorRef // logical name -> last Sender() captured
	gates    map[string]chan struct{}
	gateOpen map[string]bool
	closing  bool
	Futures  map[int]*FutureRec
	instSeq  int
	consult  map[string]int // decision-maker invocations per supervisor path
	Consults []Consult
	T0       time.Time
	stopped  bool
	Observer vivid.ActorRef
	probes   map[string]*probeShared
	Work     int64 // deliveries counted (work bound)
	WorkMax  int64
	Overwork bool
}

// Consult is one decision-maker invocation.
type Consult struct {
	T          int64
	Supervisor string
	Child      string
	Decision   string
	TraceIdx   int
	Children   []string // Children() reported to the decision maker
}

type probeShared struct {
	spec  Spec
	path  string
	incar int // number of incarnations started (prelaunch calls that succeeded + restarts)
}

// Options of a world.
type Options struct {
	SysDecisions []string // decisions of the system default strategy (one-for-one), last repeats; empty = library default (stop)
	SysStrategy  string   // one | all
	AskTimeout   time.Duration
	StopTimeout  time.Duration
}

// New builds and starts a system with an observer actor.
func New(o Options) *World {
	w := &World{
		refs: map[string]vivid.ActorRef{}, senders: map[string]vivid.ActorRef{}, gates: map[string]chan struct{}{}, gateOpen: map[string]bool{},
		Futures: map[int]*FutureRec{}, consult: map[string]int{}, probes: map[string]*probeShared{}, T0: time.Now(), WorkMax: 2_000_000,
	}
	w.UserCtx, w.Cancel = context.WithCancel(context.Background())
	opts := []vivid.ActorSystemOption{
		vivid.WithActorSystemContext(w.UserCtx),
		vivid.WithActorSystemLogger(hlog.Nop),
	}
	if o.StopTimeout > 0 {
		opts = append(opts, vivid.WithActorSystemStopTimeout(o.StopTimeout))
	}
	if o.AskTimeout > 0 {
		opts = append(opts, vivid.WithActorSystemDefaultAskTimeout(o.AskTimeout))
	}
	if len(o.SysDecisions) > 0 {
		opts = append(opts, vivid.WithActorSystemSupervisionStrategy(w.strategy("/", o.SysStrategy, o.SysDecisions)))
	}
	w.Sys = actor.NewSystem(opts...)
	if err := w.Sys.Start(); err != nil {
		panic(fmt.Sprintf("harness: Start: %v", err))
	}
	ref, err := w.Sys.ActorOf(&observer{w: w}, vivid.WithActorName("zz-observer"))
	if err != nil {
		panic(fmt.Sprintf("harness: observer: %v", err))
	}
	w.Observer = ref
	vt.Settle()
	return w
}

// Now is the virtual time since the world started.
func (w *World) Now() int64 { return int64(time.Since(w.T0)) }

// Close stops the system and releases everything so that the bubble can end.
func (w *World) Close() {
	w.mu.Lock()
	w.closing = true
	for name, g := range w.gates {
		if !w.gateOpen[name] {
			w.gateOpen[name] = true
			close(g)
		}
	}
	w.mu.Unlock()
	if !w.stopped {
		w.stopped = true
		_ = w.Sys.Stop(5 * time.Second)
	}
	w.Cancel()
	vt.Advance(10 * time.Second)
}

// Stop stops the system (script operation).
func (w *World) Stop(timeout time.Duration) error {
	w.stopped = true
	return w.Sys.Stop(timeout)
}

// StopDefault stops the system with its configured timeout.
func (w *World) StopDefault() error {
	w.stopped = true
	return w.Sys.Stop()
}

func (w *World) gate(name string) chan struct{} {
	w.mu.Lock()
	defer w.mu.Unlock()
	g, ok := w.gates[name]
	if !ok {
		g = make(chan struct{})
		w.gates[name] = g
		if w.closing {
			// the case is over: a gate first reached during the clean-up is open
			w.gateOpen[name] = true
			close(g)
		}
	}
	return g
}

// Open opens a gate.
func (w *World) Open(name string) {
	g := w.gate(name)
	w.mu.Lock()
	if !w.gateOpen[name] {
		w.gateOpen[name] = true
		close(g)
	}
	w.mu.Unlock()
}

func (w *World) record(e Ev) {
	w.mu.Lock()
	e.T = w.Now()
	w.Trace = append(w.Trace, e)
	w.Work++
	if w.Work > w.WorkMax {
		w.Overwork = true
	}
	w.mu.Unlock()
}

func (w *World) call(who, op string, id int, err error, note string) {
	c := CallResult{T: w.Now(), Who: who, Op: op, ID: id, Note: note}
	if err != nil {
		c.Err = ErrName(err)
	}
	w.mu.Lock()
	w.Calls = append(w.Calls, c)
	w.mu.Unlock()
}

// ErrName maps the library's errors to short names.
func ErrName(err error) string {
	if err == nil {
		return ""
	}
	for _, c := range []struct {
		e *vivid.Error
		n string
	}{
		{vivid.ErrorFutureTimeout, "FutureTimeout"}, {vivid.ErrorActorDeaded, "ActorDeaded"}, {vivid.ErrorActorAlreadyExists, "AlreadyExists"},
		{vivid.ErrorActorPrelaunchFailed, "PrelaunchFailed"}, {vivid.ErrorActorSpawnFailed, "SpawnFailed"}, {vivid.ErrorNotFound, "NotFound"}, {vivid.ErrorCronParse, "CronParse"},
		{vivid.ErrorFutureMessageTypeMismatch, "TypeMismatch"}, {vivid.ErrorActorSystemStopFailed, "StopFailed"}, {vivid.ErrorActorSystemAlreadyStopped, "AlreadyStopped"},
	} {
		if errors.Is(err, c.e) {
			return c.n
		}
	}
	return "err:" + err.Error()
}

// Path of a logical name.
func Path(name string) string {
	if strings.HasPrefix(name, "/") {
		return name
	}
	return "/" + name
}

// Ref returns the reference ActorOf returned for a logical name (nil if unknown).
func (w *World) Ref(name string) vivid.ActorRef {
	w.mu.Lock()
	defer w.mu.Unlock()
	return w.refs[name]
}

// Resolve obtains a reference to `name` the way `via` says.
func (w *World) Resolve(name, via string, self *probe, ctx vivid.ActorContext) vivid.ActorRef {
	switch via {
	case "self":
		return ctx.Ref()
	case "parent":
		return ctx.Parent()
	case "sender":
		if ctx != nil {
			return ctx.Sender()
		}
	case "lastsender":
		w.mu.Lock()
		defer w.mu.Unlock()
		return w.senders[name]
	}
	base := w.Ref(name)
	addr := actor.LocalAddress
	path := Path(name)
	if base != nil {
		addr, path = base.GetAddress(), base.GetPath()
	}
	switch via {
	case "", "spawn":
		if base != nil {
			return base
		}
		fallthrough
	case "create":
		r, err := w.Sys.CreateRef(addr, path)
		if err != nil {
			panic(fmt.Sprintf("harness: CreateRef(%q,%q): %v", addr, path, err))
		}
		return r
	case "clone":
		if base != nil {
			return base.Clone()
		}
		r, _ := w.Sys.CreateRef(addr, path)
		return r
	case "parse":
		r, err := w.Sys.ParseRef(addr + path)
		if err != nil {
			panic(fmt.Sprintf("harness: ParseRef(%q): %v", addr+path, err))
		}
		return r
	case "find":
		r, err := w.Sys.FindActor(addr + path)
		if err != nil {
			// not registered: fall back to a parsed ref (what a caller holding only the string would do)
			r2, _ := w.Sys.ParseRef(addr + path)
			return r2
		}
		return r
	}
	panic("harness: unknown via " + via)
}

// ---------------------------------------------------------------------------
// supervision strategy built from a decision list

func decisionOf(s string) vivid.SupervisionDecision {
	switch s {
	case "restart":
		return vivid.SupervisionDecisionRestart
	case "grestart":
		return vivid.SupervisionDecisionGracefulRestart
	case "stop":
		return vivid.SupervisionDecisionStop
	case "gstop":
		return vivid.SupervisionDecisionGracefulStop
	case "resume":
		return vivid.SupervisionDecisionResume
	case "escalate":
		return vivid.SupervisionDecisionEscalate
	}
	panic("harness: decision " + s)
}

func (w *World) strategy(supervisor, kind string, decisions []string) vivid.SupervisionStrategy {
	maker := vivid.SupervisionStrategyDecisionMakerFN(func(sc vivid.SupervisionContext) (vivid.SupervisionDecision, string) {
		w.mu.Lock()
		i := w.consult[supervisor]
		w.consult[supervisor]++
		if i >= len(decisions) {
			i = len(decisions) - 1
		}
		d := decisions[i]
		child := ""
		if c := sc.Child().First(); c != nil {
			child = c.GetPath()
		}
		var kids []string
		for _, k := range sc.Children() {
			kids = append(kids, k.GetPath())
		}
		sort.Strings(kids)
		w.Consults = append(w.Consults, Consult{T: w.Now(), Supervisor: supervisor, Child: child, Decision: d, TraceIdx: len(w.Trace), Children: kids})
		w.mu.Unlock()
		return decisionOf(d), "verif:" + d
	})
	if kind == "all" {
		return vivid.OneForAllStrategy(maker)
	}
	return vivid.OneForOneStrategy(maker)
}

// ---------------------------------------------------------------------------
// probe actor

type probe struct {
	w           *World
	sh          *probeShared
	inst        int
	incar       int // incarnation number this instance was (re)started as; updated on restart for non-provider actors
	count       int
	tags        []string // behaviour tags (become stack mirror is not needed: the tag is bound in the closure)
	killedSeen  int
	stashedOnce map[int]bool
	respawned   map[string]bool
	gotKill     bool
	lateSpawned int
	dyingFails  int
}

type hookFailure struct{ what string }

func (h hookFailure) Error() string { return "verif: injected failure in " + h.what }

func contains(xs []int, x int) bool {
	for _, v := range xs {
		if v == x {
			return true
		}
	}
	return false
}

func (w *World) newProbe(sh *probeShared) *probe {
	w.mu.Lock()
	w.instSeq++
	id := w.instSeq
	w.mu.Unlock()
	return &probe{w: w, sh: sh, inst: id}
}

func (p *probe) hook(name string, ref vivid.ActorRef, fails []int) error {
	path := ""
	if ref != nil {
		path = ref.GetPath()
	}
	n := p.sh.incar
	note := ""
	if contains(fails, n) {
		note = "fail"
	}
	if p.sh.spec.Provider {
		note += "+prov"
	}
	p.w.record(Ev{Actor: path, Inst: p.inst, Kind: "hook:" + name, Note: note})
	if contains(fails, n) {
		if p.sh.spec.FailMode == "panic" {
			panic(hookFailure{name})
		}
		return hookFailure{name}
	}
	return nil
}

func (p *probe) OnPrelaunch(ctx vivid.PrelaunchContext) error {
	p.sh.path = ctx.Ref().GetPath()
	err := p.hook("prelaunch", ctx.Ref(), p.sh.spec.FailPrelaunch)
	return err
}

func (p *probe) OnPreRestart(ctx vivid.RestartContext) error {
	return p.hook("prerestart", ctx.Ref(), p.sh.spec.FailPreRestart)
}

func (p *probe) OnRestarted(ctx vivid.RestartContext) error {
	// a new incarnation begins here (the library calls OnRestarted, then OnPrelaunch)
	p.sh.incar++
	return p.hook("restarted", ctx.Ref(), p.sh.spec.FailRestarted)
}

func (p *probe) OnReceive(ctx vivid.ActorContext) { p.receive(ctx, "main") }

func (p *probe) receive(ctx vivid.ActorContext, beh string) {
	w := p.w
	me := ctx.Ref().GetPath()
	from := ""
	if s := ctx.Sender(); s != nil {
		from = s.GetPath()
	}
	switch m := ctx.Message().(type) {
	case *vivid.OnLaunch:
		w.record(Ev{Actor: me, Inst: p.inst, Kind: "launch", From: from, Beh: beh, Count: p.count, Fails: contains(p.sh.spec.FailLaunch, p.sh.incar)})
		if contains(p.sh.spec.FailLaunch, p.sh.incar) {
			panic(fmt.Sprintf("verif: OnLaunch failure of incarnation %d", p.sh.incar))
		}
		p.run(ctx, p.sh.spec.OnLaunch, 0)
	case *vivid.OnKill:
		w.record(Ev{Actor: me, Inst: p.inst, Kind: "kill", From: from, Beh: beh, Note: fmt.Sprintf("poison=%v", m.Poison)})
		p.gotKill = true
		if g := p.sh.spec.GateKill; g != "" {
			<-w.gate(g)
		}
		if p.sh.spec.FailOnKill {
			panic("verif: OnKill failure")
		}
	case *vivid.OnKilled:
		rp := ""
		if m.Ref != nil {
			rp = m.Ref.GetPath()
		}
		w.record(Ev{Actor: me, Inst: p.inst, Kind: "killed:" + rp, From: from, Beh: beh})
		if rp == me {
			if p.sh.spec.FailOnOwnKilled {
				panic("verif: own OnKilled failure")
			}
		} else if p.sh.spec.KillSelfOnChild && !p.gotKill && strings.HasPrefix(rp, me+"/") {
			w.call(p.name(ctx), "killself", 0, nil, "")
			ctx.Kill(ctx.Ref(), false, "verif: my child died")
		} else if p.sh.spec.LateSpawn > p.lateSpawned && p.gotKill && strings.HasPrefix(rp, me+"/") && !strings.Contains(rp[len(me)+1:], "/") {
			// clean-up code that starts a helper while the actor is already being terminated
			p.lateSpawned++
			name := fmt.Sprintf("late%d", p.lateSpawned)
			_, err := w.spawn(ctx, p.name(ctx), Spec{Name: name})
			w.call(p.name(ctx), "latespawn:"+name, 0, err, "")
		} else if p.sh.spec.RespawnKilled && !p.gotKill && strings.HasPrefix(rp, me+"/") && !strings.Contains(rp[len(me)+1:], "/") && (!p.respawned[rp] || p.sh.spec.RespawnAlways) {
			// the parent was told that its child terminated: the name must be free again
			if p.respawned == nil {
				p.respawned = map[string]bool{}
			}
			p.respawned[rp] = true
			name := rp[len(me)+1:]
			_, err := w.spawn(ctx, p.name(ctx), Spec{Name: name})
			w.call(p.name(ctx), "respawn:"+name, 0, err, "")
		} else if p.gotKill && p.dyingFails < p.sh.spec.FailDyingOnChild {
			p.dyingFails++
			panic("verif: child OnKilled failure while terminating")
		} else if p.killedSeen < p.sh.spec.FailOnChildKilled {
			p.killedSeen++
			panic("verif: child OnKilled failure")
		}
	case *Msg:
		p.count++
		// a program with a stash step: the first delivery only stashes, the redelivery runs the rest
		if hasStash(m.Do) && !p.stashedOnce[m.ID] {
			if p.stashedOnce == nil {
				p.stashedOnce = map[int]bool{}
			}
			p.stashedOnce[m.ID] = true
			w.record(Ev{Actor: me, Inst: p.inst, Kind: "msg", ID: m.ID, From: from, Beh: beh, Count: p.count, Sched: m.Sched, Note: "stashed"})
			ctx.Stash()
			return
		}
		w.record(Ev{Actor: me, Inst: p.inst, Kind: "msg", ID: m.ID, From: from, Beh: beh, Count: p.count, Sched: m.Sched, Fails: hasFailure(m.Do)})
		if s := ctx.Sender(); s != nil {
			w.mu.Lock()
			w.senders[strings.TrimPrefix(me, "/")] = s
			w.mu.Unlock()
		}
		p.run(ctx, m.Do, m.ID)
	case *vivid.PipeResult:
		id := -1
		if mm, ok := m.Message.(*Msg); ok {
			id = mm.ID
		}
		w.record(Ev{Actor: me, Inst: p.inst, Kind: "pipe", ID: id, From: from, Beh: beh, Note: ErrName(m.Error)})
	case EvA:
		w.record(Ev{Actor: me, Inst: p.inst, Kind: "evt:EvA", ID: m.ID, From: from, Beh: beh})
	case *EvB:
		w.record(Ev{Actor: me, Inst: p.inst, Kind: "evt:*EvB", ID: m.ID, From: from, Beh: beh})
	case EvC:
		w.record(Ev{Actor: me, Inst: p.inst, Kind: "evt:EvC", ID: m.ID, From: from, Beh: beh})
	case ves.ActorKilledEvent:
		kp := ""
		if m.ActorRef != nil {
			kp = m.ActorRef.GetPath()
		}
		w.record(Ev{Actor: me, Inst: p.inst, Kind: "evt:Killed", From: from, Beh: beh, Note: kp})
	default:
		w.record(Ev{Actor: me, Inst: p.inst, Kind: fmt.Sprintf("other:%T", m), From: from, Beh: beh})
	}
}

func (p *probe) name(ctx vivid.ActorContext) string {
	return strings.TrimPrefix(ctx.Ref().GetPath(), "/")
}

// run interprets a program inside a handler.
func (p *probe) run(ctx vivid.ActorContext, prog []Step, curID int) {
	w := p.w
	who := p.name(ctx)
	for _, st := range prog {
		switch st.Op {
		case "tell":
			ref := w.Resolve(st.To, st.Via, p, ctx)
			w.sent(st.ID, who, ref, st.Via)
			ctx.Tell(ref, &Msg{ID: st.ID, Do: st.Do})
		case "tellself":
			w.sent(st.ID, who, ctx.Ref(), "self")
			ctx.TellSelf(&Msg{ID: st.ID, Do: st.Do})
		case "reply":
			ctx.Reply(&Msg{ID: st.ID, Do: st.Do})
		case "replyerr":
			ctx.Reply(errors.New("verif: reply error"))
		case "replyafter":
			// reply st.N times (ids st.ID, st.ID+1, ...) after st.D of virtual time
			sender := ctx.Sender()
			n := st.N
			if n <= 0 {
				n = 1
			}
			if st.D == 0 {
				for i := 0; i < n; i++ {
					ctx.Reply(&Msg{ID: st.ID + i})
				}
			} else {
				d, id := time.Duration(st.D), st.ID
				go func() {
					time.Sleep(d)
					for i := 0; i < n; i++ {
						w.Sys.Tell(sender, &Msg{ID: id + i})
					}
				}()
			}
		case "ask":
			w.Ask(who, ctx, w.Resolve(st.To, st.Via, p, ctx), st)
		case "kill":
			kref := w.Resolve(st.To, st.Via, p, ctx)
			w.call(who, "kill", 0, nil, kref.GetPath())
			ctx.Kill(kref, st.B, "verif")
		case "waitgone":
			// stay inside the handler until the target's path has been released (virtual time passes meanwhile)
			gref := w.Resolve(st.To, st.Via, p, ctx)
			gone := false
			for i := 0; i < 2000 && !gone; i++ {
				if _, err := w.Sys.FindActor("localhost" + gref.GetPath()); err != nil {
					gone = true
				} else {
					time.Sleep(time.Millisecond)
				}
			}
			var werr error
			if !gone {
				werr = errors.New("still registered after 2 s")
			}
			w.call(who, "waitgone", 0, werr, gref.GetPath())
		case "panic":
			panic(fmt.Sprintf("verif: panic in message %d", curID))
		case "failed":
			ctx.Failed(fmt.Errorf("verif: Failed in message %d", curID))
		case "spawn":
			_, err := w.spawn(ctx, who, *st.Spec)
			w.call(who, "spawn:"+st.Spec.Name, st.ID, err, "")
		case "watch":
			ctx.Watch(w.Resolve(st.To, st.Via, p, ctx))
		case "unwatch":
			ctx.Unwatch(w.Resolve(st.To, st.Via, p, ctx))
		case "stash":
			// handled at delivery (see receive)
		case "unstash":
			if st.N == -999 {
				ctx.Unstash()
			} else {
				ctx.Unstash(st.N)
			}
		case "stashcount":
			w.call(who, "stashcount", st.ID, nil, fmt.Sprint(ctx.StashCount()))
		case "become":
			tag := st.S
			opts := []vivid.BehaviorOption{}
			if st.B {
				opts = append(opts, vivid.WithBehaviorDiscardOld(false))
			}
			ctx.Become(func(c vivid.ActorContext) { p.receive(c, tag) }, opts...)
		case "unbecome":
			opts := []vivid.BehaviorOption{}
			if st.B {
				opts = append(opts, vivid.WithBehaviorDiscardOld(false))
			}
			ctx.UnBecome(opts...)
		case "sub":
			ctx.EventStream().Subscribe(ctx, evProto(st.S))
		case "unsub":
			ctx.EventStream().Unsubscribe(ctx, evProto(st.S))
		case "unsuball":
			ctx.EventStream().UnsubscribeAll(ctx)
		case "pub":
			ctx.EventStream().Publish(ctx, evValue(st.S, st.ID))
		case "once", "loop":
			// PerLife: a job armed by the launch program of every life gets an identity of its own per life
			// (message id + 1000 x incarnation, reference + "#incarnation")
			if st.PerLife {
				st.ID += 1000 * p.sh.incar
				st.S = fmt.Sprintf("%s#%d", st.S, p.sh.incar)
			}
			var err error
			if st.Op == "once" {
				err = ctx.Scheduler().Once(w.Resolve(st.To, st.Via, p, ctx), time.Duration(st.D), &Msg{ID: st.ID, Do: st.Do, Sched: true}, schedOpts(st)...)
			} else {
				err = ctx.Scheduler().Loop(w.Resolve(st.To, st.Via, p, ctx), time.Duration(st.D), &Msg{ID: st.ID, Do: st.Do, Sched: true}, schedOpts(st)...)
			}
			w.call(who, st.Op, st.ID, err, st.S)
		case "cron":
			err := ctx.Scheduler().Cron(w.Resolve(st.To, st.Via, p, ctx), st.L[0], &Msg{ID: st.ID, Do: st.Do, Sched: true}, schedOpts(st)...)
			w.call(who, "cron", st.ID, err, st.S)
		case "cancel":
			err := ctx.Scheduler().Cancel(st.S)
			w.call(who, "cancel", st.ID, err, st.S)
		case "clear":
			ctx.Scheduler().Clear()
			w.call(who, "clear", st.ID, nil, "")
		case "exists":
			w.call(who, "exists", st.ID, nil, fmt.Sprintf("%s=%v", st.S, ctx.Scheduler().Exists(st.S)))
		case "gate":
			<-w.gate(st.S)
		case "pipe":
			var fw vivid.ActorRefs
			for _, n := range st.L {
				fw = append(fw, w.Resolve(n, "", p, ctx))
			}
			ctx.PipeTo(w.Resolve(st.To, st.Via, p, ctx), &Msg{ID: st.ID, Do: st.Do}, fw, durs(st.D)...)
		case "children":
			w.call(who, "children", st.ID, nil, fmt.Sprint(len(ctx.Children())))
		default:
			panic("harness: unknown step op " + st.Op)
		}
	}
}

// hasFailure: the program raises a failure in the handler that runs it (top-level steps only).
func hasFailure(prog []Step) bool {
	for _, st := range prog {
		if st.Op == "panic" || st.Op == "failed" {
			return true
		}
	}
	return false
}

func hasStash(prog []Step) bool {
	for _, st := range prog {
		if st.Op == "stash" {
			return true
		}
	}
	return false
}

func durs(d int64) []time.Duration {
	if d == 0 {
		return nil
	}
	return []time.Duration{time.Duration(d)}
}

func schedOpts(st Step) []vivid.ScheduleOption {
	if st.S == "" {
		return nil
	}
	return []vivid.ScheduleOption{vivid.WithSchedulerReference(st.S)}
}

func evProto(s string) any {
	switch s {
	case "A":
		return EvA{}
	case "B":
		return &EvB{}
	case "K":
		return ves.ActorKilledEvent{}
	default:
		return EvC{}
	}
}

func evValue(s string, id int) any {
	switch s {
	case "A":
		return EvA{ID: id}
	case "B":
		return &EvB{ID: id}
	default:
		return EvC{ID: id}
	}
}

type spawner interface {
	ActorOf(actor vivid.Actor, options ...vivid.ActorOption) (vivid.ActorRef, error)
}

// spawn creates a probe below parent (ctx) or at top level (ctx == nil).
func (w *World) spawn(ctx spawner, parentName string, spec Spec) (vivid.ActorRef, error) {
	name := spec.Name
	if parentName != "" {
		name = parentName + "/" + spec.Name
	}
	sh := &probeShared{spec: spec}
	first := w.newProbe(sh)
	opts := []vivid.ActorOption{vivid.WithActorName(spec.Name)}
	if spec.AskTimeout > 0 {
		opts = append(opts, vivid.WithActorDefaultAskTimeout(time.Duration(spec.AskTimeout)))
	}
	if spec.Provider {
		opts = append(opts, vivid.WithActorProvider(vivid.ActorProviderFN(func() vivid.Actor { return w.newProbe(sh) })))
	}
	if spec.Strategy != "" || len(spec.Decisions) > 0 {
		dec := spec.Decisions
		if len(dec) == 0 {
			dec = []string{"stop"}
		}
		opts = append(opts, vivid.WithActorSupervisionStrategy(w.strategy(Path(name), spec.Strategy, dec)))
	}
	ref, err := ctx.ActorOf(first, opts...)
	if err == nil {
		w.mu.Lock()
		w.refs[name] = ref
		w.probes[name] = sh
		w.mu.Unlock()
	}
	return ref, err
}

// Spawn spawns a top-level probe from outside.
func (w *World) Spawn(spec Spec) (vivid.ActorRef, error) {
	ref, err := w.spawn(w.Sys, "", spec)
	w.call("", "spawn:"+spec.Name, 0, err, "")
	return ref, err
}

// Tell sends from outside (the system is the sender).
func (w *World) Tell(to, via string, id int, do []Step) {
	ref := w.Resolve(to, via, nil, nil)
	if id != 0 {
		w.sent(id, "", ref, via)
	}
	w.Sys.Tell(ref, &Msg{ID: id, Do: do})
}

func (w *World) sent(id int, from string, ref vivid.ActorRef, via string) {
	to := ""
	if ref != nil {
		to = ref.GetPath()
	}
	w.mu.Lock()
	w.Sends = append(w.Sends, Sent{ID: id, T: w.Now(), From: from, To: to, Via: via, AfterStop: w.stopped, TraceIdx: len(w.Trace), EventIdx: len(w.Events)})
	w.mu.Unlock()
}

// SendsCopy returns a copy of the recorded sends.
func (w *World) SendsCopy() []Sent {
	w.mu.Lock()
	defer w.mu.Unlock()
	return append([]Sent(nil), w.Sends...)
}

// Kill from outside.
func (w *World) Kill(to, via string, poison bool) {
	ref := w.Resolve(to, via, nil, nil)
	w.call("", "kill", 0, nil, ref.GetPath())
	w.Sys.Kill(ref, poison, "verif")
}

type asker interface {
	Ask(recipient vivid.ActorRef, message vivid.Message, timeout ...time.Duration) vivid.Future[vivid.Message]
}

// Ask issues an Ask and records the future; st.N waiters are started in their own goroutines.
func (w *World) Ask(who string, a asker, target vivid.ActorRef, st Step) *FutureRec {
	if a == nil {
		a = w.Sys
	}
	f := a.Ask(target, &Msg{ID: st.ID, Do: st.Do}, durs(st.D)...)
	rec := &FutureRec{ID: st.ID, Asker: who, T0: w.Now(), Timeout: st.D, F: f}
	w.mu.Lock()
	w.Futures[st.ID] = rec
	w.mu.Unlock()
	n := st.N
	if n <= 0 {
		n = 1
	}
	for i := 0; i < n; i++ {
		useWait := i%2 == 1
		go func() {
			var r FutResult
			if useWait {
				err := f.Wait()
				r = FutResult{MsgID: -2, Err: ErrName(err)}
			} else {
				m, err := f.Result()
				r = FutResult{MsgID: -1, Err: ErrName(err)}
				if mm, ok := m.(*Msg); ok && mm != nil {
					r.MsgID = mm.ID
				} else if m != nil {
					r.Other = fmt.Sprintf("%T", m)
				}
			}
			r.T = w.Now()
			rec.mu.Lock()
			rec.Results = append(rec.Results, r)
			rec.mu.Unlock()
		}()
	}
	return rec
}

// ResultsOf returns a copy of the results gathered so far.
func (r *FutureRec) ResultsOf() []FutResult {
	r.mu.Lock()
	defer r.mu.Unlock()
	return append([]FutResult(nil), r.Results...)
}

// ---------------------------------------------------------------------------
// observer

type observer struct{ w *World }

func (o *observer) OnReceive(ctx vivid.ActorContext) {
	w := o.w
	add := func(t, actorPath, note string) {
		w.mu.Lock()
		w.Events = append(w.Events, Obs{T: w.Now(), Type: t, Actor: actorPath, Note: note})
		w.mu.Unlock()
	}
	p := func(r vivid.ActorRef) string {
		if r == nil {
			return ""
		}
		return r.GetPath()
	}
	switch m := ctx.Message().(type) {
	case *vivid.OnLaunch:
		es := ctx.EventStream()
		for _, proto := range []any{ves.ActorSpawnedEvent{}, ves.ActorLaunchedEvent{}, ves.ActorKilledEvent{}, ves.ActorRestartingEvent{}, ves.ActorRestartedEvent{},
			ves.ActorFailedEvent{}, ves.ActorWatchedEvent{}, ves.ActorUnwatchedEvent{}, ves.ActorMailboxPausedEvent{}, ves.ActorMailboxResumedEvent{}, ves.DeathLetterEvent{}} {
			es.Subscribe(ctx, proto)
		}
	case ves.ActorSpawnedEvent:
		add("Spawned", p(m.ActorRef), "")
	case ves.ActorLaunchedEvent:
		add("Launched", p(m.ActorRef), "")
	case ves.ActorKilledEvent:
		add("Killed", p(m.ActorRef), "")
	case ves.ActorRestartingEvent:
		add("Restarting", p(m.ActorRef), "")
	case ves.ActorRestartedEvent:
		add("Restarted", p(m.ActorRef), "")
	case ves.ActorFailedEvent:
		add("Failed", p(m.ActorRef), fmt.Sprint(m.Fault))
	case ves.ActorWatchedEvent:
		add("Watched", p(m.ActorRef), p(m.Watcher))
	case ves.ActorUnwatchedEvent:
		add("Unwatched", p(m.ActorRef), p(m.Watcher))
	case ves.ActorMailboxPausedEvent:
		add("Paused", p(m.ActorRef), "")
	case ves.ActorMailboxResumedEvent:
		add("Resumed", p(m.ActorRef), "")
	case ves.DeathLetterEvent:
		ob := Obs{T: w.Now(), Type: "DeadLetter"}
		if m.Envelope != nil {
			ob.System = m.Envelope.System()
			if r := m.Envelope.Receiver(); r != nil {
				ob.Actor = r.GetPath()
			}
			if mm, ok := m.Envelope.Message().(*Msg); ok {
				ob.MsgID = mm.ID
			} else if sm, ok := m.Envelope.Message().(*actor.SchedulerMessage); ok {
				if mm, ok := sm.Message.(*Msg); ok {
					ob.MsgID = mm.ID
					ob.Note = "scheduled"
				}
			} else {
				ob.Note = reflect.TypeOf(m.Envelope.Message()).String()
				switch ev := m.Envelope.Message().(type) {
				case EvA:
					ob.MsgID = ev.ID
				case *EvB:
					ob.MsgID = ev.ID
				case EvC:
					ob.MsgID = ev.ID
				}
			}
		}
		w.mu.Lock()
		w.Events = append(w.Events, ob)
		w.mu.Unlock()
	}
}

// ---------------------------------------------------------------------------
// helpers for oracles

// Snapshot returns copies of the trace and the observations.
func (w *World) Snapshot() ([]Ev, []Obs) {
	w.mu.Lock()
	defer w.mu.Unlock()
	return append([]Ev(nil), w.Trace...), append([]Obs(nil), w.Events...)
}

// CallsCopy returns a copy of the recorded calls.
func (w *World) CallsCopy() []CallResult {
	w.mu.Lock()
	defer w.mu.Unlock()
	return append([]CallResult(nil), w.Calls...)
}

// ConsultsCopy returns a copy of the decision-maker invocations.
func (w *World) ConsultsCopy() []Consult {
	w.mu.Lock()
	defer w.mu.Unlock()
	return append([]Consult(nil), w.Consults...)
}

// PerActor groups the behaviour trace by actor path.
func PerActor(tr []Ev) map[string][]Ev {
	m := map[string][]Ev{}
	for _, e := range tr {
		m[e.Actor] = append(m[e.Actor], e)
	}
	return m
}

// Fmt renders a trace compactly.
func Fmt(tr []Ev) string {
	var s []string
	for _, e := range tr {
		s = append(s, e.String())
	}
	return strings.Join(s, " ")
}

// FmtObs renders observations.
func FmtObs(obs []Obs) string {
	var s []string
	for _, o := range obs {
		x := o.Type + ":" + o.Actor
		if o.Type == "DeadLetter" {
			x += fmt.Sprintf("(%d%s)", o.MsgID, o.Note)
		}
		s = append(s, x)
	}
	return strings.Join(s, " ")
}

// Names returns the logical names spawned so far, sorted.
func (w *World) Names() []string {
	w.mu.Lock()
	defer w.mu.Unlock()
	var ns []string
	for n := range w.refs {
		ns = append(ns, n)
	}
	sort.Strings(ns)
	return ns
}
