// Package ctl is a cooperative scheduler for code that has been instrumented
// with yield points (cmd/vcheck/instr.go). It must be used inside a synctest
// bubble: the controller (the bubble's root goroutine) loops
// synctest.Wait -> collect parked threads -> choose one -> release it, so
// exactly one controlled goroutine runs between two yield points and an
// execution is a pure function of the case and of the sequence of choices.
package ctl

import (
	"runtime"
	"sort"
	"sync"
	"testing/synctest"
)

// Thread is one controlled goroutine.
type Thread struct {
	ID     string
	resume chan struct{}
	parked bool
	done   bool
	site   string
	spawns int
	Steps  int
}

// Step is one scheduling decision.
type Step struct {
	Thread   string
	Site     string
	Enabled  int  // number of parked threads to choose from
	Chosen   int  // index chosen
	PrevIdx  int  // index of the previously running thread among the enabled ones, -1 if not enabled
	Preempts bool // the previous thread was enabled and another one was chosen
}

// Chooser picks the index of the thread to run next. waiting is sorted by
// thread id; prev is the index of the previously running thread in waiting
// (-1 if it is not enabled); step is the decision number.
type Chooser func(step int, waiting []*Thread, prev int) int

// Ctl is one controlled execution.
type Ctl struct {
	mu      sync.Mutex
	threads []*Thread
	current *Thread
	last    *Thread
	aborted bool
	Trace   []Step
	// OnStep, if set, runs on the controller after every step (all threads parked).
	OnStep func() (stop bool)
}

// New returns a controller.
func New() *Ctl { return &Ctl{} }

// Yield is the hook for verifYield.
func (c *Ctl) Yield(site string) {
	t := c.current
	if t == nil {
		return // a goroutine that is not under control (the controller itself)
	}
	c.mu.Lock()
	if c.aborted {
		c.mu.Unlock()
		runtime.Goexit()
	}
	t.site = site
	t.parked = true
	c.mu.Unlock()
	<-t.resume
	c.mu.Lock()
	ab := c.aborted
	c.mu.Unlock()
	if ab {
		runtime.Goexit()
	}
}

// Spawn is the hook for verifGo: the child parks before it runs anything.
func (c *Ctl) Spawn(f func()) {
	p := c.current
	if p == nil {
		go f()
		return
	}
	c.mu.Lock()
	p.spawns++
	t := &Thread{ID: p.ID + "." + itoa(p.spawns), resume: make(chan struct{})}
	t.parked = true
	t.site = "spawned"
	c.threads = append(c.threads, t)
	c.mu.Unlock()
	go c.body(t, f)
}

// Go starts a scripted thread (parked until chosen).
func (c *Ctl) Go(id string, f func()) {
	c.mu.Lock()
	t := &Thread{ID: id, resume: make(chan struct{}), parked: true, site: "start"}
	c.threads = append(c.threads, t)
	c.mu.Unlock()
	go c.body(t, f)
}

func (c *Ctl) body(t *Thread, f func()) {
	defer func() {
		c.mu.Lock()
		t.done = true
		t.parked = false
		c.mu.Unlock()
	}()
	<-t.resume
	c.mu.Lock()
	ab := c.aborted
	c.mu.Unlock()
	if ab {
		return
	}
	f()
}

// Run drives the execution until no thread is parked (all finished) or
// maxSteps decisions were made. It returns true if the budget ran out.
func (c *Ctl) Run(choose Chooser, maxSteps int) (budgetExceeded bool) {
	for step := len(c.Trace); ; step++ {
		synctest.Wait()
		c.mu.Lock()
		c.current = nil
		var waiting []*Thread
		for _, t := range c.threads {
			if t.parked && !t.done {
				waiting = append(waiting, t)
			}
		}
		c.mu.Unlock()
		if c.OnStep != nil && c.OnStep() {
			return false
		}
		if len(waiting) == 0 {
			return false
		}
		if step >= maxSteps {
			return true
		}
		sort.Slice(waiting, func(i, j int) bool { return waiting[i].ID < waiting[j].ID })
		prev := -1
		for i, t := range waiting {
			if t == c.last {
				prev = i
			}
		}
		i := choose(step, waiting, prev)
		if i < 0 || i >= len(waiting) {
			i = 0
		}
		t := waiting[i]
		c.Trace = append(c.Trace, Step{Thread: t.ID, Site: t.site, Enabled: len(waiting), Chosen: i, PrevIdx: prev, Preempts: prev >= 0 && prev != i})
		c.mu.Lock()
		t.parked = false
		t.Steps++
		c.current = t
		c.last = t
		c.mu.Unlock()
		t.resume <- struct{}{}
	}
}

// Live returns the ids of threads that have not finished.
func (c *Ctl) Live() []string {
	c.mu.Lock()
	defer c.mu.Unlock()
	var out []string
	for _, t := range c.threads {
		if !t.done {
			out = append(out, t.ID+"@"+t.site)
		}
	}
	return out
}

// Abort makes every controlled goroutine exit at its next scheduling point and
// waits until they are gone.
func (c *Ctl) Abort() {
	c.mu.Lock()
	c.aborted = true
	c.current = nil
	var parked []*Thread
	for _, t := range c.threads {
		if !t.done {
			parked = append(parked, t)
		}
	}
	c.mu.Unlock()
	for _, t := range parked {
		select {
		case t.resume <- struct{}{}:
		default:
			// not parked right now: it will see the flag at its next yield
			go func(t *Thread) {
				defer func() { _ = recover() }()
				t.resume <- struct{}{}
			}(t)
		}
	}
	synctest.Wait()
}

func itoa(n int) string {
	if n == 0 {
		return "0"
	}
	var b []byte
	for n > 0 {
		b = append([]byte{byte('0' + n%10)}, b...)
		n /= 10
	}
	return string(b)
}

// ---------------------------------------------------------------------------
// choosers

// TapeChooser picks waiting[tape[i mod len] mod n]; an empty tape always picks 0.
func TapeChooser(tape []byte) Chooser {
	return func(step int, waiting []*Thread, prev int) int {
		if len(tape) == 0 {
			return 0
		}
		return int(tape[step%len(tape)]) % len(waiting)
	}
}

// StickyTapeChooser keeps running the previous thread while it is enabled,
// except at the steps listed in switches (value = which other thread).
func StickyTapeChooser(switches map[int]byte) Chooser {
	return func(step int, waiting []*Thread, prev int) int {
		if v, ok := switches[step]; ok {
			if prev >= 0 && len(waiting) > 1 {
				// choose among the others
				k := int(v) % (len(waiting) - 1)
				if k >= prev {
					k++
				}
				return k
			}
			return int(v) % len(waiting)
		}
		if prev >= 0 {
			return prev
		}
		return 0
	}
}

// PrefixChooser follows a forced prefix of choices and then runs
// non-preemptively (continue the previous thread, else the lowest id).
func PrefixChooser(prefix []int) Chooser {
	return func(step int, waiting []*Thread, prev int) int {
		if step < len(prefix) {
			return prefix[step]
		}
		if prev >= 0 {
			return prev
		}
		return 0
	}
}
