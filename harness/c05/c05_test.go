// C05 — lifecycle order per incarnation: OnLaunch first, own OnKilled last;
// a supervised restart starts a new incarnation under the same reference with
// an OnLaunch delivered to the restarted actor itself and to nobody else.
package c05

import (
	"encoding/json"
	"fmt"
	"os"
	"sort"
	"strings"
	"testing"
	"time"

	"github.com/kercylan98/vivid/verif/internal/vstat"
	"github.com/kercylan98/vivid/verif/internal/vt"
	"github.com/kercylan98/vivid/verif/internal/world"
	"pgregory.net/rapid"
)

func TestMain(m *testing.M) {
	vt.StartWatchdog(30 * time.Second)
	vstat.Main(m.Run)
}

// restart decisions are drawn three times as often as the others: the restart clauses need a completed restart
var cfg = world.GenCfg{MaxActors: 5, MaxDepth: 3, Failures: true, Hooks: true, Kills: true, Become: true, Spawns: true, MaxOps: 8, LifecycleFail: true, Watch: true, LateSpawn: true,
	Decisions: []string{"restart", "restart", "restart", "grestart", "grestart", "grestart", "stop", "gstop", "resume", "escalate"}}

type verdict struct{ sig, detail string }

func isHook(k string) bool { return strings.HasPrefix(k, "hook:") }

// lifecycle state machine over one actor path
func checkPath(path string, evs []world.Ev, spawnOK int) *verdict {
	const (
		none = iota
		await
		running
		dead
		zombie
		zombieOrAwait
	)
	state := none
	lastInst := -1
	killedInst := -1
	restartPending := false
	awaitFromDead := false
	lateSpawn := map[int]bool{}
	for i, e := range evs {
		ctx := func() string {
			lo := i - 6
			if lo < 0 {
				lo = 0
			}
			return world.Fmt(evs[lo : i+1])
		}
		switch {
		case e.Kind == "hook:prelaunch":
			failed := strings.HasPrefix(e.Note, "fail")
			state0 := state
			switch state {
			case none, dead:
				if restartPending && e.Inst != lastInst {
					// not the restart's own hook (that runs on the instance OnRestarted ran on): a racing ActorOf under
					// the same name, between the two hooks of the restart
					if !failed {
						lateSpawn[e.Inst] = true
					}
				} else if restartPending {
					// prelaunch of a restart
					if failed {
						state = zombie
					} else {
						state = await
					}
					restartPending = false
				} else if failed {
					// spawn error: this instance must never receive anything (state unchanged)
				} else {
					state = await
					lastInst = e.Inst
					awaitFromDead = state0 == dead
				}
			case zombie:
				if !failed {
					state = zombieOrAwait
				}
			case running, await, zombieOrAwait:
				// a second spawn under a live name: ActorOf calls the hook first and then normally fails with
				// AlreadyExists - unless the current life ends between the hook and the registration (spawn racing
				// a kill): then this instance is the next life and its OnLaunch comes without a further hook
				if !failed {
					lateSpawn[e.Inst] = true
				}
			}
		case e.Kind == "hook:prerestart":
			if state == zombie || state == zombieOrAwait {
				// a restart directive reaching a zombie: whether its hook may run is C09's clause, not C05's
				continue
			}
			if state != running {
				return &verdict{"C05/restart|prerestart-out-of-place", fmt.Sprintf("%s: OnPreRestart while not running: %s", path, ctx())}
			}
		case e.Kind == "hook:restarted":
			if state == await && awaitFromDead {
				// the OnPrelaunch seen after the own OnKilled was not a new spawn: ActorOf calls the hook before it looks
				// at the name, and this call came between the OnKilled and the OnRestarted of a restart in progress
				// (it then fails with AlreadyExists, or wins the name later: the late-spawn rule)
				lateSpawn[lastInst] = true
				state = dead
			}
			if state != dead {
				return &verdict{"C05/restart|before-own-killed", fmt.Sprintf("%s: OnRestarted before the previous incarnation saw its own OnKilled: %s", path, ctx())}
			}
			prov := strings.HasSuffix(e.Note, "+prov")
			if prov && e.Inst == killedInst {
				return &verdict{"C05/restart|provider-instance", fmt.Sprintf("%s: a provider is configured but the restarted incarnation runs on the same instance #%d: %s", path, e.Inst, ctx())}
			}
			if !prov && e.Inst != killedInst {
				return &verdict{"C05/restart|instance", fmt.Sprintf("%s: no provider, yet the instance changed from #%d to #%d: %s", path, killedInst, e.Inst, ctx())}
			}
			lastInst = e.Inst
			if strings.HasPrefix(e.Note, "fail") {
				state = zombie
			} else {
				state = dead
				restartPending = true
			}
		case e.Kind == "launch":
			if (state == dead || state == none) && lateSpawn[e.Inst] && !restartPending {
				state = await // the spawn that overlapped the previous life
				delete(lateSpawn, e.Inst)
			}
			if state != await && state != zombieOrAwait {
				what := map[int]string{none: "never spawned", running: "already running", dead: "terminated", zombie: "a zombie"}[state]
				return &verdict{"C05/onlaunch|not-starting", fmt.Sprintf("%s received OnLaunch although it is %s (an OnLaunch it did not earn): %s", path, what, ctx())}
			}
			if e.Beh != "main" {
				return &verdict{"C05/restart|behaviour-not-reset", fmt.Sprintf("%s: OnLaunch handled by behaviour %q, not by the actor's OnReceive: %s", path, e.Beh, ctx())}
			}
			state = running
			lastInst = e.Inst
			awaitFromDead = false
		case e.Kind == "killed:"+path:
			if state != running {
				return &verdict{"C05/own-killed|out-of-place", fmt.Sprintf("%s: own OnKilled in state %d: %s", path, state, ctx())}
			}
			state = dead
			killedInst = e.Inst
		default:
			switch state {
			case running:
			case await:
				return &verdict{"C05/onlaunch|not-first", fmt.Sprintf("%s: %s delivered before OnLaunch: %s", path, e.Kind, ctx())}
			case dead, none:
				return &verdict{"C05/after-own-killed", fmt.Sprintf("%s: %s delivered after the actor's own OnKilled (or before it was ever launched): %s", path, e.Kind, ctx())}
			case zombie, zombieOrAwait:
				return &verdict{"C05/zombie-runs-user-code", fmt.Sprintf("%s: %s delivered to the behaviour of a zombie: %s", path, e.Kind, ctx())}
			}
			if e.Inst != lastInst {
				return &verdict{"C05/instance-switch", fmt.Sprintf("%s: delivery to instance #%d while #%d is the live one: %s", path, e.Inst, lastInst, ctx())}
			}
		}
	}
	// a successful OnPrelaunch does not mean the spawn succeeded (ActorOf can still lose the name to a predecessor that
	// is being cleaned up): an OnLaunch is owed for every ActorOf that returned a reference
	launches := 0
	for _, e := range evs {
		if e.Kind == "launch" {
			launches++
		}
	}
	if state == await && launches < spawnOK {
		return &verdict{"C05/onlaunch|missing", fmt.Sprintf("%s: an incarnation was started but never received OnLaunch: %s", path, world.Fmt(evs[max(0, len(evs)-8):]))}
	}
	return nil
}

func run(t *testing.T, s world.Scenario) (v *verdict, nontrivial bool, labels []string) {
	lab := map[string]bool{}
	res := vt.Run(t, func() {
		w := world.Build(s)
		w.RunScript(s)
		w.Close()
		tr, obs := w.Snapshot()
		calls := w.CallsCopy()
		if w.Overwork {
			v = &verdict{"C05/unbounded-work", "more than 2e6 deliveries"}
			return
		}
		spawnOK := map[string]int{}
		for _, c := range calls {
			if strings.HasPrefix(c.Op, "spawn:") {
				p := world.Path(c.Who)
				if c.Who == "" {
					p = ""
				}
				if c.Err == "" {
					spawnOK[p+"/"+strings.TrimPrefix(c.Op, "spawn:")]++
				}
			}
		}
		per := world.PerActor(tr)
		restarts := map[string]int{}
		for _, o := range obs {
			switch o.Type {
			case "Restarted":
				restarts[o.Actor]++
				nontrivial = true
				lab["restart"] = true
			case "Failed":
				lab["failure"] = true
			}
		}
		var paths []string
		for p := range per {
			paths = append(paths, p)
		}
		sort.Strings(paths)
		for _, p := range paths {
			if p == "/zz-observer" || p == "" {
				continue
			}
			evs := per[p]
			if vv := checkPath(p, evs, spawnOK[p]); vv != nil {
				v = vv
				return
			}
			for _, e := range evs {
				if e.Kind == "hook:prelaunch" && strings.HasPrefix(e.Note, "fail") {
					lab["hook-failure"] = true
				}
			}
		}
		// Prelaunch failure at spawn: ActorOf returned an error (checked through the calls) and
		// nothing was ever delivered to that instance (state machine above).
		for _, c := range calls {
			if c.Err == "PrelaunchFailed" || c.Err == "SpawnFailed" {
				lab["spawn-error"] = true
			}
		}
	})
	if v == nil && res.Panic != nil {
		if res.Deadlock {
			v = &verdict{"C05/bubble-deadlock", fmt.Sprintf("%v\n%s", res.Panic, res.Stack)}
		} else {
			v = &verdict{"C05/harness-panic", fmt.Sprintf("%v\n%s", res.Panic, res.Stack)}
		}
	}
	for l := range lab {
		labels = append(labels, l)
	}
	sort.Strings(labels)
	return
}

func check(t *testing.T, fatalf func(string, ...any), s world.Scenario) {
	vt.SetCase(s)
	v, nt, labels := run(t, s)
	vstat.Case(vstat.Hash(s.JSON()), nt, labels, func() any { return s.Describe() })
	if v != nil {
		if vstat.Fail(v.sig, v.detail, s) {
			return
		}
		fatalf("VERIF-FAIL sig=%s :: %s\nscenario: %s\njson=%s", v.sig, v.detail, s.Describe(), s.JSON())
	}
}

func TestC05Lifecycle(t *testing.T) {
	rapid.Check(t, func(rt *rapid.T) {
		s := world.GenScenario(rt, cfg)
		s.Racing = rapid.IntRange(0, 3).Draw(rt, "racing") == 0
		check(t, rt.Fatalf, s)
	})
}

func TestReplay(t *testing.T) {
	p := os.Getenv("VERIF_REPLAY_CASE")
	if p == "" {
		t.Skip("no VERIF_REPLAY_CASE")
	}
	b, err := os.ReadFile(p)
	if err != nil {
		t.Fatal(err)
	}
	var s world.Scenario
	var hr struct {
		Case *world.Scenario `json:"case"`
	}
	if json.Unmarshal(b, &hr) == nil && hr.Case != nil && len(hr.Case.Tree) > 0 {
		s = *hr.Case
	} else if err := json.Unmarshal(b, &s); err != nil {
		t.Fatal(err)
	}
	check(t, t.Fatalf, s)
}
