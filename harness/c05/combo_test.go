package c05

// "Prelaunch failure means ActorOf returns an error and the actor never receives anything" - also for an
// actor assembled with the library's own NewComplexCombinationActor: 1-4 components (nil entries in
// between), each with or without an OnPrelaunch hook that succeeds or returns an error (a hook that panics at spawn time
// panics in its caller, ActorOf: plain Go, not claimed either way). Reference
// model: the hooks run in component order up to the first failure; a failure => ActorOf fails and no
// component ever receives a message; otherwise every component receives OnLaunch exactly once, in order.

import (
	"errors"
	"fmt"
	"testing"

	"github.com/kercylan98/vivid"
	"github.com/kercylan98/vivid/internal/actor"
	"github.com/kercylan98/vivid/verif/internal/hlog"
	"github.com/kercylan98/vivid/verif/internal/vstat"
	"github.com/kercylan98/vivid/verif/internal/vt"
	"pgregory.net/rapid"
)

type comp struct {
	idx  int
	mode string // none | ok | err | panic
	log  *[]string
}

type compPlain struct{ comp }
type compHook struct{ comp }

func (c *comp) OnReceive(ctx vivid.ActorContext) {
	*c.log = append(*c.log, fmt.Sprintf("recv:%d:%T", c.idx, ctx.Message()))
}

func (c *compHook) OnPrelaunch(vivid.PrelaunchContext) error {
	*c.log = append(*c.log, fmt.Sprintf("prelaunch:%d", c.idx))
	switch c.mode {
	case "err":
		return errors.New("verif: prelaunch failed")
	case "panic":
		panic("verif: prelaunch panicked")
	}
	return nil
}

func TestC05Combination(t *testing.T) {
	rapid.Check(t, func(rt *rapid.T) {
		n := rapid.IntRange(1, 4).Draw(rt, "components")
		var modes []string
		for i := 0; i < n; i++ {
			modes = append(modes, rapid.SampledFrom([]string{"none", "ok", "ok", "err", "nil"}).Draw(rt, "mode"))
		}
		desc := fmt.Sprintf("components %v", modes)
		vt.SetCase(map[string]any{"test": "TestC05Combination", "modes": modes})
		var log []string
		var spawnErr error
		res := vt.Run(t, func() {
			sys := actor.NewSystem(vivid.WithActorSystemLogger(hlog.Nop))
			if err := sys.Start(); err != nil {
				panic(err)
			}
			defer func() { _ = sys.Stop() }()
			var parts []vivid.Actor
			for i, m := range modes {
				switch m {
				case "nil":
					parts = append(parts, nil)
				case "none":
					parts = append(parts, &compPlain{comp{idx: i, mode: m, log: &log}})
				default:
					parts = append(parts, &compHook{comp{idx: i, mode: m, log: &log}})
				}
			}
			_, spawnErr = sys.ActorOf(vivid.NewComplexCombinationActor(parts...), vivid.WithActorName("combo"))
			vt.Settle()
		})
		if res.Panic != nil {
			rt.Fatalf("harness: %v\n%s", res.Panic, res.Stack)
		}
		// reference model
		var want []string
		failed := false
		for i, m := range modes {
			if m == "nil" || m == "none" {
				continue
			}
			want = append(want, fmt.Sprintf("prelaunch:%d", i))
			if m == "err" || m == "panic" {
				failed = true
				break
			}
		}
		if !failed {
			for i, m := range modes {
				if m != "nil" {
					want = append(want, fmt.Sprintf("recv:%d:*vivid.OnLaunch", i))
				}
			}
		}
		// what the components saw up to and including the launch (the Stop at the end adds OnKill / OnKilled)
		var got []string
		for _, l := range log {
			if len(got) < len(want) || failed {
				got = append(got, l)
			}
		}
		nontrivial := failed && n > 1
		vstat.Case(vstat.Hash(desc), nontrivial, []string{"combination-actor"}, func() any { return desc })
		var v *verdict
		switch {
		case failed && spawnErr == nil:
			v = &verdict{"C05/prelaunch|spawn-succeeded", fmt.Sprintf("%s: an OnPrelaunch hook failed, yet ActorOf returned no error; the components saw %v", desc, log)}
		case !failed && spawnErr != nil:
			v = &verdict{"C05/prelaunch|spurious-error", fmt.Sprintf("%s: no hook failed, ActorOf returned %v", desc, spawnErr)}
		case fmt.Sprint(got) != fmt.Sprint(want):
			v = &verdict{"C05/prelaunch|deliveries", fmt.Sprintf("%s: the components saw %v, expected %v (hooks in order up to the first failure, then nothing / one OnLaunch each)", desc, got, want)}
		}
		if v != nil {
			if !vstat.Fail(v.sig, v.detail, nil) {
				rt.Fatalf("VERIF-FAIL sig=%s :: %s", v.sig, v.detail)
			}
		}
	})
}
