// C16 — version vectors form a lattice: Compare is a partial order, Merge its
// join, Increment strictly increases, operands are never modified, a vector
// survives serialisation.
//
// Vectors are built only through the package's public surface: Increment,
// Merge, Prune/Compact and ReadVersionVector on crafted bytes (the only way to
// get explicit-zero entries and extreme counters, exactly as a peer could send
// them).
package c16

import (
	"errors"
	"fmt"
	"sort"
	"strings"
	"testing"

	"github.com/kercylan98/vivid/internal/cluster"
	"github.com/kercylan98/vivid/internal/messages"
	"github.com/kercylan98/vivid/verif/internal/vstat"
	"pgregory.net/rapid"
)

func TestMain(m *testing.M) { vstat.Main(m.Run) }

const maxCounter = uint64(1<<63 - 1)

type spec map[string]uint64 // explicit entries (zero allowed)

func (s spec) String() string {
	var ks []string
	for k := range s {
		ks = append(ks, k)
	}
	sort.Strings(ks)
	var b strings.Builder
	b.WriteString("{")
	for i, k := range ks {
		if i > 0 {
			b.WriteString(",")
		}
		fmt.Fprintf(&b, "%s:%d", k, s[k])
	}
	b.WriteString("}")
	return b.String()
}

var pool = []string{"a", "b", "c", "d", "e", "f"}

func genCounter() *rapid.Generator[uint64] {
	return rapid.OneOf(
		rapid.SampledFrom([]uint64{0, 0, 1, 1, 2, 3, 1 << 62, maxCounter - 1, maxCounter}),
		rapid.Uint64Range(0, 5),
		rapid.Uint64Range(0, maxCounter),
	)
}

func genSpec(names []string) *rapid.Generator[spec] {
	return rapid.Custom(func(t *rapid.T) spec {
		s := spec{}
		for _, n := range names {
			if rapid.IntRange(0, 2).Draw(t, "present") > 0 {
				s[n] = genCounter().Draw(t, "count")
			}
		}
		return s
	})
}

// build constructs the real vector for a spec, through the wire reader (so
// explicit zeros and extremes exist) or, when possible and drawn so, through
// Increment chains.
func build(t *rapid.T, s spec) cluster.VersionVector {
	small := true
	for _, c := range s {
		if c == 0 || c > 6 {
			small = false
		}
	}
	if small && rapid.Bool().Draw(t, "viaIncrement") {
		v := cluster.NewVersionVector()
		// interleave increments in a drawn order
		var todo []string
		for n, c := range s {
			for i := uint64(0); i < c; i++ {
				todo = append(todo, n)
			}
		}
		sort.Strings(todo)
		perm := rapid.Permutation(todo).Draw(t, "order")
		for _, n := range perm {
			var err error
			v, err = v.Increment(n)
			if err != nil {
				t.Fatalf("harness: increment: %v", err)
			}
		}
		return v
	}
	return fromWire(t, s)
}

func fromWire(t interface{ Fatalf(string, ...any) }, s spec) cluster.VersionVector {
	w := messages.NewWriter()
	var ks []string
	for k := range s {
		ks = append(ks, k)
	}
	sort.Strings(ks)
	w.WriteUint32(uint32(len(ks)))
	for _, k := range ks {
		w.WriteString(k)
		w.WriteUint64(s[k])
	}
	v, err := cluster.ReadVersionVector(messages.NewReader(w.Bytes()))
	if err != nil {
		// every counter the generator draws is one Increment can produce (<= the maximum): a reader that rejects
		// such a vector breaks "a vector survives serialisation"
		sig, detail := "C16/serialisation|legal-vector-rejected", fmt.Sprintf("ReadVersionVector rejects the encoding of %v (every counter <= the maximum counter): %v", s, err)
		if !vstat.Fail(sig, detail, nil) {
			t.Fatalf("VERIF-FAIL sig=%s :: %s", sig, detail)
		}
		t.Fatalf("known finding: %s", sig)
	}
	return v
}

func snapshot(v cluster.VersionVector) string {
	var b strings.Builder
	for _, e := range v.SortedEntries() {
		fmt.Fprintf(&b, "%s:%d,", e.Node, e.Count)
	}
	return b.String()
}

// reference order on the dense expansion
func refCompare(a, b spec) cluster.VersionOrder {
	less, greater := false, false
	for _, n := range pool {
		x, y := a[n], b[n]
		if x < y {
			less = true
		}
		if x > y {
			greater = true
		}
	}
	switch {
	case less && greater:
		return cluster.VersionConcurrent
	case less:
		return cluster.VersionBefore
	case greater:
		return cluster.VersionAfter
	}
	return cluster.VersionEqual
}

func refMerge(a, b spec) spec {
	out := spec{}
	for n, c := range a {
		out[n] = c
	}
	for n, c := range b {
		if cur, ok := out[n]; !ok || c > cur {
			out[n] = c
		}
	}
	return out
}

func ordName(o cluster.VersionOrder) string {
	return [...]string{"Equal", "Before", "After", "Concurrent"}[o]
}

func leq(o cluster.VersionOrder) bool { return o == cluster.VersionBefore || o == cluster.VersionEqual }

type failer struct {
	t   *rapid.T
	cs  string
	hit bool
}

func (f *failer) fail(clause, format string, a ...any) {
	sig := "C16/" + clause
	detail := fmt.Sprintf(format, a...) + " | case: " + f.cs
	if vstat.Fail(sig, detail, f.cs) {
		return
	}
	f.t.Fatalf("VERIF-FAIL sig=%s :: %s", sig, detail)
}

func nontrivialPair(a, b spec) bool {
	if refCompare(a, b) == cluster.VersionEqual && len(a) == len(b) {
		return false
	}
	for _, n := range pool {
		ca, oka := a[n]
		cb, okb := b[n]
		if (oka != okb && (ca == 0 && cb == 0)) || ca >= 1<<62 || cb >= 1<<62 || (oka && ca == 0) || (okb && cb == 0) {
			return true
		}
	}
	return false
}

func TestC16Laws(t *testing.T) {
	rapid.Check(t, func(rt *rapid.T) {
		nNames := rapid.IntRange(1, 6).Draw(rt, "names")
		names := pool[:nNames]
		sa, sb, sc := genSpec(names).Draw(rt, "a"), genSpec(names).Draw(rt, "b"), genSpec(names).Draw(rt, "c")
		// make comparable triples likely: sometimes derive b from a, c from b
		switch rapid.IntRange(0, 3).Draw(rt, "shape") {
		case 0:
			sb = refMerge(sa, sb)
		case 1:
			sb = refMerge(sa, sb)
			sc = refMerge(sb, sc)
		}
		a, b, c := build(rt, sa), build(rt, sb), build(rt, sc)
		f := &failer{t: rt, cs: fmt.Sprintf("a=%v b=%v c=%v", sa, sb, sc)}
		snapA, snapB, snapC := snapshot(a), snapshot(b), snapshot(c)

		labels := []string{"ab:" + ordName(refCompare(sa, sb))}
		// --- Compare agrees with the pointwise definition (which is a partial order)
		for _, p := range []struct {
			n      string
			x, y   cluster.VersionVector
			sx, sy spec
		}{{"a,b", a, b, sa, sb}, {"b,a", b, a, sb, sa}, {"b,c", b, c, sb, sc}, {"a,c", a, c, sa, sc}, {"a,a", a, a, sa, sa}, {"c,b", c, b, sc, sb}} {
			got, want := p.x.Compare(p.y), refCompare(p.sx, p.sy)
			if got != want {
				f.fail("compare|pointwise", "Compare(%s) = %s, pointwise definition gives %s", p.n, ordName(got), ordName(want))
			}
			if (got == cluster.VersionEqual) != p.x.Equal(p.y) || (got == cluster.VersionBefore) != p.x.HappensBefore(p.y) || (got == cluster.VersionAfter) != p.x.HappensAfter(p.y) || (got == cluster.VersionConcurrent) != p.x.IsConcurrentWith(p.y) {
				f.fail("compare|helpers", "Equal/HappensBefore/HappensAfter/IsConcurrentWith disagree with Compare(%s)=%s", p.n, ordName(got))
			}
		}
		// --- the laws themselves, on the implementation's answers only
		ab, ba, bc, ac := a.Compare(b), b.Compare(a), b.Compare(c), a.Compare(c)
		if a.Compare(a) != cluster.VersionEqual {
			f.fail("compare|reflexive", "Compare(a,a) = %s", ordName(a.Compare(a)))
		}
		conv := map[cluster.VersionOrder]cluster.VersionOrder{cluster.VersionEqual: cluster.VersionEqual, cluster.VersionBefore: cluster.VersionAfter, cluster.VersionAfter: cluster.VersionBefore, cluster.VersionConcurrent: cluster.VersionConcurrent}
		if ba != conv[ab] {
			f.fail("compare|converse", "Compare(a,b)=%s but Compare(b,a)=%s", ordName(ab), ordName(ba))
		}
		if leq(ab) && leq(bc) {
			labels = append(labels, "chain")
			if !leq(ac) {
				f.fail("compare|transitive", "a<=b (%s) and b<=c (%s) but Compare(a,c)=%s", ordName(ab), ordName(bc), ordName(ac))
			}
			if (ab == cluster.VersionBefore || bc == cluster.VersionBefore) && ac != cluster.VersionBefore {
				f.fail("compare|transitive", "strict chain but Compare(a,c)=%s", ordName(ac))
			}
		}
		// --- Merge
		m := a.Merge(b)
		m2 := b.Merge(a)
		if !m.Equal(m2) {
			f.fail("merge|commutative", "a.Merge(b)=%s, b.Merge(a)=%s", m, m2)
		}
		if got := a.Merge(a); !got.Equal(a) {
			f.fail("merge|idempotent", "a.Merge(a)=%s", got)
		}
		l, r := a.Merge(b).Merge(c), a.Merge(b.Merge(c))
		if !l.Equal(r) {
			f.fail("merge|associative", "(a+b)+c=%s a+(b+c)=%s", l, r)
		}
		if !leq(a.Compare(m)) || !leq(b.Compare(m)) {
			f.fail("merge|upper-bound", "merge %s is not >= both arguments (a:%s b:%s)", m, ordName(a.Compare(m)), ordName(b.Compare(m)))
		}
		want := fromWire(rt, refMerge(sa, sb))
		if !m.Equal(want) {
			f.fail("merge|pointwise-max", "a.Merge(b)=%s, pointwise maximum is %s", m, want)
		}
		// least: any upper bound u of a and b is >= merge
		u := c.Merge(a).Merge(b)
		if !leq(m.Compare(u)) {
			f.fail("merge|least", "u=%s is an upper bound of a and b but Compare(merge,u)=%s", u, ordName(m.Compare(u)))
		}
		if leq(a.Compare(c)) && leq(b.Compare(c)) {
			labels = append(labels, "c-upper-bound")
			if !leq(m.Compare(c)) {
				f.fail("merge|least", "c is >= a and >= b but Compare(merge,c)=%s", ordName(m.Compare(c)))
			}
		}
		// --- Increment
		node := rapid.SampledFrom(pool).Draw(rt, "incNode")
		inc, err := a.Increment(node)
		if sa[node] >= maxCounter {
			labels = append(labels, "increment-at-max")
			if !errors.Is(err, cluster.ErrVersionOverflow) {
				f.fail("increment|overflow", "Increment(%s) at the maximum counter returned err=%v value=%s", node, err, inc)
			}
		} else {
			if err != nil {
				f.fail("increment|error", "Increment(%s) failed: %v", node, err)
			} else {
				if inc.Compare(a) != cluster.VersionAfter || a.Compare(inc) != cluster.VersionBefore {
					f.fail("increment|strictly-after", "Increment(%s)=%s compares %s to its input", node, inc, ordName(inc.Compare(a)))
				}
				if inc.Get(node) != sa[node]+1 {
					f.fail("increment|value", "Increment(%s): counter %d -> %d", node, sa[node], inc.Get(node))
				}
			}
		}
		if _, err := a.Increment(""); !errors.Is(err, cluster.ErrInvalidNodeAddress) {
			f.fail("increment|invalid-node", "Increment(\"\") err=%v", err)
		}
		// --- other non-mutating operations
		cp := a.Compact()
		if !cp.Equal(a) {
			f.fail("compact|equal", "Compact changed the value: %s -> %s", a, cp)
		}
		for _, e := range cp.SortedEntries() {
			if e.Count == 0 {
				f.fail("compact|zeros", "Compact kept a zero entry: %s", cp)
			}
		}
		active := rapid.SliceOfDistinct(rapid.SampledFrom(pool), func(s string) string { return s }).Draw(rt, "active")
		pr := a.Prune(active)
		for _, e := range pr.SortedEntries() {
			ok := false
			for _, n := range active {
				ok = ok || n == e.Node
			}
			if !ok || e.Count != sa[e.Node] {
				f.fail("prune|subset", "Prune(%v) of %s gave %s", active, a, pr)
			}
		}
		for _, n := range active {
			if _, has := sa[n]; has && !pr.ContainsNode(n) {
				f.fail("prune|keeps-active", "Prune(%v) of %s dropped %s: %s", active, a, n, pr)
			}
		}
		cl := a.Clone()
		if _, err := cl.Increment(node); err == nil {
			_ = err
		}
		// --- serialisation
		w := messages.NewWriter()
		if err := cluster.WriteVersionVector(w, a); err != nil {
			f.fail("wire|write", "WriteVersionVector(%s): %v", a, err)
		} else {
			rd := messages.NewReader(w.Bytes())
			back, err := cluster.ReadVersionVector(rd)
			if err != nil {
				f.fail("wire|read", "ReadVersionVector(Write(%s)): %v", a, err)
			} else {
				if snapshot(back) != snapA {
					f.fail("wire|roundtrip", "entries changed on the wire: %s -> %s", snapA, snapshot(back))
				}
				if rd.Pos() != len(w.Bytes()) {
					f.fail("wire|consumed", "reader consumed %d of %d bytes", rd.Pos(), len(w.Bytes()))
				}
			}
		}
		// --- operands untouched by everything above
		if snapshot(a) != snapA || snapshot(b) != snapB || snapshot(c) != snapC {
			f.fail("no-mutation", "an operand changed: a %s->%s b %s->%s c %s->%s", snapA, snapshot(a), snapB, snapshot(b), snapC, snapshot(c))
		}
		if snapshot(cl) != snapA {
			f.fail("no-mutation|clone", "Increment on a clone's result changed the clone: %s -> %s", snapA, snapshot(cl))
		}
		nt := nontrivialPair(sa, sb)
		vstat.Case(vstat.Hash(sa.String(), sb.String(), sc.String()), nt, labels, func() any {
			return map[string]string{"a": sa.String(), "b": sb.String(), "c": sc.String(), "compare(a,b)": ordName(ab), "merge(a,b)": m.String()}
		})
	})
}

// Mutation through shared state: results of operations must not alias their
// inputs (an Increment on a merge result must not show up in the operands and
// vice versa).
func TestC16Aliasing(t *testing.T) {
	rapid.Check(t, func(rt *rapid.T) {
		sa, sb := genSpec(pool[:3]).Draw(rt, "a"), genSpec(pool[:3]).Draw(rt, "b")
		a, b := build(rt, sa), build(rt, sb)
		f := &failer{t: rt, cs: fmt.Sprintf("a=%v b=%v", sa, sb)}
		snapA, snapB := snapshot(a), snapshot(b)
		ops := rapid.SliceOfN(rapid.SampledFrom([]string{"merge", "clone", "prune", "compact", "inc"}), 1, 6).Draw(rt, "ops")
		cur := a
		for _, op := range ops {
			before := snapshot(cur)
			var next cluster.VersionVector
			switch op {
			case "merge":
				next = cur.Merge(b)
			case "clone":
				next = cur.Clone()
			case "prune":
				next = cur.Prune(pool[:2])
			case "compact":
				next = cur.Compact()
			case "inc":
				n := rapid.SampledFrom(pool[:3]).Draw(rt, "n")
				v, err := cur.Increment(n)
				if err != nil {
					continue
				}
				next = v
			}
			if snapshot(cur) != before {
				f.fail("no-mutation|"+op, "%s modified its receiver: %s -> %s", op, before, snapshot(cur))
			}
			// write into the result through the only mutating-looking API: Increment returns a
			// new value, so derive one and make sure the previous values do not move
			if v2, err := next.Increment("zz"); err == nil {
				_ = v2
			}
			cur = next
		}
		if snapshot(a) != snapA || snapshot(b) != snapB {
			f.fail("no-mutation|chain", "operands changed after %v: a %s->%s b %s->%s", ops, snapA, snapshot(a), snapB, snapshot(b))
		}
		vstat.Case(vstat.Hash(sa.String(), sb.String(), fmt.Sprint(ops)), len(sa) > 0 && len(sb) > 0, []string{"aliasing"}, func() any {
			return map[string]any{"a": sa.String(), "b": sb.String(), "ops": ops}
		})
	})
}

// ---- large vectors: the sizes at which the implementation itself changes behaviour (capacity hints and the wire limit
// are 65535 entries; Merge, Compare and Increment have no documented limit). The laws are the same, the reference is
// the same pointwise definition; ids and counters are a function of drawn parameters, not drawn one by one.

func largeSpec(n, off int, salt uint64, width uint64) spec {
	s := make(spec, n)
	for i := 0; i < n; i++ {
		id := off + i
		x := (uint64(id)+1)*0x9E3779B97F4A7C15 ^ salt
		x ^= x >> 29
		x *= 0xBF58476D1CE4E5B9
		x ^= x >> 32
		s[fmt.Sprintf("n%06d", id)] = x % width
	}
	return s
}

func refCompareAny(a, b spec) cluster.VersionOrder {
	less, greater := false, false
	for n, x := range a {
		y := b[n]
		less, greater = less || x < y, greater || x > y
	}
	for n, y := range b {
		if _, ok := a[n]; !ok && y > 0 {
			less = true
		}
	}
	switch {
	case less && greater:
		return cluster.VersionConcurrent
	case less:
		return cluster.VersionBefore
	case greater:
		return cluster.VersionAfter
	}
	return cluster.VersionEqual
}

// firstDiff compares a real vector with a spec entry by entry (Get semantics: absent = 0).
func firstDiff(v cluster.VersionVector, want spec) string {
	for n, c := range want {
		if got := v.Get(n); got != c {
			return fmt.Sprintf("%s: %d, expected %d", n, got, c)
		}
	}
	for _, e := range v.SortedEntries() {
		if _, ok := want[e.Node]; !ok && e.Count != 0 {
			return fmt.Sprintf("%s: %d, expected absent", e.Node, e.Count)
		}
	}
	return ""
}

func TestC16Large(t *testing.T) {
	sizes := []int{40000, 65535, 32768, 65534, 30000, 1000, 1}
	rapid.Check(t, func(rt *rapid.T) {
		na := rapid.SampledFrom(sizes).Draw(rt, "na")
		nb := rapid.SampledFrom(sizes).Draw(rt, "nb")
		nc := rapid.SampledFrom([]int{1, 1000, 40000}).Draw(rt, "nc")
		// b's id range relative to a's: disjoint, overlapping by one, by half, identical start
		offB := rapid.SampledFrom([]int{na, na - 1, na / 2, 0}).Draw(rt, "offB")
		offC := rapid.SampledFrom([]int{0, na + nb, na / 3}).Draw(rt, "offC")
		width := rapid.SampledFrom([]uint64{3, 2, 1000, 1 << 40}).Draw(rt, "width") // small widths: many ties and zeros
		salt := rapid.Uint64().Draw(rt, "salt")
		sa, sb, sc := largeSpec(na, 0, salt, width), largeSpec(nb, offB, salt+1, width), largeSpec(nc, offC, salt+2, width)
		if rapid.Bool().Draw(rt, "bDominates") {
			for n, c := range sa { // b >= a on a's ids it has: comparable pairs
				if cur, ok := sb[n]; ok && cur < c {
					sb[n] = c
				}
			}
		}
		cs := fmt.Sprintf("na=%d nb=%d nc=%d offB=%d offC=%d width=%d salt=%d (ids n%%06d, counters = mix(id,salt) %% width)", na, nb, nc, offB, offC, width, salt)
		f := &failer{t: rt, cs: cs}
		a, b, c := fromWire(rt, sa), fromWire(rt, sb), fromWire(rt, sc)
		ref := refMerge(sa, sb)
		labels := []string{"large"}
		if len(ref) > 65535 {
			labels = append(labels, "union>65535")
		}
		// Compare
		for _, p := range []struct {
			n      string
			x, y   cluster.VersionVector
			sx, sy spec
		}{{"a,b", a, b, sa, sb}, {"b,a", b, a, sb, sa}, {"a,c", a, c, sa, sc}} {
			if got, want := p.x.Compare(p.y), refCompareAny(p.sx, p.sy); got != want {
				f.fail("compare|pointwise", "large vectors: Compare(%s) = %s, pointwise definition gives %s", p.n, ordName(got), ordName(want))
			}
		}
		// Merge
		m, m2 := a.Merge(b), b.Merge(a)
		if d := firstDiff(m, ref); d != "" {
			f.fail("merge|pointwise-max", "large vectors (union of %d ids): a.Merge(b) differs from the pointwise maximum at %s", len(ref), d)
		}
		if d := firstDiff(m2, ref); d != "" {
			f.fail("merge|commutative", "large vectors (union of %d ids): b.Merge(a) differs from the pointwise maximum at %s", len(ref), d)
		}
		if !m.Equal(m2) {
			f.fail("merge|commutative", "large vectors: a.Merge(b) and b.Merge(a) are not Equal")
		}
		if !leq(a.Compare(m)) || !leq(b.Compare(m)) {
			f.fail("merge|upper-bound", "large vectors: the merge is not >= both arguments (a:%s b:%s)", ordName(a.Compare(m)), ordName(b.Compare(m)))
		}
		if got := m.Merge(m); !got.Equal(m) || got.Size() != m.Size() {
			f.fail("merge|idempotent", "large vectors: m.Merge(m) is not m (sizes %d, %d)", got.Size(), m.Size())
		}
		l, r := m.Merge(c), a.Merge(b.Merge(c))
		if !l.Equal(r) {
			f.fail("merge|associative", "large vectors: (a+b)+c and a+(b+c) are not Equal")
		}
		if d := firstDiff(l, refMerge(ref, sc)); d != "" {
			f.fail("merge|pointwise-max", "large vectors: (a+b)+c differs from the pointwise maximum at %s", d)
		}
		// Increment on the big result
		node := fmt.Sprintf("n%06d", rapid.IntRange(0, na+nb).Draw(rt, "incNode"))
		if inc, err := m.Increment(node); err != nil {
			f.fail("increment|error", "large vectors: Increment(%s) failed: %v", node, err)
		} else if inc.Compare(m) != cluster.VersionAfter || inc.Get(node) != ref[node]+1 {
			f.fail("increment|strictly-after", "large vectors: Increment(%s) compares %s to its input, counter %d -> %d", node, ordName(inc.Compare(m)), ref[node], inc.Get(node))
		}
		// serialisation: up to the documented limit every vector survives; beyond it the writer may refuse, it may not alter
		for _, p := range []struct {
			n string
			v cluster.VersionVector
			s spec
		}{{"a", a, sa}, {"a+b", m, ref}} {
			w := messages.NewWriter()
			if err := cluster.WriteVersionVector(w, p.v); err != nil {
				if p.v.Size() <= 65535 {
					f.fail("wire|write", "large vectors: WriteVersionVector(%s) with %d entries: %v", p.n, p.v.Size(), err)
				}
				continue
			}
			back, err := cluster.ReadVersionVector(messages.NewReader(w.Bytes()))
			if err != nil {
				f.fail("wire|read", "large vectors: ReadVersionVector(Write(%s)) with %d entries: %v", p.n, p.v.Size(), err)
			} else if d := firstDiff(back, p.s); d != "" || back.Size() != p.v.Size() {
				f.fail("wire|roundtrip", "large vectors: %s changed on the wire (%d -> %d entries) %s", p.n, p.v.Size(), back.Size(), d)
			}
		}
		// operands untouched
		if d := firstDiff(a, sa); d != "" || a.Size() != len(sa) {
			f.fail("no-mutation", "large vectors: a changed (%s, size %d -> %d)", d, len(sa), a.Size())
		}
		if d := firstDiff(b, sb); d != "" || b.Size() != len(sb) {
			f.fail("no-mutation", "large vectors: b changed (%s, size %d -> %d)", d, len(sb), b.Size())
		}
		vstat.Case(vstat.Hash(cs), len(ref) >= 32768, labels, func() any {
			return map[string]any{"case": cs, "union": len(ref), "compare(a,b)": ordName(a.Compare(b))}
		})
	})
}
