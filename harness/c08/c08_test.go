// C08 — supervision applies exactly the decided directive to exactly its
// targets. Sequential mode (the world is settled after every operation), so a
// small reference model of the supervision effect table predicts, for every
// operation, the consultations (who is asked about whom, in which order, with
// which decision), the set of live actors, the number of OnLaunch each actor
// has received, each actor's user-state counter and which actors are touched
// at all.
package c08

import (
	"encoding/json"
	"fmt"
	"os"
	"sort"
	"strings"
	"testing"
	"time"

	"github.com/kercylan98/vivid/verif/internal/vstat"
	"github.com/kercylan98/vivid/verif/internal/vt"
	"github.com/kercylan98/vivid/verif/internal/world"
	"pgregory.net/rapid"
)

func TestMain(m *testing.M) {
	vt.StartWatchdog(30 * time.Second)
	vstat.Main(m.Run)
}

type Op struct {
	Kind   string      `json:"kind"` // spawn | tell
	Node   *world.Node `json:"node,omitempty"`
	Target string      `json:"target,omitempty"`
	ID     int         `json:"id,omitempty"`
	Fail   string      `json:"fail,omitempty"` // "" | panic | failed
}

type Case struct {
	Sys world.ScenOpt `json:"sys"`
	Ops []Op          `json:"ops"`
}

func (c Case) JSON() string { b, _ := json.Marshal(c); return string(b) }

func (c Case) Describe() string {
	var b strings.Builder
	for _, o := range c.Ops {
		if o.Kind == "spawn" {
			sp := o.Node.Spec
			fmt.Fprintf(&b, "spawn %s{%s:%s}", o.Node.Name(), sp.Strategy, strings.Join(sp.Decisions, ","))
			if sp.Provider {
				b.WriteString("+prov")
			}
			if len(sp.FailLaunch) > 0 {
				fmt.Fprintf(&b, "+failLaunch%v", sp.FailLaunch)
			}
			if sp.FailOnChildKilled > 0 {
				fmt.Fprintf(&b, "+failOnChildKilled%d", sp.FailOnChildKilled)
			}
			if sp.FailOnKill {
				b.WriteString("+failOnKill")
			}
			if sp.FailOnOwnKilled {
				b.WriteString("+failOnOwnKilled")
			}
			b.WriteString("; ")
		} else {
			fmt.Fprintf(&b, "tell %s#%d %s; ", o.Target, o.ID, o.Fail)
		}
	}
	if len(c.Sys.SysDecisions) > 0 {
		fmt.Fprintf(&b, "| sys=%s:%s", c.Sys.SysStrategy, strings.Join(c.Sys.SysDecisions, ","))
	}
	return b.String()
}

var decisions = []string{"restart", "grestart", "stop", "gstop", "resume", "escalate"}

func genCase(t *rapid.T) Case {
	var c Case
	if rapid.IntRange(0, 2).Draw(t, "sys") == 0 {
		c.Sys.SysStrategy = rapid.SampledFrom([]string{"one", "one", "all"}).Draw(t, "sysKind")
		decs := []string{"restart", "grestart", "stop", "gstop", "resume"}
		if c.Sys.SysStrategy == "all" {
			decs = []string{"restart", "grestart", "resume"} // a one-for-all Stop at the root also stops the observer
		}
		n := rapid.IntRange(1, 2).Draw(t, "nSysDec")
		for i := 0; i < n; i++ {
			c.Sys.SysDecisions = append(c.Sys.SysDecisions, rapid.SampledFrom(decs).Draw(t, "sysDec"))
		}
	}
	n := rapid.IntRange(2, 7).Draw(t, "nActors")
	var names []string
	depth := map[string]int{}
	letters := "abcdefgh"
	for i := 0; i < n; i++ {
		parent := ""
		if i > 0 && rapid.IntRange(0, 4).Draw(t, "nested") > 0 {
			var cands []string
			for _, x := range names {
				if depth[x] < 2 {
					cands = append(cands, x)
				}
			}
			parent = rapid.SampledFrom(cands).Draw(t, "parent")
		}
		sp := world.Spec{Name: string(letters[i])}
		if len(c.Sys.SysDecisions) <= 1 && rapid.IntRange(0, 5).Draw(t, "inherit") == 0 {
			// no own strategy: the system default applies
		} else {
			sp.Strategy = rapid.SampledFrom([]string{"one", "one", "all"}).Draw(t, "kind")
			k := rapid.IntRange(1, 2).Draw(t, "nDec")
			for j := 0; j < k; j++ {
				sp.Decisions = append(sp.Decisions, rapid.SampledFrom(decisions).Draw(t, "dec"))
			}
		}
		sp.Provider = rapid.Bool().Draw(t, "provider")
		if rapid.IntRange(0, 5).Draw(t, "failLaunch") == 0 {
			sp.FailLaunch = []int{rapid.IntRange(0, 2).Draw(t, "failLaunchAt")}
		}
		switch rapid.IntRange(0, 9).Draw(t, "lifeFail") {
		case 0:
			sp.FailOnKill = true
		case 1:
			sp.FailOnChildKilled = 1
		case 2:
			sp.FailOnOwnKilled = true
		}
		nd := world.Node{Parent: parent, Spec: sp}
		names = append(names, nd.Name())
		if parent == "" {
			depth[nd.Name()] = 0
		} else {
			depth[nd.Name()] = depth[parent] + 1
		}
		c.Ops = append(c.Ops, Op{Kind: "spawn", Node: &nd})
	}
	nops := rapid.IntRange(1, 6).Draw(t, "nOps")
	for i := 0; i < nops; i++ {
		o := Op{Kind: "tell", Target: rapid.SampledFrom(names).Draw(t, "target"), ID: i + 1}
		o.Fail = rapid.SampledFrom([]string{"", "panic", "panic", "failed", "failed"}).Draw(t, "fail")
		c.Ops = append(c.Ops, o)
	}
	return c
}

// ---------------------------------------------------------------------------
// reference model

type mAct struct {
	name, parent string
	spec         world.Spec
	alive        bool
	launches     int
	incar        int
	consults     int
	killedBudget int // FailOnChildKilled still to be consumed by the current instance
	count        int // user-state counter of the current instance
	inst         int // changes are only compared for equality/inequality
}

type expConsult struct{ sup, child, dec string }

type model struct {
	sys       world.ScenOpt
	sysCount  int
	acts      map[string]*mAct
	consults  []expConsult
	failed    map[string]int
	touched   map[string]bool
	pending   []string
	ambiguous bool
	last      expConsult // last non-escalate decision applied in this step
	kind      string
}

func path(name string) string {
	if name == "" {
		return "/"
	}
	return "/" + name
}

func (m *model) children(p string) []string {
	var out []string
	for n, a := range m.acts {
		if a.parent == p && a.alive {
			out = append(out, n)
		}
	}
	sort.Strings(out)
	return out
}

func (m *model) subtree(n string) []string {
	out := []string{n}
	for _, c := range m.children(n) {
		out = append(out, m.subtree(c)...)
	}
	return out
}

func pick(list []string, i int) string {
	if i >= len(list) {
		i = len(list) - 1
	}
	return list[i]
}

// decision of supervisor p ("" = root) for its next consultation
func (m *model) decide(p string) (dec, kind, key string) {
	if p != "" {
		a := m.acts[p]
		if a.spec.Strategy != "" || len(a.spec.Decisions) > 0 {
			d := pick(a.spec.Decisions, a.consults)
			a.consults++
			k := a.spec.Strategy
			if k == "" {
				k = "one"
			}
			return d, k, path(p)
		}
	}
	list := m.sys.SysDecisions
	kind = m.sys.SysStrategy
	if len(list) == 0 {
		// the library's own default strategy (one-for-one, Stop): its decision maker is not the harness's
		return "stop", "one", "unobserved"
	}
	d := pick(list, m.sysCount)
	m.sysCount++
	return d, kind, "/"
}

// an actor receives OnKilled{child}: the probe may fail on it (budget per instance)
func (m *model) childDied(parent string, running bool) {
	if parent == "" {
		return
	}
	a := m.acts[parent]
	m.touched[parent] = true
	if a.killedBudget > 0 {
		a.killedBudget--
		if running && a.alive {
			m.pending = append(m.pending, parent)
		}
	}
}

// terminate n and everything below it; notify (dying) parents inside the subtree
func (m *model) terminate(n string) {
	for _, c := range m.children(n) {
		m.terminate(c)
		m.childDied(n, false)
	}
	m.acts[n].alive = false
	m.touched[n] = true
}

func (m *model) fail(x string) {
	if !m.acts[x].alive {
		return
	}
	m.failed[x]++
	cur := x
	for {
		p := m.acts[cur].parent
		dec, kind, key := m.decide(p)
		if key != "unobserved" {
			m.consults = append(m.consults, expConsult{key, path(cur), dec})
		}
		if dec == "escalate" && p != "" {
			cur = p
			continue
		}
		if dec == "escalate" && p == "" {
			panic("harness: the system strategy escalates")
		}
		targets := []string{cur}
		if kind == "all" {
			targets = m.children(p)
		}
		m.last, m.kind = expConsult{key, path(cur), dec}, kind
		switch dec {
		case "restart", "grestart":
			for _, t := range targets {
				a := m.acts[t]
				for _, c := range m.children(t) {
					m.terminate(c)
					m.childDied(t, false)
				}
				a.incar++
				a.launches++
				m.touched[t] = true
				if a.spec.Provider {
					a.inst++
					a.count = 0
					a.killedBudget = a.spec.FailOnChildKilled
				}
				if contains(a.spec.FailLaunch, a.incar) {
					m.pending = append(m.pending, t)
				}
			}
		case "stop", "gstop":
			n := 0
			for _, t := range targets {
				m.terminate(t)
				before := len(m.pending)
				m.childDied(p, true)
				if len(m.pending) > before {
					n++
				}
			}
			if n > 1 {
				m.ambiguous = true
			}
		case "resume":
		}
		return
	}
}

func contains(xs []int, x int) bool {
	for _, v := range xs {
		if v == x {
			return true
		}
	}
	return false
}

func (m *model) drain() {
	for steps := 0; len(m.pending) > 0; steps++ {
		if len(m.pending) > 1 {
			m.ambiguous = true // concurrent failures: the order of consultations is the scheduler's
		}
		x := m.pending[0]
		m.pending = m.pending[1:]
		m.fail(x)
		if steps > 200 {
			panic("harness: model does not terminate")
		}
	}
}

// ---------------------------------------------------------------------------

type verdict struct{ sig, detail string }

func run(t *testing.T, c Case) (v *verdict, nontrivial bool, labels []string) {
	lab := map[string]bool{}
	res := vt.Run(t, func() {
		w := world.New(world.Options{SysDecisions: c.Sys.SysDecisions, SysStrategy: c.Sys.SysStrategy})
		defer w.Close()
		m := &model{sys: c.Sys, acts: map[string]*mAct{}}
		trIdx, evIdx, coIdx := 0, 0, 0
		{
			tr, ev := w.Snapshot()
			trIdx, evIdx = len(tr), len(ev)
		}
		for oi, op := range c.Ops {
			m.consults, m.failed, m.touched, m.ambiguous = nil, map[string]int{}, map[string]bool{}, false
			m.last = expConsult{}
			delivered := false
			expCount := -1
			switch op.Kind {
			case "spawn":
				nd := *op.Node
				name := nd.Name()
				if nd.Parent == "" {
					_, _ = w.Spawn(nd.Spec)
				} else {
					sp := nd.Spec
					w.Tell(nd.Parent, "", 0, []world.Step{{Op: "spawn", Spec: &sp}})
				}
				parentAlive := nd.Parent == "" || (m.acts[nd.Parent] != nil && m.acts[nd.Parent].alive)
				if parentAlive {
					a := &mAct{name: name, parent: nd.Parent, spec: nd.Spec, alive: true, launches: 1, killedBudget: nd.Spec.FailOnChildKilled, inst: 1}
					m.acts[name] = a
					m.touched[name] = true
					if nd.Parent != "" {
						m.touched[nd.Parent] = true
						m.acts[nd.Parent].count++ // the spawn request is a user message (id 0)
					}
					if contains(nd.Spec.FailLaunch, 0) {
						m.pending = append(m.pending, name)
					}
				} else if m.acts[name] == nil {
					m.acts[name] = &mAct{name: name, parent: nd.Parent, spec: nd.Spec}
				}
			case "tell":
				var do []world.Step
				if op.Fail != "" {
					do = []world.Step{{Op: op.Fail}}
				}
				w.Tell(op.Target, "", op.ID, do)
				a := m.acts[op.Target]
				m.touched[op.Target] = true
				if a.alive {
					delivered = true
					a.count++
					expCount = a.count
					if op.Fail != "" {
						m.pending = append(m.pending, op.Target)
					}
				}
			}
			m.drain()
			chains := 0
			for _, k := range m.failed {
				chains += k
			}
			if chains > 1 {
				// a cascade: a later directive may reach an actor while an earlier one is still being
				// carried out (a restart directive for an actor that is already restarting is
				// dropped); the number of incarnations is then not determined by the table alone
				lab["cascade"] = true
				for n, a := range m.acts {
					a.launches = -1
					_ = n
				}
			}
			vt.Settle()
			if chains > 1 {
				// a cascade (a restarted actor fails again in OnLaunch, a supervisor fails on the
				// OnKilled of a stopped child): the second directive may reach actors that are still
				// carrying out the first one; the outcome is then not determined by the table alone
				lab["cascade-end"] = true
				return
			}
			if m.ambiguous {
				// concurrent failures: which directive reaches which actor first is the scheduler's
				// choice and the table no longer determines the outcome; stop judging this case here
				lab["ambiguous-end"] = true
				return
			}
			if w.Overwork {
				v = &verdict{"C08/unbounded-work", "more than 2e6 deliveries"}
				return
			}
			tr, ev := w.Snapshot()
			co := w.ConsultsCopy()
			segTr, segEv, segCo := tr[trIdx:], ev[evIdx:], co[coIdx:]
			trIdx, evIdx, coIdx = len(tr), len(ev), len(co)
			where := fmt.Sprintf("after op %d (%s)", oi, describeOp(op))
			cell := "-"
			if m.last.dec != "" {
				cell = m.last.dec + "|" + m.kind
				lab["cell:"+cell] = true
			}
			if len(m.consults) > 1 {
				lab["escalation-or-cascade"] = true
			}
			ctx := func() string {
				return fmt.Sprintf("%s; segment trace: %s ; events: %s ; consults: %s", where, world.Fmt(segTr), world.FmtObs(segEv), fmtConsults(segCo))
			}
			// --- a failed actor handles nothing until its supervisor has decided (operations are settled one by one)
			if d := handledWhileFailed(tr, co); d != "" {
				v = &verdict{"C08/suspended-until-decision|" + cell, d + "; " + ctx()}
				return
			}
			// --- consultations: exactly the predicted ones, in the predicted order
			var got []expConsult
			for _, x := range segCo {
				got = append(got, expConsult{x.Supervisor, x.Child, x.Decision})
			}
			if !sameConsults(m.consults, got, m.ambiguous) {
				v = &verdict{"C08/consulted-once|" + cell, fmt.Sprintf("consultations differ: expected %v, got %v; %s", m.consults, got, ctx())}
				return
			}
			// --- Failed events
			gotFailed := map[string]int{}
			for _, o := range segEv {
				if o.Type == "Failed" {
					gotFailed[strings.TrimPrefix(o.Actor, "/")]++
				}
			}
			for n, k := range m.failed {
				if gotFailed[n] != k {
					v = &verdict{"C08/failed-events|" + cell, fmt.Sprintf("%s: %d ActorFailedEvent, expected %d; %s", n, gotFailed[n], k, ctx())}
					return
				}
			}
			for n, k := range gotFailed {
				if m.failed[n] != k {
					v = &verdict{"C08/supervision-while-stopping|" + cell, fmt.Sprintf("%s: %d ActorFailedEvent although the model expects %d (a failure while stopping must not trigger supervision); %s", n, k, m.failed[n], ctx())}
					return
				}
			}
			// --- live set and OnLaunch counts
			per := world.PerActor(tr)
			for n, a := range m.acts {
				evs := per[path(n)]
				launches, alive := 0, false
				for _, e := range evs {
					if e.Kind == "launch" {
						launches++
						alive = true
					}
					if e.Kind == "killed:"+path(n) {
						alive = false
					}
				}
				if alive != a.alive {
					v = &verdict{"C08/targets|liveness|" + cell, fmt.Sprintf("%s is alive=%v, the directive implies alive=%v; %s", n, alive, a.alive, ctx())}
					return
				}
				if a.launches < 0 {
					a.launches = launches // resynchronise after a cascade
				}
				if launches != a.launches && chains <= 1 {
					v = &verdict{"C08/targets|incarnations|" + cell, fmt.Sprintf("%s has seen %d OnLaunch, the directives imply %d; %s", n, launches, a.launches, ctx())}
					return
				}
			}
			// --- nobody else is touched
			for _, e := range segTr {
				n := strings.TrimPrefix(e.Actor, "/")
				if n == "zz-observer" {
					continue
				}
				if !m.touched[n] {
					v = &verdict{"C08/no-other-actor|" + cell, fmt.Sprintf("%s is outside the directive's targets but received %s; %s", n, e.String(), ctx())}
					return
				}
			}
			// --- the operation's own message: delivered exactly once, state counter as predicted
			if op.Kind == "tell" {
				cnt := 0
				for _, e := range segTr {
					if e.Kind == "msg" && e.ID == op.ID {
						cnt++
						if want := expCount; want >= 0 && e.Count != want {
							v = &verdict{"C08/state|" + cell, fmt.Sprintf("%s handled message %d with state counter %d, expected %d (Resume keeps state, Restart with a provider resets it); %s", op.Target, op.ID, e.Count, want, ctx())}
							return
						}
					}
				}
				want := 0
				if delivered {
					want = 1
				}
				if cnt != want {
					v = &verdict{"C08/redelivery|" + cell, fmt.Sprintf("message %d was delivered %d times to %s, expected %d; %s", op.ID, cnt, op.Target, want, ctx())}
					return
				}
			}
			if len(m.consults) > 0 {
				sib := 0
				for _, x := range m.consults {
					_ = x
				}
				for n, a := range m.acts {
					if a.alive && !m.touched[n] {
						sib++
					}
				}
				if sib > 0 || len(m.children(strings.TrimPrefix(m.last.child, "/"))) > 0 {
					nontrivial = true
				}
			}
		}
	})
	if v == nil && res.Panic != nil {
		if res.Deadlock {
			v = &verdict{"C08/bubble-deadlock", fmt.Sprintf("%v", res.Panic)}
		} else {
			v = &verdict{"C08/harness-panic", fmt.Sprintf("%v\n%s", res.Panic, res.Stack)}
		}
	}
	for l := range lab {
		labels = append(labels, l)
	}
	sort.Strings(labels)
	return
}

func describeOp(o Op) string {
	if o.Kind == "spawn" {
		return "spawn " + o.Node.Name()
	}
	return fmt.Sprintf("tell %s#%d %s", o.Target, o.ID, o.Fail)
}

func fmtConsults(cs []world.Consult) string {
	var s []string
	for _, c := range cs {
		s = append(s, fmt.Sprintf("%s?%s=%s", c.Supervisor, c.Child, c.Decision))
	}
	return strings.Join(s, " ")
}

func sameConsults(exp, got []expConsult, unordered bool) bool {
	if len(exp) != len(got) {
		return false
	}
	if !unordered {
		for i := range exp {
			if exp[i] != got[i] {
				return false
			}
		}
		return true
	}
	// concurrent failures: the decision index each consultation gets depends on their order;
	// compare who was asked about whom
	key := func(c expConsult) string { return c.sup + "?" + c.child }
	a, b := map[string]int{}, map[string]int{}
	for i := range exp {
		a[key(exp[i])]++
		b[key(got[i])]++
	}
	for k, n := range a {
		if b[k] != n {
			return false
		}
	}
	return true
}

func check(t *testing.T, fatalf func(string, ...any), c Case) {
	vt.SetCase(c)
	v, nt, labels := run(t, c)
	vstat.Case(vstat.Hash(c.JSON()), nt, labels, func() any { return c.Describe() })
	if v != nil {
		if vstat.Fail(v.sig, v.detail, c) {
			return
		}
		fatalf("VERIF-FAIL sig=%s :: %s\ncase: %s\njson=%s", v.sig, v.detail, c.Describe(), c.JSON())
	}
}

func TestC08Matrix(t *testing.T) {
	rapid.Check(t, func(rt *rapid.T) { check(t, rt.Fatalf, genCase(rt)) })
}

func TestReplay(t *testing.T) {
	p := os.Getenv("VERIF_REPLAY_CASE")
	if p == "" {
		t.Skip("no VERIF_REPLAY_CASE")
	}
	b, err := os.ReadFile(p)
	if err != nil {
		t.Fatal(err)
	}
	var c Case
	var hr struct {
		Case *Case `json:"case"`
	}
	if json.Unmarshal(b, &hr) == nil && hr.Case != nil && len(hr.Case.Ops) > 0 {
		c = *hr.Case
	} else if err := json.Unmarshal(b, &c); err != nil {
		t.Fatal(err)
	}
	check(t, t.Fatalf, c)
}
