package c08

import (
	"github.com/kercylan98/vivid/internal/actor"
	"github.com/kercylan98/vivid/verif/internal/world"
)

type actorState = actor.VerifActorState

// actorStates reads the registry through the overlay accessor.
func actorStates(w *world.World) []actorState { return w.Sys.VerifActors() }
