// C09 — after any failure no surviving actor stays paused; queued mail
// survives restart; zombies run no user code, consume their mail, send no
// termination notice and are released by Kill.
//
// Same engine and reference model as C08 (this file lives in the same
// package), plus: bursts queued behind a gated handler with the failure at a
// drawn position, failing restart hooks, probes sent to every live actor after
// quiescence, and white-box reads of IsPaused / zombie through an overlay
// accessor.
package c08

import (
	"fmt"
	"os"
	"sort"
	"strings"
	"testing"

	"encoding/json"

	"github.com/kercylan98/vivid/verif/internal/vstat"
	"github.com/kercylan98/vivid/verif/internal/vt"
	"github.com/kercylan98/vivid/verif/internal/world"
	"pgregory.net/rapid"
)

type Burst struct {
	Target string `json:"target"`
	N      int    `json:"n"`
	FailAt int    `json:"failAt"` // index of the failing message, -1 none
	Fail   string `json:"fail"`
	Second int    `json:"second"` // index of a second failing message, -1 none
}

type Case9 struct {
	Sys         world.ScenOpt `json:"sys"`
	Spawns      []world.Node  `json:"spawns"`
	Bursts      []Burst       `json:"bursts"`
	Racing      bool          `json:"racing"` // bursts to several siblings are released together
	KillZombies bool          `json:"killZombies"`
}

func (c Case9) JSON() string { b, _ := json.Marshal(c); return string(b) }

func (c Case9) Describe() string {
	var b strings.Builder
	for _, nd := range c.Spawns {
		sp := nd.Spec
		fmt.Fprintf(&b, "%s{%s:%s}", nd.Name(), sp.Strategy, strings.Join(sp.Decisions, ","))
		if sp.Provider {
			b.WriteString("+prov")
		}
		if len(sp.FailLaunch) > 0 {
			fmt.Fprintf(&b, "+failLaunch%v", sp.FailLaunch)
		}
		if len(sp.FailRestarted) > 0 {
			fmt.Fprintf(&b, "+failRestarted%v(%s)", sp.FailRestarted, sp.FailMode)
		}
		if len(sp.FailPrelaunch) > 0 {
			fmt.Fprintf(&b, "+failPrelaunch%v(%s)", sp.FailPrelaunch, sp.FailMode)
		}
		if len(sp.FailPreRestart) > 0 {
			fmt.Fprintf(&b, "+failPreRestart%v(%s)", sp.FailPreRestart, sp.FailMode)
		}
		b.WriteString(" ")
	}
	for _, bu := range c.Bursts {
		fmt.Fprintf(&b, "| burst→%s n=%d failAt=%d(%s) second=%d ", bu.Target, bu.N, bu.FailAt, bu.Fail, bu.Second)
	}
	if len(c.Sys.SysDecisions) > 0 {
		fmt.Fprintf(&b, "| sys=%s:%s", c.Sys.SysStrategy, strings.Join(c.Sys.SysDecisions, ","))
	}
	if c.Racing {
		b.WriteString(" racing")
	}
	return b.String()
}

func genCase9(t *rapid.T) Case9 {
	base := genCase(t)
	c := Case9{Sys: base.Sys}
	var names []string
	for _, o := range base.Ops {
		if o.Kind != "spawn" {
			continue
		}
		nd := *o.Node
		// failing restart hooks (zombies)
		if rapid.IntRange(0, 3).Draw(t, "hook") == 0 {
			nd.Spec.FailMode = rapid.SampledFrom([]string{"err", "panic"}).Draw(t, "failMode")
			at := []int{rapid.IntRange(1, 2).Draw(t, "hookAt")}
			switch rapid.IntRange(0, 3).Draw(t, "whichHook") {
			case 0:
				nd.Spec.FailPreRestart = []int{at[0] - 1}
			case 1, 2:
				nd.Spec.FailRestarted = at
			default:
				nd.Spec.FailPrelaunch = at
			}
		}
		nd.Spec.FailOnKill, nd.Spec.FailOnOwnKilled, nd.Spec.FailOnChildKilled = false, false, 0
		c.Spawns = append(c.Spawns, nd)
		names = append(names, nd.Name())
	}
	nb := rapid.IntRange(1, 3).Draw(t, "nBursts")
	for i := 0; i < nb; i++ {
		bu := Burst{Target: rapid.SampledFrom(names).Draw(t, "burstTarget"), N: rapid.IntRange(3, 12).Draw(t, "burstLen"), Second: -1}
		bu.FailAt = rapid.IntRange(0, bu.N-1).Draw(t, "failAt")
		bu.Fail = rapid.SampledFrom([]string{"panic", "failed"}).Draw(t, "fail")
		if rapid.IntRange(0, 5).Draw(t, "secondFail") == 0 && bu.FailAt < bu.N-1 {
			bu.Second = rapid.IntRange(bu.FailAt+1, bu.N-1).Draw(t, "second")
		}
		c.Bursts = append(c.Bursts, bu)
	}
	c.Racing = len(c.Bursts) > 1 && rapid.IntRange(0, 2).Draw(t, "racing") == 0
	c.KillZombies = rapid.Bool().Draw(t, "killZombies")
	return c
}

func run9(t *testing.T, c Case9) (v *verdict, nontrivial bool, labels []string) {
	lab := map[string]bool{}
	res := vt.Run(t, func() {
		w := world.New(world.Options{SysDecisions: c.Sys.SysDecisions, SysStrategy: c.Sys.SysStrategy})
		defer w.Close()
		alive := map[string]bool{}
		for _, nd := range c.Spawns {
			if nd.Parent == "" {
				_, _ = w.Spawn(nd.Spec)
			} else {
				sp := nd.Spec
				w.Tell(nd.Parent, "", 0, []world.Step{{Op: "spawn", Spec: &sp}})
			}
			vt.Settle()
		}
		id := 1000
		type sentBurst struct {
			b      Burst
			ids    []int
			failID int
			secID  int
		}
		var sent []sentBurst
		release := func(names ...string) {
			for _, g := range names {
				w.Open(g)
			}
			vt.Settle()
		}
		var pendingGates []string
		for bi, bu := range c.Bursts {
			// is the target there at all?
			tr, _ := w.Snapshot()
			if !aliveIn(tr, path(bu.Target)) {
				lab["burst-to-dead-target"] = true
				continue
			}
			gate := fmt.Sprintf("g%d", bi)
			id++
			w.Tell(bu.Target, "", id, []world.Step{{Op: "gate", S: gate}})
			vt.Settle()
			sb := sentBurst{b: bu, failID: -1, secID: -1}
			for k := 0; k < bu.N; k++ {
				id++
				var do []world.Step
				if k == bu.FailAt || k == bu.Second {
					do = []world.Step{{Op: bu.Fail}}
					if k == bu.FailAt {
						sb.failID = id
					} else {
						sb.secID = id
					}
				}
				w.Tell(bu.Target, "", id, do)
				sb.ids = append(sb.ids, id)
			}
			sent = append(sent, sb)
			if c.Racing {
				pendingGates = append(pendingGates, gate)
				continue
			}
			release(gate)
		}
		if len(pendingGates) > 0 {
			lab["concurrent-bursts"] = true
			release(pendingGates...)
		}
		vt.Advance(0)
		if w.Overwork {
			v = &verdict{"C09/unbounded-work", "more than 2e6 deliveries"}
			return
		}
		tr, obs := w.Snapshot()
		per := world.PerActor(tr)
		// zombies according to the trace: a restart hook failed after the actor had been launched
		zombie := map[string]bool{}
		for p, evs := range per {
			launched := false
			for _, e := range evs {
				switch {
				case e.Kind == "launch":
					launched = true
					zombie[p] = false
				case (e.Kind == "hook:restarted" || e.Kind == "hook:prelaunch") && strings.HasPrefix(e.Note, "fail") && launched:
					zombie[p] = true
					lab["zombie"] = true
				case e.Kind == "killed:"+p:
					zombie[p] = false
				}
			}
			alive[p] = aliveIn(tr, p)
		}
		// a zombie that was released since (explicit kill, parent's termination): the release runs no
		// behaviour, it shows as an ActorKilledEvent after the last ActorRestartingEvent of the path
		for p := range zombie {
			if !zombie[p] {
				continue
			}
			lastRestarting := -1
			for i, o := range obs {
				if o.Actor == p && o.Type == "Restarting" {
					lastRestarting = i
				}
			}
			for i, o := range obs {
				if o.Actor == p && o.Type == "Killed" && i > lastRestarting {
					zombie[p] = false
					alive[p] = false
					lab["zombie-released-by-parent"] = true
				}
			}
		}
		// ---- clause: zombies run no user code
		for p, evs := range per {
			z := false
			zInst := -1
			launched := false
			for _, e := range evs {
				if z && e.Inst == zInst {
					// anything the instance whose restart hook failed does afterwards - a further hook, an
					// OnLaunch, a message - means the failed restart was carried on
					v = &verdict{"C09/zombie|restart-continued", fmt.Sprintf("%s: the restart hook of instance #%d failed, yet the restart went on: %s; its trace: %s", p, zInst, e.String(), world.Fmt(tailN(evs, 14)))}
					return
				}
				switch {
				case e.Kind == "launch":
					launched, z = true, false
				case (e.Kind == "hook:restarted" || e.Kind == "hook:prelaunch") && strings.HasPrefix(e.Note, "fail") && launched:
					z = true
					zInst = e.Inst
				case e.Kind == "hook:prelaunch" && !strings.HasPrefix(e.Note, "fail") && z:
					// a new spawn under the released name (a different instance)
					z = false
				default:
					if z {
						v = &verdict{"C09/zombie|runs-user-code", fmt.Sprintf("%s became a zombie (failed restart hook) but user code ran afterwards: %s; its trace: %s", p, e.String(), world.Fmt(tailN(evs, 14)))}
						return
					}
				}
			}
		}
		// ---- clause: a failed actor is suspended until its supervisor has decided: between the delivery whose
		// handler raised the failure and the consultation about it, the actor handles no user message
		if !c.Racing { // with bursts released together, directives of an earlier decision may still be in flight when the next failure happens
			if d := handledWhileFailed(tr, w.ConsultsCopy()); d != "" {
				if os.Getenv("VERIF_DEBUG") != "" {
				fmt.Println("FULL TRACE:", world.Fmt(tr), "\nEVENTS:", world.FmtObs(obs), "\nCONSULTS:", fmtConsults(w.ConsultsCopy()))
			}
			v = &verdict{"C09/runs-while-failed", d + "; its trace: " + world.Fmt(tailN(per[failedActorOf(d)], 16))}
				return
			}
			lab["suspended-until-decision-checked"] = true
		}
		// ---- clause: nobody stays paused / half-stopped (white box)
		states := actorStates(w)
		for _, st := range states {
			if st.Path == "/zz-observer" || st.Path == "/" {
				continue
			}
			if st.Zombie {
				continue
			}
			if st.Paused {
				if os.Getenv("VERIF_DEBUG") != "" {
					fmt.Println("FULL TRACE:", world.Fmt(tr), "\nEVENTS:", world.FmtObs(obs), "\nSTATES:", fmt.Sprintf("%+v", states), "\nCONSULTS:", fmtConsults(w.ConsultsCopy()))
				}
				v = &verdict{"C09/left-paused", fmt.Sprintf("%s is alive (state %d) with its mailbox still paused at quiescence; its trace: %s ; events: %s ; consults: %s", st.Path, st.State, world.Fmt(tailN(per[st.Path], 12)), world.FmtObs(tailObsN(filter(obs, st.Path), 12)), fmtConsults(w.ConsultsCopy()))}
				return
			}
			if st.State != 0 {
				if os.Getenv("VERIF_DEBUG") != "" {
					fmt.Println("FULL TRACE:", world.Fmt(tr), "\nEVENTS:", world.FmtObs(obs), "\nSTATES:", fmt.Sprintf("%+v", states))
				}
				v = &verdict{"C09/half-stopped", fmt.Sprintf("%s is registered in state %d (1=killing, 2=killed) at quiescence: neither running nor terminated; its trace: %s ; consults: %s", st.Path, st.State, world.Fmt(tailN(per[st.Path], 12)), fmtConsults(w.ConsultsCopy()))}
				return
			}
		}
		// ---- clause: queued mail
		handledAt := map[int]int{} // id -> index in trace
		handledN := map[int]int{}
		for i, e := range tr {
			if e.Kind == "msg" && e.ID >= 1000 {
				handledAt[e.ID] = i
				handledN[e.ID]++
			}
		}
		dead := map[int]int{}
		for _, o := range obs {
			if o.Type == "DeadLetter" && o.MsgID >= 1000 {
				dead[o.MsgID]++
			}
		}
		for _, sb := range sent {
			p := path(sb.b.Target)
			last := -1
			for _, mid := range sb.ids {
				h, d := handledN[mid], dead[mid]
				if h > 1 || d > 1 || (h >= 1 && d >= 1) {
					v = &verdict{"C09/queued-mail|duplicated", fmt.Sprintf("burst message %d to %s: handled %d times, dead-lettered %d times", mid, p, h, d)}
					return
				}
				if h+d == 0 && !zombieEver(per[p]) {
					v = &verdict{"C09/queued-mail|lost", fmt.Sprintf("burst message %d queued behind the failing message %d at %s was neither delivered nor dead-lettered; trace of %s: %s ; events: %s ; consults: %s", mid, sb.failID, p, p, world.Fmt(tailN(per[p], 16)), world.FmtObs(tailObsN(filter(obs, p), 12)), fmtConsults(w.ConsultsCopy()))}
					return
				}
				if h == 1 {
					if handledAt[mid] < last {
						v = &verdict{"C09/queued-mail|order", fmt.Sprintf("burst to %s was delivered out of order around message %d: %s", p, mid, world.Fmt(tailN(per[p], 20)))}
						return
					}
					last = handledAt[mid]
				}
			}
			// if the target survived as a live non-zombie actor and was never terminated in between,
			// every message except the failing ones was delivered to it
			if alive[p] && !zombie[p] && !everKilled(per[p]) && !c.Racing {
				for _, mid := range sb.ids {
					if handledN[mid] != 1 {
						v = &verdict{"C09/queued-mail|not-delivered", fmt.Sprintf("%s survived the failure (restart/resume) but burst message %d was not delivered to it (dead letters: %d); trace: %s", p, mid, dead[mid], world.Fmt(tailN(per[p], 20)))}
						return
					}
				}
				nontrivial = true
			}
			if sb.b.FailAt < sb.b.N-1 {
				nontrivial = true
			}
		}
		// ---- clause: everybody alive processes messages sent afterwards; zombies consume silently
		probeID := 5000
		probes := map[string]int{}
		var paths []string
		for p := range per {
			paths = append(paths, p)
		}
		sort.Strings(paths)
		for _, p := range paths {
			if p == "/zz-observer" || p == "" || !(alive[p] || zombie[p]) {
				continue
			}
			probeID++
			probes[p] = probeID
			w.Tell(strings.TrimPrefix(p, "/"), "", probeID, nil)
		}
		vt.Settle()
		tr2, obs2 := w.Snapshot()
		for p, pid := range probes {
			h, d := 0, 0
			for _, e := range tr2 {
				if e.Kind == "msg" && e.ID == pid {
					h++
				}
			}
			for _, o := range obs2 {
				if o.Type == "DeadLetter" && o.MsgID == pid {
					d++
				}
			}
			if zombie[p] {
				if h > 0 {
					v = &verdict{"C09/zombie|runs-user-code", fmt.Sprintf("zombie %s handled probe %d in user code", p, pid)}
					return
				}
				continue
			}
			if h != 1 {
				v = &verdict{"C09/stuck|probe-not-processed", fmt.Sprintf("%s is alive after the failures but a message sent afterwards (probe %d) was handled %d times (dead letters %d); trace: %s ; events: %s ; consults: %s", p, pid, h, d, world.Fmt(tailN(world.PerActor(tr2)[p], 14)), world.FmtObs(tailObsN(filter(obs2, p), 12)), fmtConsults(w.ConsultsCopy()))}
				return
			}
		}
		// ---- clause: a zombie sends no termination notice until released, and is released by Kill
		for p, z := range zombie {
			if !z {
				continue
			}
			parent := p[:strings.LastIndex(p, "/")]
			for _, e := range world.PerActor(tr2)[parent] {
				_ = e
			}
			notices := 0
			for _, e := range tr2 {
				if e.Kind == "killed:"+p && e.Actor != p {
					notices++
				}
			}
			// notices from earlier incarnations of the same path are possible only if it had terminated before;
			// count only those after the failed hook
			idx := lastFailedHook(tr2, p)
			notices = 0
			for _, e := range tr2[idx:] {
				if e.Kind == "killed:"+p && e.Actor != p {
					notices++
				}
			}
			if notices > 0 {
				v = &verdict{"C09/zombie|termination-notice", fmt.Sprintf("zombie %s sent %d OnKilled notices although nobody killed it", p, notices)}
				return
			}
			if c.KillZombies {
				w.Kill(strings.TrimPrefix(p, "/"), "", rapidBool(p))
				vt.Settle()
				tr3, _ := w.Snapshot()
				released := false
				for _, st := range actorStates(w) {
					if st.Path == p {
						released = false
						v = &verdict{"C09/zombie|not-released", fmt.Sprintf("zombie %s is still registered after an explicit Kill (state %d zombie=%v)", p, st.State, st.Zombie)}
						return
					}
				}
				released = true
				_ = released
				n := 0
				for _, e := range tr3[idx:] {
					if e.Kind == "killed:"+p && e.Actor == parentOr(parent) {
						n++
					}
				}
				if parent != "" && aliveIn(tr3, parent) && n != 1 {
					v = &verdict{"C09/zombie|release-notice", fmt.Sprintf("after the explicit Kill of zombie %s its parent %s received %d OnKilled for it (expected 1)", p, parent, n)}
					return
				}
				lab["zombie-killed"] = true
			}
		}
		if len(w.ConsultsCopy()) > 0 {
			lab["supervised"] = true
		}
	})
	if v == nil && res.Panic != nil {
		if res.Deadlock {
			v = &verdict{"C09/bubble-deadlock", fmt.Sprintf("%v", res.Panic)}
		} else {
			v = &verdict{"C09/harness-panic", fmt.Sprintf("%v\n%s", res.Panic, res.Stack)}
		}
	}
	for l := range lab {
		labels = append(labels, l)
	}
	sort.Strings(labels)
	return
}

func rapidBool(s string) bool { return len(s)%2 == 0 }

func parentOr(p string) string {
	if p == "" {
		return "/"
	}
	return p
}

func lastFailedHook(tr []world.Ev, p string) int {
	idx := 0
	for i, e := range tr {
		if e.Actor == p && (e.Kind == "hook:restarted" || e.Kind == "hook:prelaunch") && strings.HasPrefix(e.Note, "fail") {
			idx = i
		}
	}
	return idx
}

func aliveIn(tr []world.Ev, p string) bool {
	a := false
	for _, e := range tr {
		if e.Actor != p {
			continue
		}
		if e.Kind == "launch" {
			a = true
		}
		if e.Kind == "killed:"+p {
			a = false
		}
	}
	return a
}

func everKilled(evs []world.Ev) bool {
	for _, e := range evs {
		if strings.HasPrefix(e.Kind, "killed:") && e.Kind == "killed:"+e.Actor {
			return true
		}
	}
	return false
}

func zombieEver(evs []world.Ev) bool {
	launched := false
	for _, e := range evs {
		if e.Kind == "launch" {
			launched = true
		}
		if (e.Kind == "hook:restarted" || e.Kind == "hook:prelaunch") && strings.HasPrefix(e.Note, "fail") && launched {
			return true
		}
	}
	return false
}

func tailN(e []world.Ev, n int) []world.Ev {
	if len(e) > n {
		return e[len(e)-n:]
	}
	return e
}

func tailObsN(e []world.Obs, n int) []world.Obs {
	if len(e) > n {
		return e[len(e)-n:]
	}
	return e
}

func filter(obs []world.Obs, p string) []world.Obs {
	var out []world.Obs
	for _, o := range obs {
		if o.Actor == p {
			out = append(out, o)
		}
	}
	return out
}

func check9(t *testing.T, fatalf func(string, ...any), c Case9) {
	vt.SetCase(c)
	v, nt, labels := run9(t, c)
	vstat.Case(vstat.Hash(c.JSON()), nt, labels, func() any { return c.Describe() })
	if v != nil {
		if vstat.Fail(v.sig, v.detail, c) {
			return
		}
		fatalf("VERIF-FAIL sig=%s :: %s\ncase: %s\njson=%s", v.sig, v.detail, c.Describe(), c.JSON())
	}
}

func TestC09NotStuck(t *testing.T) {
	rapid.Check(t, func(rt *rapid.T) { check9(t, rt.Fatalf, genCase9(rt)) })
}

func TestReplay9(t *testing.T) {
	p := os.Getenv("VERIF_REPLAY_CASE")
	if p == "" {
		t.Skip("no VERIF_REPLAY_CASE")
	}
	b, err := os.ReadFile(p)
	if err != nil {
		t.Fatal(err)
	}
	var c Case9
	var hr struct {
		Case *Case9 `json:"case"`
	}
	if json.Unmarshal(b, &hr) == nil && hr.Case != nil && len(hr.Case.Spawns) > 0 {
		c = *hr.Case
	} else if err := json.Unmarshal(b, &c); err != nil {
		t.Fatal(err)
	}
	check9(t, t.Fatalf, c)
}

// handledWhileFailed: a failed actor is suspended until its supervisor has decided. For every consultation the failure
// it is about is the child's last failing delivery after the previous consultation about the same child (none: an
// escalated consultation, the child did not fail itself); between that delivery and the consultation the child must
// not handle a user message - unless another consultation lies between the child's previous consultation and this one
// (a sibling's failure under one-for-all or an ancestor's restart may legitimately have resumed or drained it, also
// with a directive that was decided before the child failed and arrived after) or the child was restarted in between by a directive
// that was already on its way when it failed. Returns a description, "" if the clause holds.
func handledWhileFailed(tr []world.Ev, consults []world.Consult) string {
	prevConsult := map[string]int{}
	for _, cs := range consults {
		from := prevConsult[cs.Child]
		prevConsult[cs.Child] = cs.TraceIdx
		f := -1
		for i := cs.TraceIdx - 1; i >= from && i >= 0 && i < len(tr); i-- {
			if tr[i].Actor == cs.Child && tr[i].Fails {
				f = i
				break
			}
		}
		if f < 0 {
			continue
		}
		other := false
		for _, o := range consults {
			// any other consultation since the child's previous one: its directive (a one-for-all Resume or Restart
			// about a sibling, an ancestor's decision) may still have been on its way when the child failed, and then
			// legitimately resumes or restarts it before its own failure is looked at
			if o.TraceIdx > from && o.TraceIdx <= cs.TraceIdx && !(o.Child == cs.Child && o.TraceIdx == cs.TraceIdx) {
				other = true
			}
		}
		if other {
			continue
		}
		for i := f + 1; i < cs.TraceIdx && i < len(tr); i++ {
			if tr[i].Actor == cs.Child && (tr[i].Kind == "launch" || tr[i].Kind == "hook:restarted") {
				// a restart directive decided before this failure (an earlier one-for-all round still in flight) has
				// replaced the failed incarnation: what the new one handles is not the failed actor running on
				break
			}
			if tr[i].Actor == cs.Child && tr[i].Kind == "msg" && tr[i].Inst == tr[f].Inst {
				return fmt.Sprintf("%s failed (%s) and, before its supervisor %s was consulted about that failure, handled %s: a failed actor is suspended until the decision", cs.Child, tr[f].String(), cs.Supervisor, tr[i].String())
			}
		}
	}
	return ""
}

func failedActorOf(detail string) string {
	if i := strings.Index(detail, " failed ("); i > 0 {
		return detail[:i]
	}
	return ""
}
