// C10 — the documented-concurrent API is safe from any goroutine: no crash, no
// corrupted tree, no data race. Real threads, real clock, built with -race.
package c10

import (
	"errors"
	"fmt"
	"os"
	"sort"
	"strconv"
	"strings"
	"sync"
	"sync/atomic"
	"testing"
	"time"

	"github.com/kercylan98/vivid"
	"github.com/kercylan98/vivid/internal/actor"
	"github.com/kercylan98/vivid/verif/internal/hlog"
	"github.com/kercylan98/vivid/verif/internal/vstat"
	"github.com/kercylan98/vivid/verif/internal/vt"
	_ "pgregory.net/rapid" // registers the -rapid.* flags the driver passes to every unit
)

func TestMain(m *testing.M) { vstat.Main(m.Run) }

var errClosedByTest = errors.New("verif: closed by the test")

type evX struct{ n int }
type evY struct{ n int }

type ping struct{ n int }
type spawnKids struct{ n, depth int }
type spawnNamed struct{ name string }
type hold struct{} // an Ask that is never answered: its sender (the future) stays registered until the timeout

var lastHeld atomic.Value // string: the sender reference a worker saw for a pending Ask
type boom struct{}
type selfKill struct{ poison bool }

// collector: the forwarder of Future.PipeTo calls made from outside goroutines; never killed, never fails
type collector struct {
	got   atomic.Int64
	dup   atomic.Int64
	empty atomic.Int64 // results that carry neither a reply nor an error
	seen  sync.Map     // n of a successful result -> struct{}
}

func (c *collector) OnReceive(ctx vivid.ActorContext) {
	if pr, ok := ctx.Message().(*vivid.PipeResult); ok {
		c.got.Add(1)
		if pr.Message == nil && pr.Error == nil {
			c.empty.Add(1)
		}
		if p, ok := pr.Message.(*ping); ok && pr.Error == nil {
			if _, again := c.seen.LoadOrStore(p.n, struct{}{}); again {
				c.dup.Add(1)
			}
		}
	}
}

// worker: echoes, spawns children, fails, kills itself — driven by messages from many goroutines
type worker struct {
	depth int
	stats *counters
}

type counters struct {
	handled, spawned, failed, badSpawn atomic.Int64
}

func (w *worker) OnReceive(ctx vivid.ActorContext) {
	switch m := ctx.Message().(type) {
	case *vivid.OnLaunch:
		if w.depth == 0 {
			ctx.EventStream().Subscribe(ctx, evX{})
		}
	case *ping:
		w.stats.handled.Add(1)
		if ctx.Sender() != nil {
			ctx.Reply(&ping{n: m.n})
		}
	case *spawnKids:
		for i := 0; i < m.n; i++ {
			if _, err := ctx.ActorOf(&worker{depth: w.depth + 1, stats: w.stats}); err == nil {
				w.stats.spawned.Add(1)
			}
		}
	case *hold:
		if sd := ctx.Sender(); sd != nil {
			lastHeld.Store(sd.String())
		}
	case *spawnNamed:
		// "create the named child unless it is there already"
		if _, err := ctx.ActorOf(&worker{depth: w.depth + 1, stats: w.stats}, vivid.WithActorName(m.name)); err == nil {
			w.stats.spawned.Add(1)
		} else if !errors.Is(err, vivid.ErrorActorAlreadyExists) {
			w.stats.badSpawn.Add(1)
		}
	case *boom:
		w.stats.failed.Add(1)
		panic("verif: boom")
	case *selfKill:
		ctx.Kill(ctx.Ref(), m.poison, "verif")
	case evX:
		ctx.EventStream().Publish(ctx, evY{n: m.n})
	}
}

func TestC10Stress(t *testing.T) {
	rounds := 4
	if os.Getenv("VERIF_TIER") == "thorough" {
		rounds = 40
	}
	seed, _ := strconv.ParseUint(os.Getenv("VERIF_RSEED"), 10, 64)
	decisions := []vivid.SupervisionDecision{vivid.SupervisionDecisionRestart, vivid.SupervisionDecisionStop, vivid.SupervisionDecisionResume, vivid.SupervisionDecisionGracefulRestart, vivid.SupervisionDecisionGracefulStop}
	for r := 0; r < rounds; r++ {
		x := seed + uint64(r)*0x9e3779b97f4a7c15
		nGo := 4 + int(x%29)
		opsPer := 150 + int((x>>8)%250)
		dec := decisions[(x>>20)%uint64(len(decisions))]
		kind := "one"
		strategy := vivid.OneForOneStrategy(vivid.SupervisionStrategyDecisionMakerFN(func(vivid.SupervisionContext) (vivid.SupervisionDecision, string) { return dec, "verif" }))
		if (x>>28)%3 == 0 && !dec.IsStop() {
			kind = "all"
			strategy = vivid.OneForAllStrategy(vivid.SupervisionStrategyDecisionMakerFN(func(vivid.SupervisionContext) (vivid.SupervisionDecision, string) { return dec, "verif" }))
		}
		vt.SetCase(map[string]any{"test": "TestC10Stress", "rapid_seed": os.Getenv("VERIF_RSEED"), "round": r, "goroutines": nGo, "ops": opsPer, "decision": dec.String(), "strategy": kind})
		sys := actor.NewSystem(vivid.WithActorSystemLogger(hlog.Nop), vivid.WithActorSystemSupervisionStrategy(strategy))
		if err := sys.Start(); err != nil {
			t.Fatal(err)
		}
		st := &counters{}
		var mu sync.Mutex
		var refs []vivid.ActorRef
		addRef := func(r vivid.ActorRef) {
			mu.Lock()
			refs = append(refs, r)
			mu.Unlock()
		}
		pick := func(y uint64) vivid.ActorRef {
			mu.Lock()
			defer mu.Unlock()
			if len(refs) == 0 {
				return nil
			}
			return refs[y%uint64(len(refs))]
		}
		// forwarders of Future.PipeTo: outside the pool of victims
		cols := make([]*collector, 3)
		colRefs := make([]vivid.ActorRef, len(cols))
		pipeCalls := make([]atomic.Int64, len(cols))
		for i := range cols {
			cols[i] = &collector{}
			cr, err := sys.ActorOf(cols[i], vivid.WithActorName(fmt.Sprintf("collector-%d", i)))
			if err != nil {
				t.Fatal(err)
			}
			colRefs[i] = cr
		}
		var bad atomic.Value
		fail := func(sig, format string, a ...any) { bad.CompareAndSwap(nil, [2]string{sig, fmt.Sprintf(format, a...)}) }
		var overlap, named, collisions, lookups, pipes atomic.Int64
		var wg sync.WaitGroup
		for g := 0; g < nGo; g++ {
			wg.Add(1)
			go func(g int) {
				defer wg.Done()
				y := x ^ (uint64(g)+1)*0xbf58476d1ce4e5b9
				for i := 0; i < opsPer; i++ {
					y = y*6364136223846793005 + 1442695040888963407
					switch (y >> 33) % 18 {
					case 0, 1, 2:
						ref, err := sys.ActorOf(&worker{stats: st})
						if err != nil {
							fail("C10/api-error", "System.ActorOf: %v", err)
							continue
						}
						addRef(ref)
					case 3, 4:
						if ref := pick(y >> 20); ref != nil {
							sys.Tell(ref, &ping{n: i})
						}
					case 5:
						if ref := pick(y >> 20); ref != nil {
							// reply, timeout and an explicit Close race each other on different threads
							tmo := []time.Duration{time.Microsecond, 5 * time.Microsecond, 20 * time.Microsecond, 100 * time.Microsecond, 200 * time.Millisecond}[(y>>41)%5]
							f := sys.Ask(ref, &ping{n: i}, tmo)
							var pw sync.WaitGroup
							pw.Add(2)
							go func() { defer pw.Done(); _ = f.Wait() }()
							closeIt := (y>>47)%2 == 0
							go func() {
								defer pw.Done()
								if closeIt {
									for k := uint64(0); k < (y>>52)%200; k++ {
										_ = k
									}
									f.Close(errClosedByTest)
								}
							}()
							m, err := f.Result()
							if err == nil {
								if p, ok := m.(*ping); !ok || p.n != i {
									fail("C10/foreign-reply", "Ask got %v", m)
								}
							} else if m != nil {
								fail("C10/future-completed-twice", "Result returned both a message (%v) and an error (%v)", m, err)
							} else if !errors.Is(err, vivid.ErrorFutureTimeout) && !errors.Is(err, errClosedByTest) {
								fail("C10/ask-error", "Ask: %v", err)
							}
							pw.Wait()
							if m2, err2 := f.Result(); (err2 == nil) != (err == nil) || (err == nil && m2 != m) {
								fail("C10/future-completed-twice", "two Result calls disagree: (%v,%v) then (%v,%v)", m, err, m2, err2)
							}
						}
					case 6, 7:
						if ref := pick(y >> 20); ref != nil {
							sys.Kill(ref, (y>>50)%2 == 0, "verif")
							overlap.Add(1)
						}
					case 8:
						if ref := pick(y >> 20); ref != nil {
							if got, err := sys.FindActor(ref.String()); err == nil && !got.Equals(ref) {
								fail("C10/find-actor", "FindActor(%s) returned %s", ref, got)
							}
							_ = ref.Clone().String()
							// "any ActorRef": one shared reference object read from many goroutines while others send through it
							if cl := ref.Clone(); !cl.Equals(ref) || cl.GetPath() != ref.GetPath() || cl.GetAddress() != ref.GetAddress() || len(ref.ToActorRefs()) != 1 {
								fail("C10/ref", "a clone of %s differs from it: %s", ref, cl)
							}
						}
					case 9:
						if ref := pick(y >> 20); ref != nil {
							sys.Tell(ref, &spawnKids{n: 1 + int((y>>44)%3)})
						}
					case 10:
						if ref := pick(y >> 20); ref != nil {
							sys.Tell(ref, &boom{})
						}
					case 11:
						sys.EventStream().Publish(sys, evX{n: i})
					case 12:
						if ref := pick(y >> 20); ref != nil {
							sys.Tell(ref, &selfKill{poison: (y>>51)%2 == 0})
						}
					case 13:
						sys.EventStream().Subscribe(sys, evY{})
						sys.EventStream().Unsubscribe(sys, evY{})
					case 14:
						// several goroutines create the same named top-level actor "unless someone was faster"
						name := fmt.Sprintf("svc-%d", (y>>45)%5)
						ref, err := sys.ActorOf(&worker{stats: st}, vivid.WithActorName(name))
						switch {
						case err == nil:
							addRef(ref)
							named.Add(1)
						case errors.Is(err, vivid.ErrorActorAlreadyExists):
							collisions.Add(1)
						default:
							fail("C10/api-error", "System.ActorOf(%s): %v", name, err)
						}
					case 15:
						if ref := pick(y >> 20); ref != nil {
							sys.Tell(ref, &spawnNamed{name: fmt.Sprintf("kid-%d", (y>>45)%3)})
						}
					case 17:
						// Future.PipeTo from a second goroutine while reply, timeout and Close race the registration:
						// the forwarder gets the result exactly once whichever side wins
						if ref := pick(y >> 20); ref != nil {
							tmo := []time.Duration{time.Microsecond, 5 * time.Microsecond, 20 * time.Microsecond, 100 * time.Microsecond, 200 * time.Millisecond}[(y>>41)%5]
							uniq := (g+1)<<20 | i
							ci := int((y >> 43) % uint64(len(cols)))
							f := sys.Ask(ref, &ping{n: uniq}, tmo)
							var pw sync.WaitGroup
							pw.Add(2)
							spinP, spinC := (y>>52)%300, (y>>56)%200
							go func() {
								defer pw.Done()
								for k := uint64(0); k < spinP; k++ {
									_ = k
								}
								pipeCalls[ci].Add(1)
								if err := f.PipeTo(colRefs[ci].ToActorRefs()); err != nil {
									fail("C10/api-error", "Future.PipeTo: %v", err)
								}
							}()
							closeIt := (y>>47)%3 == 0
							go func() {
								defer pw.Done()
								if closeIt {
									for k := uint64(0); k < spinC; k++ {
										_ = k
									}
									f.Close(errClosedByTest)
								}
							}()
							_ = f.Wait()
							pw.Wait()
							pipes.Add(1)
						}
					case 16:
						// look up what the receiver of a pending Ask sees as its sender (a requester that is a future, not
						// an actor): any answer, never a crash
						if ref := pick(y >> 20); ref != nil {
							f := sys.Ask(ref, &hold{}, 20*time.Millisecond)
							for k := 0; k < 20; k++ {
								if s, ok := lastHeld.Load().(string); ok && s != "" {
									_, _ = sys.FindActor(s)
									lookups.Add(1)
								}
								if k%5 == 4 {
									time.Sleep(time.Millisecond)
								}
							}
							if _, err := f.Result(); err == nil {
								fail("C10/foreign-reply", "an Ask that nobody answers completed without an error")
							}
						}
					}
				}
			}(g)
		}
		wg.Wait()
		// quiescence: the registry stops changing (poll; time is patience, not an oracle: the
		// consistency conditions below are stable properties of a quiescent system)
		var states []actor.VerifActorState
		stable := 0
		last := ""
		deadline := time.Now().Add(30 * time.Second)
		for stable < 5 && time.Now().Before(deadline) {
			time.Sleep(30 * time.Millisecond)
			states = sys.VerifActors()
			cur := fmt.Sprintf("%+v|%d|%d,%d,%d", states, st.handled.Load(), cols[0].got.Load(), cols[1].got.Load(), cols[2].got.Load())
			if cur == last {
				stable++
			} else {
				stable, last = 0, cur
			}
		}
		if stable < 5 {
			vstat.Note("a round did not become quiescent within 30 s: tree consistency not judged for it")
		} else {
			reg := map[string]actor.VerifActorState{}
			for _, s := range states {
				reg[s.Path] = s
			}
			// reachable from the root through child tables
			reach := map[string]bool{}
			var walk func(kids []string)
			walk = func(kids []string) {
				for _, k := range kids {
					if reach[k] {
						continue
					}
					reach[k] = true
					if ch, ok := sys.VerifChildrenOf(k); ok {
						walk(ch)
					}
				}
			}
			walk(sys.VerifRootChildren())
			var problems []string
			for p, s := range reg {
				if !reach[p] {
					problems = append(problems, fmt.Sprintf("%s is registered but not reachable from the root through child tables", p))
				}
				if s.State == 2 {
					problems = append(problems, fmt.Sprintf("%s is registered although terminated", p))
				}
				if s.State == 1 {
					problems = append(problems, fmt.Sprintf("%s is still terminating at quiescence (state killing, %d children)", p, s.Children))
				}
				if s.Paused && !s.Zombie {
					problems = append(problems, fmt.Sprintf("%s is left paused", p))
				}
				if i := strings.LastIndex(p, "/"); i > 0 {
					if _, ok := reg[p[:i]]; !ok {
						problems = append(problems, fmt.Sprintf("%s is registered but its parent %s is not", p, p[:i]))
					}
				}
			}
			for p := range reach {
				if _, ok := reg[p]; !ok {
					problems = append(problems, fmt.Sprintf("%s is in a child table but not registered", p))
				}
			}
			sort.Strings(problems)
			if len(problems) > 0 {
				if len(problems) > 6 {
					problems = problems[:6]
				}
				fail("C10/tree-consistency", "%d goroutines x %d ops, decision %s (%s): %s", nGo, opsPer, dec, kind, strings.Join(problems, "; "))
			}
		}
		if stable >= 5 {
			for i, c := range cols {
				if got, want := c.got.Load(), pipeCalls[i].Load(); got != want {
					fail("C10/pipe-exactly-once", "forwarder %s of %d Future.PipeTo calls (one per future) received %d results", colRefs[i], want, got)
				}
				if e := c.empty.Load(); e > 0 {
					fail("C10/pipe-exactly-once|empty-result", "forwarder %s received %d results that carry neither the reply nor an error (every piped Ask ends with its reply, a timeout or Close(err))", colRefs[i], e)
				}
				if d := c.dup.Load(); d > 0 {
					fail("C10/pipe-exactly-once|duplicate", "forwarder %s received %d successful results twice", colRefs[i], d)
				}
			}
		}
		if n := st.badSpawn.Load(); n > 0 {
			fail("C10/api-error", "%d named ActorOf calls inside actors failed with something else than ActorAlreadyExists", n)
		}
		if err := sys.Stop(20 * time.Second); err != nil {
			fail("C10/stop-after-stress", "Stop after the stress: %v", err)
		} else if left := sys.VerifActors(); len(left) > 0 {
			var ps []string
			for _, a := range left {
				ps = append(ps, a.Path)
			}
			if len(ps) > 6 {
				ps = ps[:6]
			}
			fail("C10/stop-after-stress|actors-left", "Stop returned nil but %d actors are still registered: %v", len(left), ps)
		}
		vstat.Case(vstat.Hash("c10", seed, r), overlap.Load() > 0 && nGo >= 2, []string{"decision:" + dec.String(), "strategy:" + kind}, func() any {
			return map[string]any{"goroutines": nGo, "ops_per_goroutine": opsPer, "decision": dec.String(), "strategy": kind, "kills": overlap.Load(), "handled": st.handled.Load(), "children_spawned": st.spawned.Load(), "failures": st.failed.Load(), "named_spawns": named.Load(), "name_collisions": collisions.Load()}
		})
		vstat.Add("api_calls", int64(nGo*opsPer))
		vstat.Add("name_collisions", collisions.Load())
		vstat.Add("lookups_of_pending_ask_senders", lookups.Load())
		vstat.Add("futures_piped_from_a_second_goroutine", pipes.Load())
		if b := bad.Load(); b != nil {
			sv := b.([2]string)
			if !vstat.Fail(sv[0], sv[1], nil) {
				t.Fatalf("VERIF-FAIL sig=%s :: %s", sv[0], sv[1])
			}
		}
	}
}
