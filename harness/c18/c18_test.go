// C18 — gossip converges: once faults stop, all running nodes reach the same
// membership view and the same leader, exactly one considers itself leader,
// membership is exactly the running nodes, a crashed / departed node disappears
// and stays away, a restarted node replaces its previous incarnation.
//
// Real cluster.NodeActor values in the deterministic simulation of package
// csim (virtual time, real wire codec). Two regimes, see DESIGN.md:
//
//	S ("settle")  the failure-detection timeout is longer than the scenario: no
//	              timeout-based removal can happen; every clause that does not
//	              need removal is checked strictly at the end of the quiet phase.
//	L ("long")    failure detection is active (library default 40 s, or 10 s / 5 s);
//	              the quiet phase lasts 8 x (timeout + detection period) and the
//	              clauses are judged over its second half.
//
//go:debug randseednop=0
package c18

import (
	"encoding/json"
	"fmt"
	"os"
	"sort"
	"strings"
	"testing"

	"github.com/kercylan98/vivid/verif/internal/csim"
	"github.com/kercylan98/vivid/verif/internal/vstat"
	"github.com/kercylan98/vivid/verif/internal/vt"
	"pgregory.net/rapid"
)

func TestMain(m *testing.M) { vstat.Main(m.Run) }

type Case struct {
	Regime string      `json:"regime"` // S | L
	FDMs   int         `json:"fdMs"`   // the failure detection timeout of every node
	Cfg    csim.Config `json:"cfg"`
}

func (c Case) JSON() string { b, _ := json.Marshal(c); return string(b) }

func addrOf(i int) string { return fmt.Sprintf("127.0.0.1:%d", 7001+i) }

var latencies = []int{0, 1, 1, 2, 5, 20, 100, 400}

func genCase(t *rapid.T, regime string) Case {
	c := Case{Regime: regime}
	if regime == "" {
		c.Regime = rapid.SampledFrom([]string{"S", "S", "L", "L", "L"}).Draw(t, "regime")
	}
	n := rapid.IntRange(2, 7).Draw(t, "nodes")
	layout := rapid.SampledFrom([]string{"single", "single", "dual", "mixed"}).Draw(t, "seedLayout")
	if n < 3 && layout != "single" {
		layout = "single"
	}
	switch c.Regime {
	case "S":
		c.FDMs = 3600_000
	default:
		c.FDMs = rapid.SampledFrom([]int{0, 0, 10_000, 5_000}).Draw(t, "fd")
	}
	fd := c.FDMs
	if fd == 0 {
		fd = 40_000
	}
	// a gossip rate limit (rarely configured): regime S only, where nothing else competes for the horizon
	rate, burst := 0, 0
	if c.Regime == "S" && rapid.IntRange(0, 4).Draw(t, "rateLimited") == 0 {
		rate = rapid.SampledFrom([]int{1, 2, 3}).Draw(t, "rate")
		burst = rapid.SampledFrom([]int{1, 2}).Draw(t, "burst")
	}
	seedSet := map[int]bool{0: true}
	if layout != "single" {
		seedSet[1] = true
	}
	maxStart := 0
	for i := 0; i < n; i++ {
		nc := csim.NodeCfg{Addr: addrOf(i), ID: fmt.Sprintf("n%d", i), FDMs: c.FDMs, RateLimit: rate, RateBurst: burst}
		switch {
		case layout == "single":
			nc.Seeds = []string{addrOf(0)}
		case layout == "dual":
			nc.Seeds = []string{addrOf(0), addrOf(1)}
		default: // mixed: the seeds know each other, every other node lists a drawn non-empty subset
			if seedSet[i] {
				nc.Seeds = []string{addrOf(0), addrOf(1)}
			} else {
				switch rapid.IntRange(0, 2).Draw(t, "seedsOf") {
				case 0:
					nc.Seeds = []string{addrOf(0)}
				case 1:
					nc.Seeds = []string{addrOf(1)}
				default:
					nc.Seeds = []string{addrOf(1), addrOf(0)}
				}
			}
		}
		// timer phases and join order: most nodes start within a few seconds, in any order (a node may
		// start before its seed: its first join attempt fails)
		nc.StartMs = rapid.SampledFrom([]int{0, 0, 300, 500, 1000, 1500, 2500, 4000, 7000}).Draw(t, "start") + rapid.IntRange(0, 999).Draw(t, "phase")
		if nc.StartMs > maxStart {
			maxStart = nc.StartMs
		}
		c.Cfg.Nodes = append(c.Cfg.Nodes, nc)
	}
	for i := 0; i < 16; i++ {
		c.Cfg.LatMs = append(c.Cfg.LatMs, rapid.SampledFrom(latencies).Draw(t, "lat"))
		l := 0
		if rapid.IntRange(0, 9).Draw(t, "lose") < 3 {
			l = 1
		}
		c.Cfg.Loss = append(c.Cfg.Loss, l)
	}
	// ---- fault phase
	faultLen := rapid.SampledFrom([]int{0, 3000, 10_000, 30_000}).Draw(t, "faultPhase")
	if c.Regime == "L" && faultLen > 0 {
		faultLen += rapid.SampledFrom([]int{0, fd, 2 * fd}).Draw(t, "faultPhaseExtra")
	}
	c.Cfg.FaultEndMs = maxStart + 1000 + faultLen
	var nonSeeds []int
	for i := 0; i < n; i++ {
		if !seedSet[i] {
			nonSeeds = append(nonSeeds, i)
		}
	}
	if faultLen > 0 {
		k := rapid.IntRange(1, 6).Draw(t, "faults")
		down := map[int]bool{}
		var fs []csim.Fault
		for j := 0; j < k; j++ {
			at := rapid.IntRange(0, c.Cfg.FaultEndMs-1).Draw(t, "at")
			kinds := []string{"partition", "heal", "reset", "loss-on", "loss-off"}
			if len(nonSeeds) > 0 {
				kinds = append(kinds, "restart", "restart")
				if c.Regime == "L" {
					kinds = append(kinds, "crash", "crash", "leave")
				}
			}
			f := csim.Fault{AtMs: at, Kind: rapid.SampledFrom(kinds).Draw(t, "kind")}
			switch f.Kind {
			case "crash", "restart", "leave":
				f.Node = rapid.SampledFrom(nonSeeds).Draw(t, "victim")
				if f.Kind == "restart" {
					f.NewAddr = rapid.IntRange(0, 3).Draw(t, "newAddr") == 0
				}
			case "partition":
				for i := 0; i < n; i++ {
					if rapid.Bool().Draw(t, "side") {
						f.Side = append(f.Side, i)
					}
				}
			}
			fs = append(fs, f)
		}
		sort.SliceStable(fs, func(a, b int) bool { return fs[a].AtMs < fs[b].AtMs })
		// a node that has crashed or left stays down unless a later restart brings it back; a crash of a
		// node that is down is dropped (nothing to crash)
		var kept []csim.Fault
		for _, f := range fs {
			switch f.Kind {
			case "crash", "leave":
				if down[f.Node] || f.AtMs < c.Cfg.Nodes[f.Node].StartMs {
					continue
				}
				down[f.Node] = true
			case "restart":
				if f.AtMs < c.Cfg.Nodes[f.Node].StartMs {
					continue
				}
				down[f.Node] = false
			}
			kept = append(kept, f)
		}
		c.Cfg.Faults = kept
	}
	period := fd + fd/2
	if c.Regime == "S" {
		c.Cfg.QuietMs = 180_000
		c.Cfg.SampleMs = 5000
	} else {
		// at least 180 s: a node whose joins failed during the fault phase retries with a back-off of up to 30 s (plus
		// jitter), so it may join tens of seconds after the faults stopped; the judged window is the second half
		c.Cfg.QuietMs = max(8*period, 180_000)
		c.Cfg.SampleMs = max(fd/8, c.Cfg.QuietMs/150)
	}
	c.Cfg.RandSeed = rapid.Int64Range(1, 1<<40).Draw(t, "randSeed")
	return c
}

type verdict struct{ sig, detail string }

func stateOf(v []csim.MemberRec, id string) *csim.MemberRec {
	for i := range v {
		if v[i].ID == id {
			return &v[i]
		}
	}
	return nil
}

func fmtView(v []csim.MemberRec) string {
	var p []string
	for _, m := range v {
		p = append(p, fmt.Sprintf("%s@%s/g%d/t%d/s%d", m.ID, m.Addr[len(m.Addr)-4:], m.Gen, m.Stamp%1_000_000_000_000/1_000_000, m.Status))
	}
	return "[" + strings.Join(p, " ") + "]"
}

func fmtSample(s csim.Sample) string {
	var idx []int
	for i := range s.Views {
		idx = append(idx, i)
	}
	sort.Ints(idx)
	var p []string
	for _, i := range idx {
		p = append(p, fmt.Sprintf("n%d sees %s leader %s", i, fmtView(s.Views[i]), s.Leaders[i]))
	}
	return fmt.Sprintf("+%dms: %s", s.AtMs, strings.Join(p, "; "))
}

// judge returns every clause that does not hold (several may fail in one case).
func judge(c Case, r *csim.Result) (vs []verdict, nontrivial bool, labels []string) {
	if r.Panic != "" {
		return []verdict{{"C18/panic", r.Panic}}, true, nil
	}
	if len(r.Samples) == 0 {
		return nil, false, nil
	}
	cfg := c.Cfg
	running := map[int]bool{}
	for _, i := range r.Running {
		running[i] = true
	}
	restarted := map[int]bool{}
	died := map[int]int{} // node -> time of its final death
	for _, l := range r.Lives {
		if l.Inc > 0 {
			restarted[l.Node] = true
		}
		if l.EndMs >= 0 && !running[l.Node] {
			died[l.Node] = l.EndMs
		}
	}
	final := r.Samples[len(r.Samples)-1]
	quietStart := cfg.FaultEndMs
	quietEnd := cfg.FaultEndMs + cfg.QuietMs
	windowStart := quietStart + cfg.QuietMs/2
	var window []csim.Sample
	for _, s := range r.Samples {
		if s.AtMs >= windowStart {
			window = append(window, s)
		}
	}
	add := func(sig, format string, a ...any) {
		for _, v := range vs {
			if v.sig == sig {
				return
			}
		}
		vs = append(vs, verdict{sig, fmt.Sprintf(format, a...) + " | faults: " + strings.Join(r.FaultLog, ", ")})
	}
	var runIdx []int
	for i := range cfg.Nodes {
		if running[i] {
			runIdx = append(runIdx, i)
		}
	}
	// what every running node says about itself in a sample
	self := func(s csim.Sample, x int) *csim.MemberRec { return stateOf(s.Views[x], cfg.Nodes[x].ID) }

	// ---------- clauses that hold in both regimes
	// f) a restarted node replaces its previous incarnation everywhere: wherever it is listed in the window,
	//    the entry is the running incarnation's (same incarnation stamp and address as the node's own entry)
	for _, s := range window {
		for _, x := range runIdx {
			if !restarted[x] {
				continue
			}
			own := self(s, x)
			if own == nil {
				continue
			}
			for _, y := range runIdx {
				if e := stateOf(s.Views[y], cfg.Nodes[x].ID); e != nil && y != x && (e.Stamp != own.Stamp || e.Addr != own.Addr || e.Gen != own.Gen) {
					add("C18/restart|shadowed-by-previous-incarnation", "node %d restarted and runs as %s, but %d s after the faults stopped node %d still lists %s; %s", x, fmtView([]csim.MemberRec{*own}), (s.AtMs-quietStart)/1000, y, fmtView([]csim.MemberRec{*e}), fmtSample(s))
				}
			}
		}
	}
	// every running node lists itself
	for _, x := range runIdx {
		if self(final, x) == nil {
			add("C18/membership|node-does-not-list-itself", "running node %d is not in its own view at the end; %s", x, fmtSample(final))
		}
	}

	if c.Regime == "S" {
		// ---------- strict clauses at the end of a quiet phase in which no timeout can fire
		ref := final.Views[runIdx[0]]
		for _, y := range runIdx[1:] {
			if a, b := fmtView(ref), fmtView(final.Views[y]); a != b {
				add("C18/S|views-differ", "%d s after the faults stopped node %d and node %d hold different views; %s", cfg.QuietMs/1000, runIdx[0], y, fmtSample(final))
			}
		}
		for _, y := range runIdx {
			for _, x := range runIdx {
				if stateOf(final.Views[y], cfg.Nodes[x].ID) == nil {
					add("C18/S|running-node-unknown", "running node %d is not in node %d's view %d s after the faults stopped; %s", x, y, cfg.QuietMs/1000, fmtSample(final))
				}
			}
			for _, m := range final.Views[y] {
				known := false
				for _, x := range runIdx {
					known = known || cfg.Nodes[x].ID == m.ID
				}
				if !known {
					add("C18/S|unknown-member", "node %d lists %s, which is not a running node; %s", y, m.ID, fmtSample(final))
				}
			}
		}
		wantLeader := ""
		for _, x := range runIdx {
			cur := r.Addrs[x][len(r.Addrs[x])-1]
			if wantLeader == "" || cur < wantLeader {
				wantLeader = cur
			}
		}
		for _, y := range runIdx {
			if final.Leaders[y] != wantLeader {
				add("C18/S|leader-differs", "node %d computes leader %q, the smallest address among the running nodes is %q; %s", y, final.Leaders[y], wantLeader, fmtSample(final))
			}
		}
		// exactly one node considers itself leader: the last ClusterLeaderChangedEvent of each running incarnation
		var believers []int
		for _, y := range runIdx {
			last := -1
			for i, e := range r.Events {
				if e.Node == y && e.Kind == "leader" && e.Inc == incOf(r, y) {
					last = i
				}
			}
			if last >= 0 && r.Events[last].IAmLeader {
				believers = append(believers, y)
			}
		}
		if len(believers) != 1 || r.Addrs[believers[0]][len(r.Addrs[believers[0]])-1] != wantLeader {
			add("C18/S|not-exactly-one-leader", "the nodes whose last ClusterLeaderChangedEvent says IAmLeader are %v; expected exactly the node at %s; %s", believers, wantLeader, fmtSample(final))
		}
		lateFrom := quietStart + cfg.QuietMs*2/3
		for _, e := range r.Events {
			if e.AtMs >= lateFrom && (e.Kind == "members" || e.Kind == "leader") && running[e.Node] {
				add("C18/S|late-change", "node %d announced a %s change %d s after the faults stopped (no timeout can fire in this configuration): %+v", e.Node, e.Kind, (e.AtMs-quietStart)/1000, e)
			}
		}
	} else {
		// ---------- failure detection active: judged over the second half of the quiet phase
		// a node that crashed or left comes back into the views again and again (KF-C18-7: merges never remove); the
		// never-ending announcements and leader changes that follow from that are told apart from those of a cluster in
		// which every node that ever ran is still running
		afterDeath := ""
		if len(died) > 0 {
			afterDeath = "|after-a-node-died"
		}
		for _, y := range runIdx {
			for _, x := range runIdx {
				if x == y {
					continue
				}
				missing := 0
				for _, s := range window {
					if stateOf(s.Views[y], cfg.Nodes[x].ID) == nil {
						missing++
					}
				}
				switch {
				case missing == len(window):
					add("C18/L|running-node-missing-permanently", "running node %d is absent from node %d's view in every one of the %d samples of the last %d s (quiet phase %d s, failure detection timeout %d ms); %s", x, y, len(window), (quietEnd-windowStart)/1000, cfg.QuietMs/1000, c.FDMs, fmtSample(final))
				case missing > 0:
					add("C18/L|running-node-missing-transiently", "running node %d is absent from node %d's view in %d of the %d samples of the last %d s of a fault-free phase (it is removed by the failure detector and comes back); e.g. %s", x, y, missing, len(window), (quietEnd-windowStart)/1000, firstMissing(window, y, cfg.Nodes[x].ID))
				}
			}
			for d, at := range died {
				listed := 0
				for _, s := range window {
					if stateOf(s.Views[y], cfg.Nodes[d].ID) != nil {
						listed++
					}
				}
				if listed == 0 {
					continue
				}
				removedEver := false
				for _, e := range r.Events {
					if e.Node == y && e.Inc == incOf(r, y) && e.Kind == "members" && e.AtMs >= at {
						for _, a := range e.Removed {
							for _, used := range r.Addrs[d] {
								removedEver = removedEver || a == used
							}
						}
					}
				}
				if !removedEver && listed == len(window) {
					add("C18/L|dead-node-never-removed", "node %d died at +%d ms; running node %d lists it in every sample of the last %d s and never announced its removal (failure detection timeout %d ms); %s", d, at, y, (quietEnd-windowStart)/1000, c.FDMs, fmtSample(final))
				} else {
					add("C18/L|dead-node-listed-again", "node %d died at +%d ms; running node %d lists it in %d of the %d samples of the last %d s although it (or a peer) had removed it: removed members come back with any peer's gossip; %s", d, at, y, listed, len(window), (quietEnd-windowStart)/1000, fmtSample(final))
				}
			}
		}
		// leader agreement over the window
		for i, y := range runIdx {
			for _, z := range runIdx[i+1:] {
				differ := 0
				for _, s := range window {
					if s.Leaders[y] != s.Leaders[z] {
						differ++
					}
				}
				switch {
				case differ == len(window):
					add("C18/L|leader-disagreement-permanent", "nodes %d and %d compute different leaders in every sample of the last %d s; %s", y, z, (quietEnd-windowStart)/1000, fmtSample(final))
				case differ > 0:
					add("C18/L|leader-disagreement-transient"+afterDeath, "nodes %d and %d compute different leaders in %d of the %d samples of the last %d s", y, z, differ, len(window), (quietEnd-windowStart)/1000)
				}
			}
		}
		for _, e := range r.Events {
			if e.AtMs < windowStart || !running[e.Node] {
				continue
			}
			if e.Kind == "members" {
				add("C18/L|membership-changes-never-stop"+afterDeath, "node %d still announces membership changes %d s after the faults stopped: %+v", e.Node, (e.AtMs-quietStart)/1000, e)
			}
			if e.Kind == "leader" && e.IAmLeader {
				add("C18/L|leader-announcements-never-stop"+afterDeath, "node %d announced itself leader %d s after the faults stopped: %+v", e.Node, (e.AtMs-quietStart)/1000, e)
			}
		}
	}

	// ---------- coverage
	labels = []string{"regime:" + c.Regime, fmt.Sprintf("nodes:%d", len(cfg.Nodes))}
	kinds := map[string]bool{}
	for _, f := range r.FaultLog {
		w := strings.Fields(f)
		if len(w) > 1 {
			kinds[w[1]] = true
		}
	}
	for k := range kinds {
		if k != "faults" {
			labels = append(labels, "fault:"+k)
		}
	}
	if r.AskFail > 0 {
		labels = append(labels, "join-attempt-failed")
	}
	if len(restarted) > 0 {
		labels = append(labels, "restarted-node-running")
	}
	for _, a := range r.Addrs {
		if len(a) > 1 {
			labels = append(labels, "restarted-on-a-new-address")
			break
		}
	}
	if len(died) > 0 {
		labels = append(labels, "node-stays-down")
	}
	if len(cfg.Nodes) > 0 && cfg.Nodes[0].RateLimit > 0 {
		labels = append(labels, "gossip-rate-limited")
	}
	sort.Strings(labels)
	nontrivial = len(kinds) > 1 || r.AskFail > 0 || len(cfg.Nodes) >= 3
	return
}

func incOf(r *csim.Result, node int) int {
	inc := 0
	for _, l := range r.Lives {
		if l.Node == node && l.Inc > inc {
			inc = l.Inc
		}
	}
	return inc
}

func firstMissing(window []csim.Sample, y int, id string) string {
	for _, s := range window {
		if stateOf(s.Views[y], id) == nil {
			return fmtSample(s)
		}
	}
	return ""
}

func check(t *testing.T, fatalf func(string, ...any), c Case) {
	vt.SetCase(c)
	var r *csim.Result
	res := vt.Run(t, func() { r = csim.Run(c.Cfg) })
	if res.Panic != nil || res.Deadlock || r == nil {
		fatalf("VERIF-FAIL sig=C18/simulation-error :: the simulation itself failed (%v)\n%s\ncase %s", res.Panic, res.Stack, c.JSON())
		return
	}
	if r.Gap != "" {
		vstat.Note("inconclusive case (not counted): simulation gap: " + r.Gap)
		vstat.Add("inconclusive_cases", 1)
		return
	}
	vs, nt, labels := judge(c, r)
	vstat.Case(vstat.Hash(c.JSON()), nt, labels, func() any { return c })
	vstat.Add("virtual_seconds", int64((c.Cfg.FaultEndMs+c.Cfg.QuietMs)/1000))
	vstat.Add("messages_on_the_simulated_wire", int64(r.Encoded))
	vstat.Add("handler_invocations", int64(r.Handled))
	vstat.Add("failed_asks", int64(r.AskFail))
	for _, v := range vs {
		if vstat.Fail(v.sig, v.detail, c) {
			continue
		}
		fatalf("VERIF-FAIL sig=%s :: %s :: case %s", v.sig, v.detail, c.JSON())
	}
}

func TestC18Converges(t *testing.T) {
	rapid.Check(t, func(rt *rapid.T) { check(t, rt.Fatalf, genCase(rt, "")) })
}

func TestReplay(t *testing.T) {
	if os.Getenv("C18_TRACE") != "" {
		csim.TraceFn = func(l string) { fmt.Println("TRACE", l) }
	}
	p := os.Getenv("VERIF_REPLAY_CASE")
	if p == "" {
		t.Skip("no VERIF_REPLAY_CASE")
	}
	b, err := os.ReadFile(p)
	if err != nil {
		t.Fatal(err)
	}
	var c Case
	var hr struct {
		Case *Case `json:"case"`
	}
	if json.Unmarshal(b, &hr) == nil && hr.Case != nil && len(hr.Case.Cfg.Nodes) > 0 {
		c = *hr.Case
	} else if err := json.Unmarshal(b, &c); err != nil {
		t.Fatal(err)
	}
	check(t, t.Fatalf, c)
}
