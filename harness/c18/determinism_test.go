package c18

import (
	"crypto/sha256"
	"encoding/json"
	"fmt"
	"os"
	"testing"

	"github.com/kercylan98/vivid/verif/internal/csim"
	"github.com/kercylan98/vivid/verif/internal/vt"
	"pgregory.net/rapid"
)

// The same case twice must give the same run (the simulation is a pure function of the case).
func TestDeterminism(t *testing.T) {
	p := os.Getenv("C18_CASE")
	if p == "" {
		t.Skip()
	}
	var c Case
	if err := json.Unmarshal([]byte(p), &c); err != nil {
		t.Fatal(err)
	}
	seen := map[string]int{}
	var first *csim.Result
	for i := 0; i < 20; i++ {
		var r *csim.Result
		vt.Run(t, func() { r = csim.Run(c.Cfg) })
		b, _ := json.Marshal(struct {
			S []csim.Sample
			E []csim.EventRec
		}{r.Samples, r.Events})
		seen[fmt.Sprintf("%x", sha256.Sum256(b))[:12]]++
		if first == nil {
			first = r
		} else if len(seen) == 2 && os.Getenv("C18_DIFF") != "" {
			for k := range r.Events {
				if k >= len(first.Events) || fmt.Sprint(r.Events[k]) != fmt.Sprint(first.Events[k]) {
					fmt.Printf("first differing event #%d:\n  %+v\n  %+v\n", k, first.Events[k], r.Events[k])
					break
				}
			}
			for k := range r.Samples {
				if fmtSample(r.Samples[k]) != fmtSample(first.Samples[k]) {
					fmt.Printf("first differing sample:\n  %s\n  %s\n", fmtSample(first.Samples[k]), fmtSample(r.Samples[k]))
					break
				}
			}
			os.Setenv("C18_DIFF", "")
		}
	}
	fmt.Println("distinct runs:", len(seen), seen)
}

// TestC18Deterministic: generated cases, each run three times; differences are counted (harness self-check).
func TestC18Deterministic(t *testing.T) {
	if os.Getenv("C18_DET") == "" {
		t.Skip()
	}
	bad := 0
	rapid.Check(t, func(rt *rapid.T) {
		c := genCase(rt, "")
		seen := map[string]bool{}
		for i := 0; i < 3; i++ {
			var r *csim.Result
			vt.Run(t, func() { r = csim.Run(c.Cfg) })
			b, _ := json.Marshal(struct {
				S []csim.Sample
				E []csim.EventRec
			}{r.Samples, r.Events})
			seen[fmt.Sprintf("%x", sha256.Sum256(b))[:12]] = true
		}
		if len(seen) > 1 {
			bad++
			if bad < 3 {
				fmt.Println("nondeterministic:", c.JSON())
			}
		}
	})
	fmt.Println("nondeterministic cases:", bad)
}
