package c18

import (
	"fmt"
	"os"
	"testing"
	"testing/synctest"

	"github.com/kercylan98/vivid/verif/internal/csim"
)

func addr(i int) string { return fmt.Sprintf("127.0.0.1:%d", 7001+i) }

func TestExplore(t *testing.T) {
	if os.Getenv("C18_EXPLORE") == "" {
		t.Skip()
	}
	synctest.Test(t, func(t *testing.T) {
		cfg := csim.Config{LatMs: []int{1, 3, 2, 7}, FaultEndMs: 10000, QuietMs: 400000, SampleMs: 5000, RandSeed: 1}
		for i := 0; i < 3; i++ {
			cfg.Nodes = append(cfg.Nodes, csim.NodeCfg{Addr: addr(i), ID: fmt.Sprintf("n%d", i), Seeds: []string{addr(0)}, StartMs: i * 500})
		}
		if os.Getenv("C18_EXPLORE") == "crash" {
			cfg.Faults = []csim.Fault{{AtMs: 8000, Kind: "crash", Node: 2}}
		}
		r := csim.Run(cfg)
		fmt.Printf("gap=%q panic=%q sent=%d dropped=%d encoded=%d asks=%d askfail=%d handled=%d enc=%v\n", r.Gap, r.Panic, r.Sent, r.Dropped, r.Encoded, r.Asks, r.AskFail, r.Handled, r.EncodeEr)
		for _, s := range r.Samples {
			fmt.Printf("+%ds ", s.AtMs/1000)
			for i := 0; i < len(cfg.Nodes); i++ {
				v, ok := s.Views[i]
				if !ok {
					fmt.Printf(" n%d:-", i)
					continue
				}
				fmt.Printf(" n%d:[", i)
				for _, m := range v {
					fmt.Printf("%s/g%d/s%d ", m.ID, m.Gen, m.Status)
				}
				fmt.Printf("] L=%s", s.Leaders[i][len(s.Leaders[i])-4:])
			}
			fmt.Println()
		}
		for _, e := range r.Events {
			if e.Kind == "members" || e.Kind == "leader" {
				fmt.Printf("ev +%dms n%d %s leader=%s me=%v added=%d removed=%v members=%v\n", e.AtMs, e.Node, e.Kind, e.Leader, e.IAmLeader, e.Added, e.Removed, e.Members)
			}
		}
	})
}
