// C12 — the wire codec round-trips every value of every registered message
// type; the primitive writer and reader agree on every supported Go type; the
// reader consumes exactly the bytes the writer produced.
package c12

import (
	"bytes"
	"encoding/binary"
	"encoding/json"
	"fmt"
	"reflect"
	"sort"
	"strings"
	"testing"

	"github.com/kercylan98/vivid"
	"github.com/kercylan98/vivid/internal/actor"
	_ "github.com/kercylan98/vivid/internal/cluster"
	"github.com/kercylan98/vivid/internal/mailbox"
	"github.com/kercylan98/vivid/internal/messages"
	"github.com/kercylan98/vivid/internal/remoting/serialize"
	"github.com/kercylan98/vivid/verif/internal/arb"
	"github.com/kercylan98/vivid/verif/internal/vstat"
	"pgregory.net/rapid"
)

func TestMain(m *testing.M) { vstat.Main(m.Run) }

// ---------------------------------------------------------------------------
// user-level messages: one registered with RegisterCustomMessage, one that
// only the user Codec knows.

type CustomMsg struct {
	Sender string
	Seq    int64
	Body   []byte
	Tags   []string
}

type OutsideMsg struct {
	A int64
	B string
}

// OptMsg has an optional field: without it the message is legitimately rejected by its writer.
type OptMsg struct {
	P *int32
	S string
}

// rejected encodes: shapes the codec must refuse with an error. They are interleaved with the
// round trips because every encode path shares pooled writers: a refusal must not leak into
// the next message.
func rejectedEncode(t *rapid.T) string {
	k := rapid.IntRange(0, 4).Draw(t, "rejectKind")
	var msg any
	switch k {
	case 0:
		msg = &OptMsg{S: "no P"}
	case 1:
		msg = &messages.PongMessage{}
	case 2:
		msg = &OptMsg{P: new(int32), S: string(make([]byte, 300))} // too long for the 1-byte length
	case 3:
		msg = &struct{ X int }{1} // unregistered, the codec refuses it
	default:
		msg = (*OptMsg)(nil)
	}
	w := messages.NewWriterFromPool()
	_, _ = safe(func() error { return w.WriteMessage(msg, failingCodec{}) })
	messages.ReleaseWriterToPool(w)
	_, _ = safe(func() error {
		_, err := serialize.EncodeEnvelopWithRemoting(failingCodec{}, mailbox.NewEnvelop(false, nil, nil, msg))
		return err
	})
	return fmt.Sprintf("rejected#%d", k)
}

// rejected decodes: a damaged copy of the encoding (cut short at a drawn position) goes through the same decode entry
// points first. Decoders share pooled readers: whatever that decode reports, it must not leak into the decode of the
// intact bytes that follows.
func rejectedDecode(t *rapid.T, data []byte, envelope bool) string {
	if len(data) == 0 {
		return ""
	}
	cut := rapid.IntRange(0, len(data)-1).Draw(t, "cutAt")
	damaged := append([]byte(nil), data[:cut]...)
	if envelope {
		_, _ = safe(func() error {
			_, _, _, _, _, _, err := serialize.DecodeEnvelopWithRemoting(codec, damaged)
			return err
		})
	}
	r := messages.NewReaderFromPool(damaged)
	_, _ = safe(func() error { _, err := r.ReadMessage(codec); return err })
	messages.ReleaseReaderToPool(r)
	return fmt.Sprintf("damaged-decode(cut at %d of %d) ", cut, len(data))
}

type failingCodec struct{}

func (failingCodec) Encode(m vivid.Message) ([]byte, error) { return nil, fmt.Errorf("refused") }
func (failingCodec) Decode(b []byte) (vivid.Message, error) { return nil, fmt.Errorf("refused") }

func init() {
	vivid.RegisterCustomMessage[*CustomMsg]("verif.CustomMsg",
		func(message any, r *messages.Reader, _ messages.Codec) error {
			m := message.(*CustomMsg)
			return r.ReadInto(&m.Sender, &m.Seq, &m.Body, &m.Tags)
		},
		func(message any, w *messages.Writer, _ messages.Codec) error {
			m := message.(*CustomMsg)
			return w.WriteFrom(m.Sender, m.Seq, m.Body, m.Tags)
		})
	vivid.RegisterCustomMessage[*OptMsg]("verif.OptMsg",
		func(message any, r *messages.Reader, _ messages.Codec) error {
			m := message.(*OptMsg)
			m.P = new(int32)
			if err := r.ReadInto(m.P); err != nil {
				return err
			}
			s, err := r.ReadShortString()
			m.S = s
			return err
		},
		func(message any, w *messages.Writer, _ messages.Codec) error {
			m := message.(*OptMsg)
			if err := w.WriteFrom(m.P); err != nil {
				return err
			}
			return w.WriteShortString(m.S).Err()
		})
}

// EmptyMsg is a field-less message only the Codec knows; its encoding is zero bytes long (what a proto-like codec
// produces for an empty message).
type EmptyMsg struct{}

type jsonCodec struct{}

func (jsonCodec) Encode(m vivid.Message) ([]byte, error) {
	if _, ok := m.(*EmptyMsg); ok {
		return []byte{}, nil
	}
	return json.Marshal(m)
}
func (jsonCodec) Decode(b []byte) (vivid.Message, error) {
	if len(b) == 0 {
		return &EmptyMsg{}, nil
	}
	var o OutsideMsg
	if err := json.Unmarshal(b, &o); err != nil {
		return nil, err
	}
	return &o, nil
}

var codec = jsonCodec{}

// the generated registry: everything registered except the harness's own partial type OptMsg
// (its writer rejects part of its value space on purpose)
func registry() map[string]reflect.Type {
	r := messages.VerifRegistry()
	delete(r, "verif.OptMsg")
	return r
}

func opt() arb.Opt {
	return arb.Opt{Registry: registry(), MaxDepth: 3, NilMessage: true, NilPointers: false, Outside: func(t *rapid.T) any {
		if rapid.Bool().Draw(t, "emptyOutside") {
			return &EmptyMsg{}
		}
		return &OutsideMsg{A: rapid.Int64().Draw(t, "oA"), B: rapid.String().Draw(t, "oB")}
	}}
}

type failer struct {
	t  *rapid.T
	cs func() string
}

func (f *failer) fail(clause, format string, a ...any) {
	sig := "C12/" + clause
	detail := fmt.Sprintf(format, a...) + " | case: " + f.cs()
	if vstat.Fail(sig, detail, f.cs()) {
		return
	}
	f.t.Fatalf("VERIF-FAIL sig=%s :: %s", sig, detail)
}

func describe(m any) string {
	s := fmt.Sprintf("%T%+v", m, reflect.ValueOf(m).Elem())
	if len(s) > 700 {
		s = s[:700] + "…"
	}
	return s
}

// safe calls f and turns a panic into an error string (a panic is C13's
// business, but it must not abort this process).
func safe(f func() error) (err error, panicked any) {
	defer func() {
		if r := recover(); r != nil {
			panicked = r
		}
	}()
	return f(), nil
}

func names() []string {
	var ns []string
	for n := range registry() {
		ns = append(ns, n)
	}
	sort.Strings(ns)
	return ns
}

// TestC12Messages: every registered type, generated values, message layer.
func TestC12Messages(t *testing.T) {
	ns := names()
	if len(ns) < 20 {
		t.Fatalf("harness: only %d registered wire types visible", len(ns))
	}
	vstat.Add("registered_types", int64(len(ns)))
	rapid.Check(t, func(rt *rapid.T) {
		name := rapid.SampledFrom(ns).Draw(rt, "type")
		msg := arb.Message(rt, registry()[name], opt(), 0)
		pre := ""
		if rapid.IntRange(0, 3).Draw(rt, "rejectFirst") == 0 {
			pre = rejectedEncode(rt)
		}
		f := &failer{rt, func() string { return pre + " " + describe(msg) }}
		w := messages.NewWriter()
		if rapid.Bool().Draw(rt, "pooled") {
			w = messages.NewWriterFromPool()
			defer messages.ReleaseWriterToPool(w)
		}
		err, pv := safe(func() error { return w.WriteMessage(msg, codec) })
		if pv != nil {
			f.fail("roundtrip|"+name+"|encode-panic", "encoding panicked: %v", pv)
			return
		}
		if err != nil {
			f.fail("roundtrip|"+name+"|encode-error", "encoding failed: %v", err)
			return
		}
		data := append([]byte(nil), w.Bytes()...)
		r := messages.NewReader(data)
		if rapid.IntRange(0, 3).Draw(rt, "damagedFirst") == 0 {
			pre += rejectedDecode(rt, data, false)
			r = messages.NewReaderFromPool(data)
			defer messages.ReleaseReaderToPool(r)
		}
		var got any
		err, pv = safe(func() (e error) { got, e = r.ReadMessage(codec); return })
		if pv != nil {
			f.fail("roundtrip|"+name+"|decode-panic", "decoding its own encoding panicked: %v", pv)
			return
		}
		if err != nil {
			f.fail("roundtrip|"+name+"|decode-error", "decoding its own encoding failed: %v", err)
			return
		}
		if r.Pos() != len(data) {
			f.fail("consumed|"+name, "reader consumed %d of %d bytes", r.Pos(), len(data))
		}
		if got == nil || reflect.TypeOf(got) != reflect.TypeOf(msg) {
			f.fail("roundtrip|"+name+"|type", "decoded %T", got)
			return
		}
		if e := arb.Equal(reflect.ValueOf(msg).Elem(), reflect.ValueOf(got).Elem(), name); e != nil {
			f.fail("roundtrip|"+name+"|value", "decode(encode(x)) != x: %v ; decoded %s", e, describe(got))
		}
		// metamorphic: two messages back to back decode like each alone
		msg2 := arb.Message(rt, registry()[rapid.SampledFrom(ns).Draw(rt, "type2")], opt(), 1)
		w2 := messages.NewWriter()
		e1, p1 := safe(func() error { return w2.WriteMessage(msg, codec) })
		e2, p2 := safe(func() error { return w2.WriteMessage(msg2, codec) })
		if e1 == nil && e2 == nil && p1 == nil && p2 == nil {
			r2 := messages.NewReader(append([]byte(nil), w2.Bytes()...))
			g1, er1 := r2.ReadMessage(codec)
			g2, er2 := r2.ReadMessage(codec)
			if er1 != nil || er2 != nil {
				f.fail("concat|decode-error", "two messages written back to back: %v / %v (second %s)", er1, er2, describe(msg2))
			} else {
				if e := arb.Equal(reflect.ValueOf(msg).Elem(), reflect.ValueOf(g1).Elem(), "first"); e != nil {
					f.fail("concat|value", "first of two: %v", e)
				}
				if e := arb.Equal(reflect.ValueOf(msg2).Elem(), reflect.ValueOf(g2).Elem(), "second"); e != nil {
					f.fail("concat|value", "second of two (%s): %v", describe(msg2), e)
				}
				if r2.Pos() != len(w2.Bytes()) {
					f.fail("concat|consumed", "consumed %d of %d", r2.Pos(), len(w2.Bytes()))
				}
			}
		}
		vstat.Case(vstat.HashBytes(data), !arb.IsZero(msg), []string{"type:" + name}, func() any { return map[string]any{"type": name, "value": describe(msg), "bytes": len(data)} })
	})
}

// envelope layer: system flag, sender, receiver, internal / custom / codec message.
type env struct {
	system           bool
	sender, receiver vivid.ActorRef
	msg              any
}

func TestC12Envelopes(t *testing.T) {
	ns := names()
	rapid.Check(t, func(rt *rapid.T) {
		var msg any
		kind := rapid.SampledFrom([]string{"internal", "internal", "custom", "outside"}).Draw(rt, "kind")
		switch kind {
		case "internal":
			msg = arb.Message(rt, registry()[rapid.SampledFrom(ns).Draw(rt, "type")], opt(), 1)
		case "custom":
			msg = arb.Message(rt, reflect.TypeOf(CustomMsg{}), opt(), 1)
		default:
			msg = &OutsideMsg{A: rapid.Int64().Draw(rt, "A"), B: rapid.String().Draw(rt, "B")}
		}
		var sender, receiver vivid.ActorRef
		if rapid.IntRange(0, 3).Draw(rt, "hasSender") > 0 {
			sender = arb.GenRef(rt)
		}
		if rapid.IntRange(0, 3).Draw(rt, "hasReceiver") > 0 {
			receiver = arb.GenRef(rt)
		}
		system := rapid.Bool().Draw(rt, "system")
		pre := ""
		if rapid.IntRange(0, 2).Draw(rt, "rejectFirst") == 0 {
			pre = rejectedEncode(rt)
		}
		f := &failer{rt, func() string {
			return pre + fmt.Sprintf(" system=%v sender=%v receiver=%v msg=%s", system, sender, receiver, describe(msg))
		}}
		e := mailbox.NewEnvelop(system, sender, receiver, msg)
		var data []byte
		err, pv := safe(func() (e2 error) { data, e2 = serialize.EncodeEnvelopWithRemoting(codec, e); return })
		if pv != nil || err != nil {
			f.fail("envelope|encode", "encode failed: err=%v panic=%v", err, pv)
			return
		}
		var gs bool
		var sa, sp, ra, rp string
		var got any
		if rapid.IntRange(0, 2).Draw(rt, "damagedFirst") == 0 {
			pre += rejectedDecode(rt, data, true)
		}
		err, pv = safe(func() (e2 error) {
			gs, sa, sp, ra, rp, got, e2 = serialize.DecodeEnvelopWithRemoting(codec, data)
			return
		})
		if pv != nil || err != nil {
			f.fail("envelope|decode", "decode of its own encoding failed: err=%v panic=%v", err, pv)
			return
		}
		wsa, wsp, wra, wrp := "", "", "", ""
		if sender != nil {
			wsa, wsp = sender.GetAddress(), sender.GetPath()
		}
		if receiver != nil {
			wra, wrp = receiver.GetAddress(), receiver.GetPath()
		}
		if gs != system || sa != wsa || sp != wsp || ra != wra || rp != wrp {
			f.fail("envelope|header", "system/sender/receiver changed: got (%v,%q,%q,%q,%q)", gs, sa, sp, ra, rp)
		}
		if got == nil || reflect.TypeOf(got) != reflect.TypeOf(msg) {
			f.fail("envelope|type", "decoded %T", got)
			return
		}
		if e := arb.Equal(reflect.ValueOf(msg).Elem(), reflect.ValueOf(got).Elem(), "msg"); e != nil {
			f.fail("envelope|value", "message changed: %v", e)
		}
		// the refs the receiver rebuilds from the strings designate the same actors
		if sender != nil {
			if r, err := actor.NewRef(sa, sp); err != nil || !r.Equals(sender) {
				f.fail("envelope|sender-ref", "sender cannot be rebuilt: %v %v", r, err)
			}
		}
		lab := []string{"env:" + kind}
		if sender == nil {
			lab = append(lab, "no-sender")
		}
		if receiver == nil {
			lab = append(lab, "no-receiver")
		}
		vstat.Case(vstat.HashBytes(data), true, lab, func() any {
			return map[string]any{"system": system, "sender": fmt.Sprint(sender), "receiver": fmt.Sprint(receiver), "message": describe(msg)}
		})
	})
}

// ---------------------------------------------------------------------------
// primitive layer: a type grammar over what the reader supports.

var prims = []reflect.Type{
	reflect.TypeOf(false), reflect.TypeOf(int8(0)), reflect.TypeOf(int16(0)), reflect.TypeOf(int32(0)), reflect.TypeOf(int64(0)),
	reflect.TypeOf(uint8(0)), reflect.TypeOf(uint16(0)), reflect.TypeOf(uint32(0)), reflect.TypeOf(uint64(0)),
	reflect.TypeOf(float32(0)), reflect.TypeOf(float64(0)), reflect.TypeOf(""), reflect.TypeOf([]byte(nil)),
}

func genType(t *rapid.T, depth int) reflect.Type {
	k := rapid.IntRange(0, 9).Draw(t, "tk")
	if depth >= 3 {
		k = 0
	}
	switch {
	case k <= 5:
		return rapid.SampledFrom(prims).Draw(t, "prim")
	case k == 6:
		return reflect.SliceOf(genType(t, depth+1))
	case k == 7:
		return reflect.ArrayOf(rapid.IntRange(0, 3).Draw(t, "alen"), genType(t, depth+1))
	default:
		n := rapid.IntRange(0, 4).Draw(t, "nf")
		var fs []reflect.StructField
		for i := 0; i < n; i++ {
			fs = append(fs, reflect.StructField{Name: fmt.Sprintf("F%d", i), Type: genType(t, depth+1)})
		}
		return reflect.StructOf(fs)
	}
}

func typeString(t reflect.Type) string {
	s := t.String()
	if len(s) > 300 {
		s = s[:300] + "…"
	}
	return s
}

func TestC12Primitives(t *testing.T) {
	rapid.Check(t, func(rt *rapid.T) {
		n := rapid.IntRange(1, 4).Draw(rt, "nvals")
		var order binary.ByteOrder = binary.BigEndian
		if rapid.Bool().Draw(rt, "little") {
			order = binary.LittleEndian
		}
		var typs []reflect.Type
		var vals []reflect.Value // addressable values
		for i := 0; i < n; i++ {
			ty := genType(rt, 0)
			v := reflect.New(ty).Elem()
			arb.FillValue(rt, v)
			typs = append(typs, ty)
			vals = append(vals, v)
		}
		var ds []string
		for i := range vals {
			ds = append(ds, typeString(typs[i]))
		}
		f := &failer{rt, func() string {
			var b strings.Builder
			for i := range vals {
				s := fmt.Sprintf("%s=%v; ", typeString(typs[i]), vals[i].Interface())
				if len(s) > 400 {
					s = s[:400] + "…; "
				}
				b.WriteString(s)
			}
			return fmt.Sprintf("order=%v %s", order, b.String())
		}}
		w := messages.NewWriter(messages.WriterOption{ByteOrder: order})
		byPtr := rapid.Bool().Draw(rt, "byPointer")
		for i, v := range vals {
			var arg any
			if byPtr {
				arg = v.Addr().Interface()
			} else {
				arg = v.Interface()
			}
			err, pv := safe(func() error { return w.WriteFrom(arg) })
			if pv != nil || err != nil {
				f.fail("primitive|write", "writing value %d (%s) failed: err=%v panic=%v", i, ds[i], err, pv)
				return
			}
		}
		data := append([]byte(nil), w.Bytes()...)
		r := messages.NewReader(data, messages.ReaderOption{ByteOrder: order})
		for i := range vals {
			dst := reflect.New(typs[i])
			err, pv := safe(func() error { return r.ReadInto(dst.Interface()) })
			if pv != nil || err != nil {
				f.fail("primitive|read", "reading value %d (%s) back failed: err=%v panic=%v", i, ds[i], err, pv)
				return
			}
			if e := arb.Equal(vals[i], dst.Elem(), fmt.Sprintf("v%d", i)); e != nil {
				f.fail("primitive|value", "value %d changed: %v", i, e)
			}
		}
		if r.Pos() != len(data) {
			f.fail("primitive|consumed", "reader consumed %d of %d bytes", r.Pos(), len(data))
		}
		nontrivial := false
		for _, ty := range typs {
			k := ty.Kind()
			if k == reflect.Struct || k == reflect.Array || (k == reflect.Slice && ty.Elem().Kind() != reflect.Uint8) {
				nontrivial = true
			}
		}
		vstat.Case(vstat.HashBytes(append(data, []byte(strings.Join(ds, "|"))...)), nontrivial, []string{"prim", fmt.Sprintf("order:%v", order)}, func() any {
			return map[string]any{"types": ds, "bytes": len(data), "byPointer": byPtr}
		})
	})
}

// TestC12LengthPrefixes: the length-prefixed primitives user-registered writers build on (1-, 2- and 4-byte prefixes,
// WriteShortString), at and around the largest length each prefix can carry. A value the writer accepts must come
// back unchanged and leave the following field where it is; the writer may refuse only what the prefix cannot carry.
func TestC12LengthPrefixes(t *testing.T) {
	limits := map[int]int{messages.LengthSize1: 255, messages.LengthSize2: 65535, messages.LengthSize4: 1 << 30}
	rapid.Check(t, func(rt *rapid.T) {
		size := rapid.SampledFrom([]int{messages.LengthSize1, messages.LengthSize2, messages.LengthSize1, messages.LengthSize2, messages.LengthSize4}).Draw(rt, "prefix")
		max := limits[size]
		n := rapid.OneOf(
			rapid.SampledFrom([]int{255, 256, 254, 257, 65535, 65536, 65534, 65537, 0, 1}),
			rapid.IntRange(0, 70000),
		).Draw(rt, "length")
		short := size == messages.LengthSize1 && rapid.Bool().Draw(rt, "viaShortString")
		salt := rapid.Byte().Draw(rt, "salt")
		val := make([]byte, n)
		for i := range val {
			val[i] = byte(i*31) ^ salt
		}
		trailer := rapid.Uint32().Draw(rt, "trailer")
		f := &failer{rt, func() string {
			return fmt.Sprintf("prefix of %d bytes (shortString=%v), value of %d bytes, then a uint32", size, short, n)
		}}
		w := messages.NewWriter()
		if short {
			w.WriteShortString(string(val))
		} else {
			w.WriteBytesWithLength(val, size)
		}
		w.WriteUint32(trailer)
		if err := w.Err(); err != nil {
			if n <= max {
				f.fail("length-prefix|write", "the writer refuses a value its prefix can carry: %v", err)
			}
			vstat.Case(vstat.Hash("lp-rejected", size, n), n == max+1, []string{"length-prefix:rejected"}, func() any { return map[string]any{"prefix": size, "length": n} })
			return
		}
		if n > max {
			f.fail("length-prefix|accepted-too-long", "a value of %d bytes was accepted although a %d-byte prefix carries at most %d: the length on the wire cannot be right", n, size, max)
			return
		}
		r := messages.NewReader(append([]byte(nil), w.Bytes()...))
		var got []byte
		var err error
		if short {
			var s string
			s, err = r.ReadShortString()
			got = []byte(s)
		} else {
			got, err = r.ReadBytesWithLength(size)
		}
		if err != nil {
			f.fail("length-prefix|read", "reading back its own encoding failed: %v", err)
			return
		}
		if !bytes.Equal(got, val) {
			f.fail("length-prefix|value", "read back %d bytes, wrote %d (or different content)", len(got), len(val))
		}
		if tr, err := r.ReadUint32(); err != nil || tr != trailer {
			f.fail("length-prefix|following-field", "the field behind the value came back as %d (err %v), written %d", tr, err, trailer)
		}
		vstat.Case(vstat.Hash("lp", size, n, salt), n >= max-1, []string{"length-prefix:roundtrip"}, func() any { return map[string]any{"prefix": size, "length": n} })
	})
}
