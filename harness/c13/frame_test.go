package c13

// Frame level: the byte stream a peer sends after the handshake is cut into frames by the connection
// actor's reader (4-byte length + envelope). The real reader (overlay accessor to onReadConn) is fed
// streams of 1-4 frames whose length fields are drawn from the hostile table, the exact length, off-by-
// one values and the limit's neighbourhood, and whose bodies are valid envelopes, their truncations or
// garbage. Oracle: every step returns (an error or nil), never panics; memory stays bounded by the frame
// limit; a valid frame in front of the hostile one is handed to the envelope handler intact.

import (
	"encoding/binary"
	"fmt"
	"net"
	"testing"
	"time"

	"github.com/kercylan98/vivid"
	"github.com/kercylan98/vivid/internal/remoting"
	"github.com/kercylan98/vivid/internal/remoting/serialize"
	"github.com/kercylan98/vivid/pkg/log"
	"github.com/kercylan98/vivid/verif/internal/hlog"
	"github.com/kercylan98/vivid/verif/internal/vstat"
	"pgregory.net/rapid"
)

type frameCtx struct {
	vivid.ActorContext // nil: the frame reader uses only what is below
	kills              int
}

type nopStream struct{}

func (nopStream) Subscribe(vivid.EventStreamContext, vivid.Message)   {}
func (nopStream) Unsubscribe(vivid.EventStreamContext, vivid.Message) {}
func (nopStream) UnsubscribeAll(vivid.EventStreamContext)             {}
func (nopStream) Publish(vivid.EventStreamContext, vivid.Message)     {}

type frameRef struct{}

func (frameRef) GetAddress() string             { return "127.0.0.1:1" }
func (frameRef) GetPath() vivid.ActorPath       { return "/conn" }
func (frameRef) Equals(o vivid.ActorRef) bool   { return false }
func (r frameRef) Clone() vivid.ActorRef        { return r }
func (r frameRef) ToActorRefs() vivid.ActorRefs { return vivid.ActorRefs{r} }
func (frameRef) String() string                 { return "127.0.0.1:1/conn" }

func (c *frameCtx) Logger() log.Logger                   { return hlog.Nop }
func (c *frameCtx) EventStream() vivid.EventStream       { return nopStream{} }
func (c *frameCtx) Ref() vivid.ActorRef                  { return frameRef{} }
func (c *frameCtx) TellSelf(vivid.Message)               {}
func (c *frameCtx) Kill(vivid.ActorRef, bool, ...string) { c.kills++ }
func (c *frameCtx) Tell(vivid.ActorRef, vivid.Message)   {}

type frameHandler struct{ got int }

func (h *frameHandler) HandleRemotingEnvelop(system bool, senderAddr, senderPath, receiverAddr, receiverPath string, messageInstance any) error {
	h.got++
	return nil
}
func (h *frameHandler) HandleFailedRemotingEnvelop(vivid.Envelop) {}

const frameLimit = 4 << 20

func TestC13Frames(t *testing.T) {
	rapid.Check(t, func(rt *rapid.T) {
		_, envEnc, name := validEncodings(rt)
		nFrames := rapid.IntRange(1, 4).Draw(rt, "frames")
		var stream []byte
		var plan []string
		validBefore := 0
		hostileSeen := false
		for i := 0; i < nFrames; i++ {
			body := envEnc
			intact := true
			switch rapid.IntRange(0, 4).Draw(rt, "body") {
			case 0:
				n := rapid.IntRange(0, len(envEnc)).Draw(rt, "trunc")
				body, intact = envEnc[:n], n == len(envEnc)
			case 1:
				body, intact = rapid.SliceOfN(rapid.Byte(), 0, 64).Draw(rt, "garbage"), false
			}
			var l uint32
			kind := rapid.SampledFrom([]string{"exact", "exact", "hostile", "hostile", "off-by-one", "limit"}).Draw(rt, "len")
			switch kind {
			case "exact":
				l = uint32(len(body))
			case "hostile":
				l = rapid.SampledFrom(hostile).Draw(rt, "hostileLen")
			case "off-by-one":
				l = uint32(len(body) + rapid.SampledFrom([]int{-1, 1, 2}).Draw(rt, "delta"))
			case "limit":
				l = uint32(frameLimit + rapid.SampledFrom([]int{-1, 0, 1, 2}).Draw(rt, "aroundLimit"))
			}
			var hdr [4]byte
			binary.BigEndian.PutUint32(hdr[:], l)
			stream = append(append(stream, hdr[:]...), body...)
			plan = append(plan, fmt.Sprintf("%s:%#x+%dB", kind, l, len(body)))
			if kind == "exact" && intact && len(body) > 0 && !hostileSeen {
				validBefore++
			} else {
				hostileSeen = true
			}
		}
		desc := fmt.Sprintf("type=%s frames=%v stream=%dB", name, plan, len(stream))
		persist("TestC13Frames", desc+fmt.Sprintf(" stream=%x", stream[:min(len(stream), 400)]))
		f := &failer{rt.Fatalf, func() string { return desc }}
		a, b := net.Pipe()
		wrote := make(chan string, 1)
		go func() {
			n, err := b.Write(stream)
			_ = b.Close()
			wrote <- fmt.Sprintf("wrote %d of %d bytes, err %v", n, len(stream), err)
		}()
		_ = a.SetDeadline(time.Now().Add(5 * time.Second))
		h := &frameHandler{}
		fr := remoting.NewVerifFrameReader(a, codec, h)
		ctx := &frameCtx{}
		before := allocated()
		steps := 0
		var stepLog []string
		for ; steps < nFrames+2; steps++ {
			var fatal bool
			err, pv, st := safe(func() error {
				var e error
				fatal, e = fr.ReadFrame(ctx)
				return e
			})
			if pv != nil {
				f.fail("decode|panic|frame|"+panicSite(st), "the connection's frame reader panicked at frame %d of the stream (%v): %v", steps, plan, short(fmt.Sprint(pv), 300))
				break
			}
			stepLog = append(stepLog, fmt.Sprintf("step %d: fatal=%v err=%v kills=%d handled=%d", steps, fatal, err, ctx.kills, h.got))
			if fatal || ctx.kills > 0 {
				break
			}
		}
		_ = a.Close()
		if delta := allocated() - before; delta > uint64(nFrames+2)*uint64(frameLimit+allocSlack) {
			f.fail("decode|alloc|frame", "the frame reader allocated %d bytes for a stream of %d bytes (%v)", delta, len(stream), plan)
		}
		if h.got < validBefore {
			_, _, _, _, _, _, derr := serialize.DecodeEnvelopWithRemoting(codec, envEnc)
			f.fail("decode|frame|valid-frame-dropped", "%d valid frames in front of the first hostile one, the envelope handler got %d (%v); decoding the envelope directly gives: %v; steps: %v; writer: %s; stream=%x", validBefore, h.got, plan, derr, stepLog, <-wrote, stream)
		}
		vstat.Add("frames_fed", int64(nFrames))
		vstat.Case(vstat.Hash(desc), hostileSeen, []string{"frame-stream"}, func() any { return desc })
	})
}
