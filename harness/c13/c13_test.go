// C13 — the codec is total: bad bytes or unsupported values give an error,
// not a crash, a loop or a runaway allocation; a failed decode leaves the
// destination untouched.
package c13

import (
	"encoding/binary"
	"encoding/json"
	"fmt"
	"math"
	"net"
	"os"
	"reflect"
	"runtime/debug"
	"runtime/metrics"
	"sort"
	"strings"
	"testing"
	"time"

	"github.com/kercylan98/vivid"
	"github.com/kercylan98/vivid/internal/actor"
	"github.com/kercylan98/vivid/internal/cluster"
	"github.com/kercylan98/vivid/internal/mailbox"
	"github.com/kercylan98/vivid/internal/messages"
	"github.com/kercylan98/vivid/internal/remoting"
	"github.com/kercylan98/vivid/internal/remoting/serialize"
	"github.com/kercylan98/vivid/verif/internal/arb"
	"github.com/kercylan98/vivid/verif/internal/vstat"
	"github.com/kercylan98/vivid/verif/internal/vt"
	"pgregory.net/rapid"
)

func TestMain(m *testing.M) {
	// runaway recursion must kill the worker quickly, not after 1 GB of stack
	debug.SetMaxStack(64 << 20)
	vstat.Main(m.Run)
}

type CustomMsg struct {
	Sender string
	Seq    int64
	Body   []byte
	Tags   []string
}

type OutsideMsg struct {
	A int64
	B string
}

func init() {
	vivid.RegisterCustomMessage[*CustomMsg]("verif.CustomMsg",
		func(message any, r *messages.Reader, _ messages.Codec) error {
			m := message.(*CustomMsg)
			return r.ReadInto(&m.Sender, &m.Seq, &m.Body, &m.Tags)
		},
		func(message any, w *messages.Writer, _ messages.Codec) error {
			m := message.(*CustomMsg)
			return w.WriteFrom(m.Sender, m.Seq, m.Body, m.Tags)
		})
}

type jsonCodec struct{}

func (jsonCodec) Encode(m vivid.Message) ([]byte, error) { return json.Marshal(m) }
func (jsonCodec) Decode(b []byte) (vivid.Message, error) {
	var o OutsideMsg
	if err := json.Unmarshal(b, &o); err != nil {
		return nil, err
	}
	return &o, nil
}

var codec = jsonCodec{}

func registry() map[string]reflect.Type { return messages.VerifRegistry() }

func names() []string {
	var ns []string
	for n := range registry() {
		ns = append(ns, n)
	}
	sort.Strings(ns)
	return ns
}

type failer struct {
	fatalf func(string, ...any)
	cs     func() string
}

func (f *failer) fail(clause, format string, a ...any) {
	sig := "C13/" + clause
	detail := fmt.Sprintf(format, a...) + " | case: " + f.cs()
	if vstat.Fail(sig, detail, f.cs()) {
		return
	}
	f.fatalf("VERIF-FAIL sig=%s :: %s", sig, detail)
}

func safe(f func() error) (err error, panicked any, stack string) {
	defer func() {
		if r := recover(); r != nil {
			panicked = r
			stack = string(debug.Stack())
		}
	}()
	return f(), nil, ""
}

// first vivid frame below the panic, for the signature
func panicSite(stack string) string {
	lines := strings.Split(stack, "\n")
	seenPanic := false
	for _, l := range lines {
		if strings.HasPrefix(l, "panic(") {
			seenPanic = true
			continue
		}
		if seenPanic && strings.HasPrefix(l, "github.com/kercylan98/vivid/") && !strings.Contains(l, "/vivid/verif/") {
			l = strings.TrimPrefix(l, "github.com/kercylan98/vivid/")
			if i := strings.LastIndex(l, "("); i > 0 {
				l = l[:i]
			}
			return l
		}
	}
	return "?"
}

var allocSample = []metrics.Sample{{Name: "/gc/heap/allocs:bytes"}}

func allocated() uint64 {
	metrics.Read(allocSample)
	return allocSample[0].Value.Uint64()
}

const allocSlack = 16 << 20

// persist describes the case about to run so that a case that kills the process can be re-run.
func persist(test string, desc string) {
	vt.SetCase(map[string]any{"test": test, "rapid_seed": os.Getenv("VERIF_RSEED"), "desc": desc})
}

// ---------------------------------------------------------------------------
// encoders

type named int32
type namedS string

var unsupportedSamples = []any{
	int(5), uint(7), uintptr(1), complex64(1), complex128(2), map[string]int{"a": 1}, make(chan int), func() {}, named(3), namedS("x"),
	messages.CommandResumeMailbox, nil, (*int32)(nil), (*string)(nil), (*[]byte)(nil), (*struct{ A int32 })(nil), []any{nil}, []any{int32(1), "x"},
	struct{ A any }{}, struct{ P *int32 }{}, struct{ M map[string]string }{}, [2]any{}, []*int32{nil}, time.Second, time.Now(), (error)(nil), fmt.Errorf("e"),
	struct{ F func() }{}, struct{ I int }{I: 1}, &struct{ I uint }{I: 1}, []int{1, 2}, [1]uint{1}, vivid.ActorRef(nil),
}

func ptrTo(v any) any {
	rv := reflect.ValueOf(v)
	if !rv.IsValid() {
		return v
	}
	p := reflect.New(rv.Type())
	p.Elem().Set(rv)
	return p.Interface()
}

var allPrims = []reflect.Type{
	reflect.TypeOf(false), reflect.TypeOf(int8(0)), reflect.TypeOf(int16(0)), reflect.TypeOf(int32(0)), reflect.TypeOf(int64(0)),
	reflect.TypeOf(uint8(0)), reflect.TypeOf(uint16(0)), reflect.TypeOf(uint32(0)), reflect.TypeOf(uint64(0)),
	reflect.TypeOf(float32(0)), reflect.TypeOf(float64(0)), reflect.TypeOf(""), reflect.TypeOf([]byte(nil)),
}

var oddTypes = []reflect.Type{
	reflect.TypeOf(int(0)), reflect.TypeOf(uint(0)), reflect.TypeOf(uintptr(0)), reflect.TypeOf(complex128(0)), reflect.TypeOf(named(0)), reflect.TypeOf(namedS("")),
	reflect.TypeOf(map[string]string(nil)), reflect.TypeOf((*any)(nil)).Elem(), reflect.TypeOf((*error)(nil)).Elem(), reflect.TypeOf((chan int)(nil)), reflect.TypeOf((func())(nil)),
	reflect.TypeOf((*vivid.ActorRef)(nil)).Elem(),
}

func genAnyType(t *rapid.T, depth int) reflect.Type {
	k := rapid.IntRange(0, 11).Draw(t, "tk")
	if depth >= 3 && k > 7 {
		k = 0
	}
	switch {
	case k <= 4:
		return rapid.SampledFrom(allPrims).Draw(t, "prim")
	case k <= 7:
		return rapid.SampledFrom(oddTypes).Draw(t, "odd")
	case k == 8:
		return reflect.SliceOf(genAnyType(t, depth+1))
	case k == 9:
		return reflect.ArrayOf(rapid.IntRange(0, 3).Draw(t, "alen"), genAnyType(t, depth+1))
	case k == 10:
		return reflect.PointerTo(genAnyType(t, depth+1))
	default:
		n := rapid.IntRange(0, 4).Draw(t, "nf")
		var fs []reflect.StructField
		for i := 0; i < n; i++ {
			fs = append(fs, reflect.StructField{Name: fmt.Sprintf("F%d", i), Type: genAnyType(t, depth+1)})
		}
		return reflect.StructOf(fs)
	}
}

// fillAny fills values of any type of the grammar (nil for what cannot be built).
func fillAny(t *rapid.T, v reflect.Value, depth int) {
	ty := v.Type()
	switch ty.Kind() {
	case reflect.Int, reflect.Int8, reflect.Int16, reflect.Int32, reflect.Int64:
		v.SetInt(int64(rapid.Int8().Draw(t, "i")))
	case reflect.Uint, reflect.Uint8, reflect.Uint16, reflect.Uint32, reflect.Uint64, reflect.Uintptr:
		v.SetUint(uint64(rapid.Uint8().Draw(t, "u")))
	case reflect.Float32, reflect.Float64:
		v.SetFloat(1.5)
	case reflect.Complex64, reflect.Complex128:
		v.SetComplex(complex(1, 2))
	case reflect.Bool:
		v.SetBool(rapid.Bool().Draw(t, "b"))
	case reflect.String:
		v.SetString(rapid.SampledFrom([]string{"", "a", "xyz"}).Draw(t, "s"))
	case reflect.Slice:
		n := rapid.IntRange(-1, 3).Draw(t, "n")
		if n < 0 {
			return
		}
		s := reflect.MakeSlice(ty, n, n)
		for i := 0; i < n; i++ {
			fillAny(t, s.Index(i), depth+1)
		}
		v.Set(s)
	case reflect.Array:
		for i := 0; i < ty.Len(); i++ {
			fillAny(t, v.Index(i), depth+1)
		}
	case reflect.Struct:
		for i := 0; i < ty.NumField(); i++ {
			fillAny(t, v.Field(i), depth+1)
		}
	case reflect.Ptr:
		if rapid.IntRange(0, 2).Draw(t, "nil") == 0 {
			return
		}
		p := reflect.New(ty.Elem())
		fillAny(t, p.Elem(), depth+1)
		v.Set(p)
	case reflect.Map:
		if rapid.Bool().Draw(t, "nilmap") {
			return
		}
		v.Set(reflect.MakeMap(ty))
	case reflect.Interface:
		switch rapid.IntRange(0, 3).Draw(t, "iface") {
		case 0:
			return // nil interface
		case 1:
			if reflect.TypeOf(int32(0)).Implements(ty) {
				v.Set(reflect.ValueOf(int32(1)))
			}
		case 2:
			if reflect.TypeOf("").Implements(ty) {
				v.Set(reflect.ValueOf("s"))
			}
		default:
			e := fmt.Errorf("x")
			if reflect.TypeOf(e).Implements(ty) {
				v.Set(reflect.ValueOf(e))
			}
		}
	}
}

func short(s string, n int) string {
	if len(s) > n {
		return s[:n] + "…"
	}
	return s
}

func checkEncode(f *failer, what string, enc func() error) {
	before := allocated()
	err, pv, st := safe(enc)
	if pv != nil {
		f.fail("encode|panic|"+panicSite(st), "%s panicked: %v", what, short(fmt.Sprint(pv), 300))
		return
	}
	_ = err // an error is a fine answer
	if d := allocated() - before; d > 64<<20 {
		f.fail("encode|alloc", "%s allocated %d bytes", what, d)
	}
}

func TestC13EncodeValues(t *testing.T) {
	rapid.Check(t, func(rt *rapid.T) {
		var val any
		var desc string
		mode := rapid.IntRange(0, 3).Draw(rt, "mode")
		if mode == 0 {
			i := rapid.IntRange(0, len(unsupportedSamples)-1).Draw(rt, "sample")
			val = unsupportedSamples[i]
			if rapid.Bool().Draw(rt, "addr") {
				val = ptrTo(val)
			}
			desc = fmt.Sprintf("sample[%d] %T", i, val)
		} else {
			ty := genAnyType(rt, 0)
			v := reflect.New(ty).Elem()
			fillAny(rt, v, 0)
			if rapid.Bool().Draw(rt, "addr") {
				val = v.Addr().Interface()
			} else {
				val = v.Interface()
			}
			desc = short(fmt.Sprintf("%T = %+v", val, val), 400)
		}
		persist("TestC13EncodeValues", desc)
		f := &failer{rt.Fatalf, func() string { return desc }}
		w := messages.NewWriter()
		checkEncode(f, "Writer.WriteFrom", func() error { return w.WriteFrom(val) })
		w2 := messages.NewWriter()
		checkEncode(f, "Writer.Write", func() error { w2.Write(val); return w2.Err() })
		vstat.Case(vstat.Hash(desc), true, []string{"encode-value"}, func() any { return desc })
	})
}

// messages: nil, non-pointer, typed nil, nil fields; with and without a Codec.
func TestC13EncodeMessages(t *testing.T) {
	ns := names()
	rapid.Check(t, func(rt *rapid.T) {
		var msg any
		kind := rapid.SampledFrom([]string{"nil", "nonpointer", "typednil", "nilfields", "nilfields", "nilfields", "outside", "unregistered-value"}).Draw(rt, "kind")
		name := rapid.SampledFrom(ns).Draw(rt, "type")
		o := arb.Opt{Registry: registry(), MaxDepth: 2, NilMessage: true, NilPointers: true}
		switch kind {
		case "nil":
			msg = nil
		case "nonpointer":
			msg = reflect.ValueOf(arb.Message(rt, registry()[name], o, 0)).Elem().Interface()
		case "typednil":
			msg = reflect.Zero(reflect.PointerTo(registry()[name])).Interface()
		case "nilfields":
			msg = arb.Message(rt, registry()[name], o, 0)
		case "outside":
			msg = &OutsideMsg{A: 1, B: "b"}
		default:
			msg = rapid.SampledFrom([]any{5, "str", []byte("x"), struct{}{}, map[string]int{}, &struct{ X int }{1}, int32(3)}).Draw(rt, "val")
		}
		var cdc messages.Codec = codec
		withCodec := rapid.Bool().Draw(rt, "codec")
		if !withCodec {
			cdc = nil
		}
		desc := short(fmt.Sprintf("%s codec=%v %T %+v", kind, withCodec, msg, msg), 500)
		persist("TestC13EncodeMessages", desc)
		f := &failer{rt.Fatalf, func() string { return desc }}
		w := messages.NewWriter()
		checkEncode(f, "Writer.WriteMessage", func() error { return w.WriteMessage(msg, cdc) })
		var vc vivid.Codec
		if withCodec {
			vc = codec
		}
		checkEncode(f, "EncodeEnvelopWithRemoting", func() error {
			_, err := serialize.EncodeEnvelopWithRemoting(vc, mailbox.NewEnvelop(false, nil, nil, msg))
			return err
		})
		vstat.Case(vstat.Hash(desc), true, []string{"encode-msg:" + kind}, func() any { return desc })
	})
}

// ---------------------------------------------------------------------------
// decoders

var hostile = []uint32{0, 1, 0x7f, 0x80, 0xff, 0xffff, 0x10000, 0x7fffffff, 0x80000000, 0xffffffff}

type decoder struct {
	name string
	run  func(data []byte) error
}

func decoders(withCodec bool) []decoder {
	var vc vivid.Codec
	var mc messages.Codec
	if withCodec {
		vc, mc = codec, codec
	}
	ds := []decoder{
		{"DecodeEnvelopWithRemoting", func(d []byte) error {
			_, _, _, _, _, _, err := serialize.DecodeEnvelopWithRemoting(vc, d)
			return err
		}},
		{"DecodeEnvelop+NewRef", func(d []byte) error {
			// what System.HandleRemotingEnvelop does with a decoded envelope: rebuild the references
			_, sa, sp, ra, rp, _, err := serialize.DecodeEnvelopWithRemoting(vc, d)
			if err != nil {
				return err
			}
			if _, err := actor.NewRef(sa, sp); err != nil {
				return err
			}
			_, err = actor.NewRef(ra, rp)
			return err
		}},
		{"Reader.ReadMessage", func(d []byte) error {
			_, err := messages.NewReader(d).ReadMessage(mc)
			return err
		}},
		{"ReadVersionVector", func(d []byte) error {
			_, err := cluster.ReadVersionVector(messages.NewReader(d))
			return err
		}},
		{"Handshake.Wait", func(d []byte) error {
			a, b := net.Pipe()
			defer a.Close()
			defer b.Close()
			go func() {
				if len(d) == 0 {
					b.Close()
					return
				}
				_, _ = b.Write(d)
			}()
			h := &remoting.Handshake{}
			return h.Wait(a)
		}},
	}
	return ds
}

func runDecoder(f *failer, d decoder, data []byte, origin string) {
	before := allocated()
	err, pv, st := safe(func() error { return d.run(data) })
	if pv != nil {
		f.fail("decode|panic|"+d.name+"|"+panicSite(st), "%s panicked on %d bytes (%s): %v ; input=%x", d.name, len(data), origin, short(fmt.Sprint(pv), 300), data[:min(len(data), 96)])
		return
	}
	_ = err
	if delta := allocated() - before; delta > uint64(64*len(data)+allocSlack) {
		f.fail("decode|alloc|"+d.name, "%s allocated %d bytes for an input of %d bytes (%s); input=%x", d.name, delta, len(data), origin, data[:min(len(data), 96)])
	}
}

func validEncodings(rt *rapid.T) (msgEnc []byte, envEnc []byte, name string) {
	ns := names()
	name = rapid.SampledFrom(ns).Draw(rt, "type")
	o := arb.Opt{Registry: registry(), MaxDepth: 2}
	for tries := 0; tries < 20; tries++ {
		msg := arb.Message(rt, registry()[name], o, 0)
		w := messages.NewWriter()
		if err, pv, _ := safe(func() error { return w.WriteMessage(msg, codec) }); err != nil || pv != nil {
			name = rapid.SampledFrom(ns).Draw(rt, "type-retry")
			continue
		}
		msgEnc = append([]byte(nil), w.Bytes()...)
		var s, r vivid.ActorRef
		if rapid.Bool().Draw(rt, "refs") {
			s, r = arb.GenRef(rt), arb.GenRef(rt)
		}
		e, err := serialize.EncodeEnvelopWithRemoting(codec, mailbox.NewEnvelop(rapid.Bool().Draw(rt, "sys"), s, r, msg))
		if err != nil {
			continue
		}
		envEnc = e
		return
	}
	rt.Fatalf("harness: could not produce a valid encoding")
	return
}

// every 4-byte aligned-or-not window that currently holds a plausible length is overwritten
func lengthOverwrites(rt *rapid.T, data []byte, n int) [][]byte {
	var out [][]byte
	if len(data) < 4 {
		return nil
	}
	for i := 0; i < n; i++ {
		off := rapid.IntRange(0, len(data)-4).Draw(rt, "off")
		v := rapid.SampledFrom(hostile).Draw(rt, "len")
		m := append([]byte(nil), data...)
		binary.BigEndian.PutUint32(m[off:], v)
		out = append(out, m)
	}
	// the leading length field is always attacked with every hostile constant
	for _, v := range hostile {
		m := append([]byte(nil), data...)
		binary.BigEndian.PutUint32(m[0:], v)
		out = append(out, m)
	}
	return out
}

func TestC13DecodeMutations(t *testing.T) {
	rapid.Check(t, func(rt *rapid.T) {
		msgEnc, envEnc, name := validEncodings(rt)
		withCodec := rapid.IntRange(0, 3).Draw(rt, "codec") > 0
		ds := decoders(withCodec)
		desc := fmt.Sprintf("type=%s msgEnc=%dB envEnc=%dB codec=%v", name, len(msgEnc), len(envEnc), withCodec)
		persist("TestC13DecodeMutations", desc+fmt.Sprintf(" msg=%x env=%x", msgEnc, envEnc))
		f := &failer{rt.Fatalf, func() string { return desc }}
		count := 0
		feed := func(data []byte, origin string) {
			for _, d := range ds {
				if d.name == "Handshake.Wait" && count%16 != 0 {
					continue // a pipe per call is slow: sample
				}
				runDecoder(f, d, data, origin)
			}
			count++
		}
		for bi, base := range [][]byte{msgEnc, envEnc} {
			origin := []string{"message encoding of " + name, "envelope encoding of " + name}[bi]
			// every truncation
			for n := 0; n <= len(base); n++ {
				feed(base[:n], fmt.Sprintf("%s truncated to %d", origin, n))
			}
			// every single-byte replacement by the hostile byte constants (bounded per encoding)
			step := 1
			if len(base) > 600 {
				step = len(base) / 600
			}
			for i := 0; i < len(base); i += step {
				for _, b := range []byte{0x00, 0x01, 0x7f, 0x80, 0xff, base[i] + 1, base[i] - 1, ' ', '\t', '\n', '/', ':', '%', '@'} {
					if b == base[i] {
						continue
					}
					m := append([]byte(nil), base...)
					m[i] = b
					feed(m, fmt.Sprintf("%s byte %d := %#x", origin, i, b))
				}
			}
			for _, m := range lengthOverwrites(rt, base, 12) {
				feed(m, origin+" with a length field overwritten")
			}
		}
		// splice: head of one encoding, tail of the other
		if len(msgEnc) > 2 && len(envEnc) > 2 {
			a := rapid.IntRange(1, len(msgEnc)-1).Draw(rt, "cutA")
			b := rapid.IntRange(1, len(envEnc)-1).Draw(rt, "cutB")
			feed(append(append([]byte(nil), msgEnc[:a]...), envEnc[b:]...), "splice")
			feed(append(append([]byte(nil), envEnc[:b]...), msgEnc[a:]...), "splice")
		}
		feed(rapid.SliceOfN(rapid.Byte(), 0, 200).Draw(rt, "random"), "random bytes")
		vstat.Add("decodes", int64(count*len(ds)))
		vstat.Case(vstat.HashBytes(append(append([]byte(name), msgEnc...), envEnc...)), true, []string{"mut:" + name}, func() any {
			return map[string]any{"type": name, "message_encoding_bytes": len(msgEnc), "envelope_encoding_bytes": len(envEnc), "mutants_fed": count}
		})
	})
}

// every registered reader on arbitrary bodies (bypassing the name lookup)
func TestC13RegisteredReaders(t *testing.T) {
	ns := names()
	rapid.Check(t, func(rt *rapid.T) {
		name := rapid.SampledFrom(ns).Draw(rt, "type")
		desc0 := messages.QueryMessageDescByName(name)
		var body []byte
		switch rapid.IntRange(0, 2).Draw(rt, "src") {
		case 0:
			body = rapid.SliceOfN(rapid.Byte(), 0, 120).Draw(rt, "rand")
		default:
			// hostile 32-bit values at drawn positions of an otherwise small body
			n := rapid.IntRange(1, 16).Draw(rt, "words")
			for i := 0; i < n; i++ {
				var w [4]byte
				binary.BigEndian.PutUint32(w[:], rapid.OneOf(rapid.SampledFrom(hostile), rapid.Uint32Range(0, 64)).Draw(rt, "word"))
				body = append(body, w[:]...)
				if rapid.Bool().Draw(rt, "pad") {
					body = append(body, rapid.Byte().Draw(rt, "b"))
				}
			}
		}
		desc := fmt.Sprintf("reader of %s on %x", name, body)
		persist("TestC13RegisteredReaders", desc)
		f := &failer{rt.Fatalf, func() string { return desc }}
		for _, c := range []messages.Codec{codec, nil} {
			c := c
			runDecoder(f, decoder{"reader:" + name, func(d []byte) error {
				_, err := messages.DeserializeRemotingMessage(c, messages.NewReader(d), desc0)
				return err
			}}, body, "crafted body")
		}
		vstat.Case(vstat.Hash(desc), len(body) >= 8, []string{"reader:" + name}, func() any { return desc })
	})
}

// typed Read of every kind: arbitrary bytes into generated destination types;
// on error the destination keeps its previous content.
var readPrims = allPrims

func genReadType(t *rapid.T, depth int) reflect.Type {
	k := rapid.IntRange(0, 9).Draw(t, "tk")
	if depth >= 3 {
		k = 0
	}
	switch {
	case k <= 4:
		return rapid.SampledFrom(readPrims).Draw(t, "prim")
	case k == 5:
		return rapid.SampledFrom(oddTypes).Draw(t, "odd")
	case k == 6:
		return reflect.SliceOf(genReadType(t, depth+1))
	case k == 7:
		return reflect.ArrayOf(rapid.IntRange(1, 3).Draw(t, "alen"), genReadType(t, depth+1))
	case k == 8:
		return reflect.PointerTo(genReadType(t, depth+1))
	default:
		n := rapid.IntRange(1, 4).Draw(t, "nf")
		var fs []reflect.StructField
		for i := 0; i < n; i++ {
			fs = append(fs, reflect.StructField{Name: fmt.Sprintf("F%d", i), Type: genReadType(t, depth+1)})
		}
		return reflect.StructOf(fs)
	}
}

func wireSizePositive(ty reflect.Type) bool {
	switch ty.Kind() {
	case reflect.Struct:
		for i := 0; i < ty.NumField(); i++ {
			if wireSizePositive(ty.Field(i).Type) {
				return true
			}
		}
		return false
	case reflect.Array:
		return true // arrays carry a length word
	}
	return true
}

func TestC13TypedRead(t *testing.T) {
	rapid.Check(t, func(rt *rapid.T) {
		ty := genReadType(rt, 0)
		// sentinel content
		dst := reflect.New(ty)
		fillAny(rt, dst.Elem(), 0)
		snapshot := fmt.Sprintf("%#v", dst.Elem().Interface())
		var data []byte
		if rapid.Bool().Draw(rt, "validPrefix") {
			// a valid encoding of another value of the type, then damaged
			src := reflect.New(ty)
			fillAny(rt, src.Elem(), 0)
			w := messages.NewWriter()
			if err, pv, _ := safe(func() error { return w.WriteFrom(src.Interface()) }); err == nil && pv == nil {
				data = append([]byte(nil), w.Bytes()...)
				if len(data) > 0 {
					switch rapid.IntRange(0, 2).Draw(rt, "damage") {
					case 0:
						data = data[:rapid.IntRange(0, len(data)-1).Draw(rt, "trunc")]
					case 1:
						if len(data) >= 4 {
							off := rapid.IntRange(0, len(data)-4).Draw(rt, "off")
							binary.BigEndian.PutUint32(data[off:], rapid.SampledFrom(hostile).Draw(rt, "len"))
						}
					}
				}
			}
		}
		if data == nil {
			data = rapid.SliceOfN(rapid.Byte(), 0, 64).Draw(rt, "bytes")
			if len(data) >= 4 && rapid.Bool().Draw(rt, "hostileHead") {
				binary.BigEndian.PutUint32(data, rapid.SampledFrom(hostile).Draw(rt, "head"))
			}
		}
		desc := short(fmt.Sprintf("Read into %v from %x", ty, data), 500)
		persist("TestC13TypedRead", desc)
		f := &failer{rt.Fatalf, func() string { return desc }}
		before := allocated()
		r := messages.NewReader(data)
		err, pv, st := safe(func() error { return r.Read(dst.Interface()) })
		if pv != nil {
			f.fail("decode|panic|Reader.Read|"+panicSite(st), "Reader.Read panicked: %v", short(fmt.Sprint(pv), 300))
			return
		}
		if delta := allocated() - before; delta > uint64(64*len(data)+allocSlack) {
			f.fail("decode|alloc|Reader.Read", "Reader.Read allocated %d bytes for %d input bytes", delta, len(data))
		}
		if err != nil {
			if now := fmt.Sprintf("%#v", dst.Elem().Interface()); now != snapshot && !strings.Contains(snapshot, "0xc0") && !strings.Contains(snapshot, "(0x") {
				f.fail("decode|destination-modified", "Read failed (%v) but changed the destination: %s -> %s", err, short(snapshot, 200), short(now, 200))
			}
		}
		if r.Pos() > len(data) {
			f.fail("decode|overread", "reader position %d beyond input %d", r.Pos(), len(data))
		}
		_ = math.MaxInt32
		vstat.Case(vstat.Hash(desc), len(data) >= 4, []string{"typed-read", fmt.Sprintf("err:%v", err != nil)}, func() any { return desc })
	})
}

func TestReplay(t *testing.T) {
	t.Skip("replay a C13 crash with the recorded rapid seed: see the case file")
}
