// C17 — cluster view merge is order-insensitive and never regresses a member.
//
// Views are produced the way the package's own callers produce them: a small
// set of simulated nodes runs generated histories of bootstrap / join (with the
// generation bump of tryJoinSeeds) / restart / in-place status flips /
// IncrementVersion / RemoveMember / gossip merges; snapshots taken along the
// way are then merged in every order.
package c17

import (
	"fmt"
	"sort"
	"strings"
	"testing"
	"time"

	"github.com/kercylan98/vivid/internal/cluster"
	"github.com/kercylan98/vivid/verif/internal/vstat"
	"pgregory.net/rapid"
)

func TestMain(m *testing.M) { vstat.Main(m.Run) }

type node struct {
	id    string
	addr  string
	state *cluster.NodeState
	view  *cluster.ClusterView
}

type world struct {
	nodes []*node
	clock int64 // synthetic wall clock (ns), strictly increasing
	base  int64
	maxVV int
	log   []string
}

func (w *world) now() int64 { w.clock += 1000; return w.base + w.clock }

func (w *world) newState(n *node) *cluster.NodeState {
	t := w.now()
	return &cluster.NodeState{ID: n.id, ClusterName: "c", Address: n.addr, Generation: 1, Timestamp: t, Status: cluster.MemberStatusJoining, LastSeen: t, LogicalClock: 1, Metadata: map[string]string{}, Labels: map[string]string{}}
}

func (w *world) newView() *cluster.ClusterView {
	return &cluster.ClusterView{ViewID: fmt.Sprintf("v%d", w.clock), Timestamp: w.now(), Members: map[string]*cluster.NodeState{}, ProtocolVersion: cluster.ProtocolVersion, MaxVersionVectorEntries: w.maxVV}
}

func (w *world) restart(n *node) {
	n.state = w.newState(n)
	n.view = w.newView()
}

// bootstrapAsSeed
func (w *world) bootstrap(n *node) {
	n.state.Status = cluster.MemberStatusUp
	n.view.AddMember(n.state)
	n.view.IncrementVersion(n.id)
}

// handleJoinRequest on seed s + tryJoinSeeds on joiner j
func (w *world) join(j, s *node, opts cluster.MergeOptions) {
	if j.state.Status != cluster.MemberStatusJoining {
		return
	}
	req := j.state.Clone()
	accepted := req.Clone()
	accepted.Status = cluster.MemberStatusUp
	s.view.AddMember(accepted)
	s.view.IncrementVersion(s.id)
	resp := s.view.Snapshot()

	j.state.Status = cluster.MemberStatusUp
	j.view.AddMember(j.state)
	j.view.IncrementVersion(j.id)
	j.view.MergeFromWithOptions(resp, opts)
	if prev := j.view.Members[j.id]; prev != nil && prev.Generation >= j.state.Generation {
		j.state.Generation = prev.Generation + 1
		j.state.Timestamp = w.now()
		if prev.LogicalClock != 0 {
			j.state.LogicalClock = prev.LogicalClock + 1
		} else {
			j.state.LogicalClock = 1
		}
		j.view.AddMember(j.state)
	}
}

type proj struct {
	gen   int
	clock uint64
}

func project(v *cluster.ClusterView) map[string]proj {
	out := map[string]proj{}
	for id, m := range v.Members {
		if m != nil {
			out[id] = proj{m.Generation, m.LogicalClock}
		}
	}
	return out
}

// identString is the membership with each member's incarnation spelled out to the record that represents it:
// (generation, logical clock, start stamp). Two records of one member can agree in generation and logical clock and
// still belong to different incarnations (a node that was evicted everywhere and restarted starts over at the same
// numbers); the order-insensitivity laws are about which record the merge ends up with, whatever rule picks it.
func identString(v *cluster.ClusterView) string {
	var ks []string
	for k, m := range v.Members {
		if m != nil {
			ks = append(ks, fmt.Sprintf("%s:g%d,c%d,t%d", k, m.Generation, m.LogicalClock, m.Timestamp))
		}
	}
	sort.Strings(ks)
	return strings.Join(ks, " ")
}

func projString(p map[string]proj) string {
	var ks []string
	for k := range p {
		ks = append(ks, k)
	}
	sort.Strings(ks)
	var b strings.Builder
	for _, k := range ks {
		fmt.Fprintf(&b, "%s:(g%d,c%d) ", k, p[k].gen, p[k].clock)
	}
	return strings.TrimSpace(b.String())
}

func less(a, b proj) bool {
	if a.gen != b.gen {
		return a.gen < b.gen
	}
	return a.clock < b.clock
}

func fullString(v *cluster.ClusterView) string {
	var ks []string
	for k := range v.Members {
		ks = append(ks, k)
	}
	sort.Strings(ks)
	var b strings.Builder
	for _, k := range ks {
		m := v.Members[k]
		fmt.Fprintf(&b, "%s{g%d c%d %s ts%d seen%d u%v seq%d} ", k, m.Generation, m.LogicalClock, m.Status, m.Timestamp, m.LastSeen, m.Unreachable, m.SeqNo)
	}
	fmt.Fprintf(&b, "| vv=%s epoch=%d", v.VersionVector.String(), v.Epoch)
	return b.String()
}

func membersString(v *cluster.ClusterView) string {
	s := fullString(v)
	i := strings.Index(s, "| vv=")
	return s[:i]
}

func merged(a, b *cluster.ClusterView, o cluster.MergeOptions) (*cluster.ClusterView, bool) {
	r := a.Snapshot()
	ch := r.MergeFromWithOptions(b.Snapshot(), o)
	return r, ch
}

type failer struct {
	t  *rapid.T
	cs func() string
}

func (f *failer) fail(clause, format string, a ...any) {
	sig := "C17/" + clause
	detail := fmt.Sprintf(format, a...) + " | history: " + f.cs()
	if vstat.Fail(sig, detail, f.cs()) {
		return
	}
	f.t.Fatalf("VERIF-FAIL sig=%s :: %s", sig, detail)
}

func TestC17MergeLaws(t *testing.T) {
	rapid.Check(t, func(rt *rapid.T) {
		n := rapid.IntRange(2, 5).Draw(rt, "nodes")
		w := &world{base: time.Now().UnixNano()}
		if rapid.Bool().Draw(rt, "capVV") {
			w.maxVV = n + rapid.IntRange(0, 3).Draw(rt, "capExtra")
		}
		opts := cluster.MergeOptions{
			VersionConcurrentStrategy: rapid.IntRange(0, 2).Draw(rt, "strategy"),
			MaxClockSkew:              rapid.SampledFrom([]time.Duration{0, 0, time.Nanosecond, time.Hour}).Draw(rt, "skew"),
		}
		for i := 0; i < n; i++ {
			nd := &node{id: fmt.Sprintf("n%d", i), addr: fmt.Sprintf("10.0.0.%d:1000", i+1)}
			w.nodes = append(w.nodes, nd)
			w.restart(nd)
		}
		w.bootstrap(w.nodes[0])
		w.log = append(w.log, "bootstrap(n0)")
		var snaps []*cluster.ClusterView
		var snapDesc []string
		steps := rapid.IntRange(1, 25).Draw(rt, "steps")
		for s := 0; s < steps; s++ {
			i := rapid.IntRange(0, n-1).Draw(rt, "i")
			j := rapid.IntRange(0, n-1).Draw(rt, "j")
			a, b := w.nodes[i], w.nodes[j]
			switch rapid.SampledFrom([]string{"join", "join", "gossip", "gossip", "gossip", "restart", "bootstrap", "suspect", "recover", "remove", "bump", "epoch", "learn", "learn", "snap", "snap"}).Draw(rt, "op") {
			case "join":
				// a seed answers joins after it bootstrapped / joined itself (it is a member of its own view)
				if i != j && b.view.Members[b.id] != nil {
					w.join(a, b, opts)
					w.log = append(w.log, fmt.Sprintf("join(%s via %s)", a.id, b.id))
				}
			case "gossip":
				if i != j {
					before := b.view.Snapshot()
					ch := b.view.MergeFromWithOptions(a.view.Snapshot(), opts)
					w.log = append(w.log, fmt.Sprintf("gossip(%s->%s)", a.id, b.id))
					checkMonotone(&failer{rt, func() string { return strings.Join(w.log, "; ") }}, before, a.view, b.view, ch, "history")
				}
			case "restart":
				w.restart(a)
				w.log = append(w.log, fmt.Sprintf("restart(%s)", a.id))
			case "bootstrap":
				if a.state.Status == cluster.MemberStatusJoining {
					w.bootstrap(a)
					w.log = append(w.log, fmt.Sprintf("bootstrap(%s)", a.id))
				}
			case "suspect":
				// failure detection only runs on a node that has joined (is a member of its own view)
				if m := a.view.Members[b.id]; m != nil && i != j && a.view.Members[a.id] != nil {
					m.Status = cluster.MemberStatusSuspect
					a.view.IncrementVersion(a.id)
					w.log = append(w.log, fmt.Sprintf("suspect(%s marks %s)", a.id, b.id))
				}
			case "recover":
				if m := a.view.Members[b.id]; m != nil && m.Status == cluster.MemberStatusSuspect {
					m.Status = cluster.MemberStatusUp
					m.LastSeen = w.now()
					w.log = append(w.log, fmt.Sprintf("recover(%s sees %s)", a.id, b.id))
				}
			case "remove":
				if i != j && a.view.Members[b.id] != nil && a.view.Members[a.id] != nil {
					a.view.RemoveMember(b.id)
					a.view.IncrementVersion(a.id)
					w.log = append(w.log, fmt.Sprintf("remove(%s drops %s)", a.id, b.id))
				}
			case "learn":
				// a state of node b learnt from elsewhere (a peer outside this simulation, an older
				// process of b): any generation / non-zero logical clock combination. The
				// property orders incarnations lexicographically by (generation, logical clock),
				// so the two are drawn independently.
				st := w.newState(b)
				st.Status = cluster.MemberStatusUp
				st.Generation = rapid.IntRange(1, 4).Draw(rt, "gen")
				st.LogicalClock = uint64(rapid.IntRange(1, 6).Draw(rt, "clock"))
				if rapid.Bool().Draw(rt, "oldTimestamp") {
					st.Timestamp = w.base - int64(rapid.IntRange(1, 1000).Draw(rt, "dt"))*1000
				}
				before := project(a.view)[b.id]
				_, had := project(a.view)[b.id]
				a.view.AddMember(st)
				after := project(a.view)[b.id]
				w.log = append(w.log, fmt.Sprintf("learn(%s learns %s at g%d,c%d)", a.id, b.id, st.Generation, st.LogicalClock))
				want := proj{st.Generation, st.LogicalClock}
				if had && !less(before, want) {
					want = before
				}
				if after != want {
					(&failer{rt, func() string { return strings.Join(w.log, "; ") }}).fail("union-newest|add-member", "AddMember: had %v (present=%v), offered (g%d,c%d), now %v, expected %v", before, had, st.Generation, st.LogicalClock, after, want)
				}
			case "bump":
				if a.view.Members[a.id] != nil {
					a.view.IncrementVersion(a.id)
					w.log = append(w.log, fmt.Sprintf("bump(%s)", a.id))
				}
			case "epoch":
				a.view.Epoch += int64(rapid.IntRange(1, 3).Draw(rt, "de"))
				a.view.Timestamp = w.now()
				w.log = append(w.log, fmt.Sprintf("epoch(%s=%d)", a.id, a.view.Epoch))
			case "snap":
				snaps = append(snaps, a.view.Snapshot())
				snapDesc = append(snapDesc, fmt.Sprintf("%s@%d", a.id, len(w.log)))
			}
		}
		for _, nd := range w.nodes {
			snaps = append(snaps, nd.view.Snapshot())
			snapDesc = append(snapDesc, nd.id+"@end")
		}
		// choose a triple
		ia := rapid.IntRange(0, len(snaps)-1).Draw(rt, "A")
		ib := rapid.IntRange(0, len(snaps)-1).Draw(rt, "B")
		ic := rapid.IntRange(0, len(snaps)-1).Draw(rt, "C")
		// three times out of four, when the history produced two snapshots that hold different incarnations of a
		// member they share, A and B are such a pair (constructed, not filtered: every history still yields a case)
		var disagreeing [][2]int
		for i := range snaps {
			for j := range snaps {
				if i == j {
					continue
				}
				pi, pj := project(snaps[i]), project(snaps[j])
				for id, x := range pi {
					if y, ok := pj[id]; ok && x != y {
						disagreeing = append(disagreeing, [2]int{i, j})
						break
					}
				}
			}
		}
		if len(disagreeing) > 0 && rapid.IntRange(0, 3).Draw(rt, "preferDisagreement") > 0 {
			pr := rapid.SampledFrom(disagreeing).Draw(rt, "disagreeingPair")
			ia, ib = pr[0], pr[1]
		}
		A, B, C := snaps[ia], snaps[ib], snaps[ic]
		f := &failer{rt, func() string {
			return strings.Join(w.log, "; ") + fmt.Sprintf(" || A=%s[%s] B=%s[%s] C=%s[%s] opts=%+v", snapDesc[ia], fullString(A), snapDesc[ib], fullString(B), snapDesc[ic], fullString(C), opts)
		}}
		aStr, bStr, cStr := fullString(A), fullString(B), fullString(C)

		ab, chAB := merged(A, B, opts)
		ba, _ := merged(B, A, opts)
		pa, pb := project(A), project(B)
		pab, pba := project(ab), project(ba)
		// a merge whose argument has no members is documented as a no-op (returns false)
		bothNonEmpty := len(A.Members) > 0 && len(B.Members) > 0
		if bothNonEmpty && projString(pab) != projString(pba) {
			f.fail("commutative", "merge(A,B) gives [%s], merge(B,A) gives [%s]", projString(pab), projString(pba))
		}
		if bothNonEmpty && identString(ab) != identString(ba) {
			f.fail("commutative|incarnation", "merge(A,B) keeps the records [%s], merge(B,A) keeps [%s]: which incarnation of a member survives depends on the merge order", identString(ab), identString(ba))
		}
		// union at the lexicographic maximum
		if len(B.Members) > 0 {
			want := map[string]proj{}
			for id, p := range pa {
				want[id] = p
			}
			for id, p := range pb {
				if cur, ok := want[id]; !ok || less(cur, p) {
					want[id] = p
				}
			}
			if projString(want) != projString(pab) {
				f.fail("union-newest", "merge(A,B) gives [%s], union at the newest incarnation is [%s]", projString(pab), projString(want))
			}
		}
		checkMonotone(f, A, B, ab, chAB, "pair")
		// idempotent
		aa, chAA := merged(A, A, opts)
		if projString(project(aa)) != projString(pa) {
			f.fail("idempotent", "merge(A,A) gives [%s], A is [%s]", projString(project(aa)), projString(pa))
		}
		if chAA && membersString(aa) == membersString(A) && aa.VersionVector.Equal(A.VersionVector) && aa.Epoch == A.Epoch && aa.Timestamp == A.Timestamp {
			// changed=true without a change is not forbidden by the property; count it
			vstat.Label("changed-without-change")
		}
		abab, _ := merged(ab, B, opts)
		if projString(project(abab)) != projString(pab) {
			f.fail("idempotent", "merging B a second time changed the membership: [%s] -> [%s]", projString(pab), projString(project(abab)))
		}
		// associative (all three non-empty so that no merge is the documented no-op)
		if bothNonEmpty && len(C.Members) > 0 {
			abc1, _ := merged(ab, C, opts)
			bc, _ := merged(B, C, opts)
			abc2, _ := merged(A, bc, opts)
			if projString(project(abc1)) != projString(project(abc2)) {
				f.fail("associative", "(A+B)+C gives [%s], A+(B+C) gives [%s]", projString(project(abc1)), projString(project(abc2)))
			}
			if identString(abc1) != identString(abc2) {
				f.fail("associative|incarnation", "(A+B)+C keeps the records [%s], A+(B+C) keeps [%s]", identString(abc1), identString(abc2))
			}
			// every order of three gives the same membership
			cb, _ := merged(C, B, opts)
			cba, _ := merged(cb, A, opts)
			if projString(project(cba)) != projString(project(abc1)) {
				f.fail("order-insensitive", "(A+B)+C gives [%s], (C+B)+A gives [%s]", projString(project(abc1)), projString(project(cba)))
			}
		}
		// arguments untouched
		if fullString(A) != aStr || fullString(B) != bStr || fullString(C) != cStr {
			f.fail("no-aliasing", "merging snapshots modified an input view")
		}
		// aliasing: mutate the result, the inputs must not move
		for _, m := range ab.Members {
			m.Status = cluster.MemberStatusDown
			if m.Labels != nil {
				m.Labels["x"] = "y"
			}
		}
		if fullString(A) != aStr || fullString(B) != bStr {
			f.fail("no-aliasing", "writing to a merged view's member changed an input view")
		}

		shared := 0
		disagree := false
		for id, p := range pa {
			if q, ok := pb[id]; ok {
				shared++
				if p != q {
					disagree = true
				}
			}
		}
		labels := []string{fmt.Sprintf("strategy:%d", opts.VersionConcurrentStrategy), "vv:" + [...]string{"Equal", "Before", "After", "Concurrent"}[A.VersionVector.Compare(B.VersionVector)]}
		if disagree {
			labels = append(labels, "disagree-on-shared-member")
		}
		if len(pab) > len(pa) {
			labels = append(labels, "adds-member")
		}
		vstat.Case(vstat.Hash(aStr, bStr, cStr, opts), disagree, labels, func() any {
			return map[string]any{"history": w.log, "A": aStr, "B": bStr, "merge(A,B)": projString(pab)}
		})
	})
}

// checkMonotone: recv = before merged with other.
func checkMonotone(f *failer, before, other, after *cluster.ClusterView, changed bool, where string) {
	pb, pa := project(before), project(after)
	for id, p := range pb {
		q, ok := pa[id]
		if !ok {
			f.fail("monotone|member-removed", "[%s] merge removed member %s", where, id)
			continue
		}
		if less(q, p) {
			f.fail("monotone|member-regressed", "[%s] member %s went from (g%d,c%d) to (g%d,c%d)", where, id, p.gen, p.clock, q.gen, q.clock)
		}
	}
	if after.Epoch < before.Epoch {
		f.fail("monotone|epoch", "[%s] epoch %d -> %d", where, before.Epoch, after.Epoch)
	}
	for id := range pa {
		if after.VersionVector.Get(id) < before.VersionVector.Get(id) {
			f.fail("monotone|version-vector", "[%s] version vector entry of member %s: %d -> %d", where, id, before.VersionVector.Get(id), after.VersionVector.Get(id))
		}
		if other != nil && len(other.Members) > 0 && after.VersionVector.Get(id) < other.VersionVector.Get(id) {
			f.fail("monotone|version-vector", "[%s] version vector entry of member %s is %d, the merged-in view had %d", where, id, after.VersionVector.Get(id), other.VersionVector.Get(id))
		}
	}
	differs := membersString(before) != membersString(after) || !before.VersionVector.Equal(after.VersionVector)
	if differs && !changed {
		f.fail("changed-flag", "[%s] membership or version vector changed but the merge returned changed=false: [%s] -> [%s]", where, fullString(before), fullString(after))
	}
}
