#!/bin/sh
# usage: tools/revalidate_seeds.sh [ids...]  - re-runs every stored seed's demonstration against /repo's current HEAD
# (scratch worktree, removed afterwards): the demo must pass without the change and fail with it.
set -u
export GOFLAGS=-mod=mod GOPROXY=off GOSUMDB=off GOTOOLCHAIN=local
wt=/tmp/wt-reval-$$
git -C /repo worktree remove --force $wt 2>/dev/null
git -C /repo worktree add --detach $wt HEAD >/dev/null 2>&1 || exit 9
ids="$*"; [ -n "$ids" ] || ids=$(ls -d /verif/seeded/C[0-9]* | xargs -n1 basename)
for id in $ids; do
  d=/verif/seeded/$id
  pkg=$(python3 -c "import json;m=json.load(open('$d/meta.json'));print(m['demo_placement'].split('/ ')[0])")
  run=$(python3 -c "import json,re;m=json.load(open('$d/meta.json'));r=m['demo_run'];print(re.search(r\"-run '([^']*)'\",r).group(1))")
  flags=$(python3 -c "import json,re;m=json.load(open('$d/meta.json'));r=m['demo_run'];print('-race' if ' -race' in r else '')")
  cd $wt; git checkout -q -- .; git clean -fdq
  if ! git apply --check $d/patch.diff 2>/dev/null; then echo "$id: PATCH DOES NOT APPLY"; continue; fi
  mkdir -p $pkg; sed "/^\/\/go:build/d" $d/demo_test.go.txt > $pkg/zz_seed_demo_test.go
  unshare -n sh -c "ip link set lo up; cd $wt && go1.26.8 test $flags -vet=off -count=1 -timeout 300s -run '$run' ./$pkg/" > /tmp/reval_orig.out 2>&1; r0=$?
  git apply $d/patch.diff
  unshare -n sh -c "ip link set lo up; cd $wt && go1.26.8 test $flags -vet=off -count=1 -timeout 300s -run '$run' ./$pkg/" > /tmp/reval_seed.out 2>&1; r1=$?
  st=OK; [ $r0 -eq 0 ] && [ $r1 -ne 0 ] || st="STALE(orig=$r0 seed=$r1)"
  echo "$id: $st"
done
cd /; git -C /repo worktree remove --force $wt
