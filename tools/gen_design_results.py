#!/usr/bin/env python3
"""Regenerates section 9 of DESIGN.md (between the markers) from known_findings.json,
seeded/*/meta.json, seeded/MATRIX.tsv and the hand-written text below."""
import json, os, re, glob, subprocess

V = "/verif"
BEGIN, END = "<!-- BEGIN RESULTS (tools/gen_design_results.py) -->", "<!-- END RESULTS -->"

HAND = r"""
## 9. As built: what the checks are, what they found, what was corrected

Sections 1-8 were written before the code. This section records the state at
the end of the session; where it differs from the plan above, this section is
right. Tables are generated from `known_findings.json`, `seeded/` and
`seeded/MATRIX.tsv`.

### 9.1 Differences from the plan

* **No hook is committed to /repo.** Yield points (C01) are inserted into a
  copy of the *current* `unbounded_mailbox.go` by an AST pass at check time,
  white-box accessors (`VerifActors`, `VerifFutures`, `VerifRegistry`,
  `NodeActor.VerifView`, ...) are overlay-only files; both are compiled in with
  `go test -overlay`. `MANIFEST.hooks.source_commits` is therefore empty and the
  suite without any guard is the suite as it is.
* **C15** is a pure differential (the property's own wording): one generated
  script, executed with every role local and then with the generated placement
  on the same two real systems; per-role observation records are compared. The
  expectation table only says when a step has settled and separates "harness
  broken" (all-local run deviates: inconclusive) from a verdict.
* **C18** has two regimes instead of one horizon (see 9.4): the transient
  forms of disagreement are permanent features of the protocol on this tree,
  so the strict oracle is applied where no timeout can fire and a
  permanence-based oracle where failure detection is active. The fidelity runs
  on real systems were not built: real remoting blocks `Tell` during
  reconnect back-off (KF-C14-1), which makes wall-clock cluster scenarios with
  crashes take minutes each and their verdicts timing-dependent.
* **C07** has four units (the fourth, `spawnstop`, is described under
  "Window units" below); the first three: the Start/Stop/cancel state machine of the plan
  (well-behaved actors, one gated actor), "any actor tree" (trees from the
  scenario engine: failing hooks, zombies, panics while terminating, slow
  terminators that finish before or only after the Stop timed out), and "with
  remoting" (real sockets: answering, silent, closed and unreachable peers).
  The last two were added after seeded changes showed the quantifier was only
  covered for well-behaved actors without remoting.
* **Real-time units** (C11, C14, C15) end the worker process at the first
  verdict (`VERIF_FAILFAST`): a failing case there costs up to two minutes and
  rapid's shrinker re-runs it dozens of times even with an expired shrink
  budget. The replay file is the failing case itself (JSON), which is small by
  construction. All other units shrink with rapid (20 s budget).
* **Window units** (C03, C05, C06 `window`; C07 `spawnstop`; C09 `supwindow`;
  C19 `handover`) were not in the plan. They came out of three seeded changes
  whose window was two adjacent statements wide (C06-1, C19-7, and the
  hand-over of a name in general): the random racing units either needed their
  whole budget or never got there. The units park one actor (or one outside
  caller of `ActorOf`) at a drawn statement boundary of the code path in
  question (3.2) and let the rest of the system and a drawn list of outside
  operations run ahead. The position is part of the generated case, so it
  shrinks and replays like everything else. `spawnstop` found KF-C07-5 in its
  first dozen cases.
* `VERIF_ONLY_UNIT=<unit>` restricts a run of the driver to one unit. It is for
  sensitivity experiments ("which unit catches this change?"); no registered
  command sets it.
* Native `go test -fuzz` is not used in any registered command: the C13
  enumeration over hostile constants found everything the exploratory fuzz
  runs found, and a fuzz campaign cannot be pinned to `VERIF_SEED`.

### 9.2 Domain decisions (what the generators deliberately do not produce)

| check | left out | why |
|---|---|---|
| C03/C05/C08/C09 | a one-for-all *Stop* as the system (root) strategy | it also terminates the harness's observer actor (a root child like any other); nothing can be observed afterwards |
| C08 | judging after the first cascade (a directive that itself triggers a failure) or two failures in flight | the documentation does not order concurrent supervision rounds; the model stops judging there instead of guessing (cases still run for C09's clauses) |
| C09 | a verdict on *whether* a failing OnPreRestart makes a zombie | code and comments disagree; both outcomes are accepted, only "not stuck" is required |
| C13 | container elements of zero wire size (e.g. `[]struct{}`) with a huge count | zero-size elements legitimately decode from a few bytes; allocation is bounded by the element size, not by the count |
| C14 | bytes injected between the handshake and the first real frame | `Handshake.Wait` does a single `Read`; a conforming peer never sends there. Injections happen in front of real frames |
| C17 | `IncrementVersion` / acting as join seed by a node that is not in its own view | unreachable through `NodeActor` (observed: a later merge prunes that entry without reporting `changed`; outside the property's quantifier "views reachable from runs of the protocol") |
| C17 | `MaxVersionVectorEntries` below the member count | truncation is the documented purpose of the option |
| C18 | crashes / restarts of seed nodes; crash or leave without restart when no timeout can fire | the property's quantifier names non-seed nodes; without timeouts nothing can remove a node |
| C20 | re-using a job reference while a job with that reference is active; the answer of `Cancel` / `Exists` exactly at a firing instant | unspecified in the scheduler's documentation (go-quartz dequeues before running); such keys are tainted and skipped |
| C11 | frames above 4 MiB; an `Ask` within 200 bytes of the limit | the receiver's documented limit; the ask envelope (future path as sender) is not sized exactly |
| C15 | a plain Go `error` as the reply to a *remote* Ask | not a wire message (no registration, no Codec); generated only as the result of a pipe whose target is local to the asker |

### 9.3 False alarms that were corrected (machinery, not findings)

Each of these was a check reporting a violation on the unchanged tree that
turned out to be the check's fault; none is listed as a known finding.

* C07: the bubble's own plumbing goroutines were counted as leaked goroutines
  (now recognised by their frames); the gate model was applied before the gated
  actor existed.
* C01: a handler-issued `Pause` after the script's final `Resume` looked like a
  lost wake-up; the epilogue now resumes until the pause count stops changing.
* C17: the generator produced views no run of `NodeActor` can reach (9.2).
* C12: a helper message type of the harness leaked into the enumerated
  registry; `arb.Equal` called `Addr` on unaddressable values.
* C05: the observer was killed by a generated root strategy (9.2); duplicate
  actor names made the provider flag ambiguous (now carried in the event);
  the count of Restarted events at shutdown depended on the shutdown race (the
  count clause was removed, order clauses stay).
* C05 (found by the thorough tier, 1 in ~600 000 racing cases each): a second
  ActorOf under a live name runs OnPrelaunch first and normally fails with
  AlreadyExists - unless the first life ends in between, then that instance is
  the next life (its OnLaunch comes without a further hook); and a successful
  OnPrelaunch after the predecessor's own OnKilled does not mean the spawn
  succeeds, because the path is only freed in the clean-up that follows. The
  state machine now accepts both, and "OnLaunch missing" is judged against the
  number of ActorOf calls that returned a reference.
* C02: the package watchdog took a 200 000-case pure ring run for a hang
  (inconclusive, thorough tier only); the ring tests now feed it.
* C08: the reference model diverged on cascades and concurrent failures (9.2);
  consultations of the library's default strategy are invisible to the probe
  strategy and are not expected in the trace.
* C09: a zombie that had been released by a kill was still classified "stuck".
* C06: kills issued by actors that were already dead were counted as issued;
  paths with several lives were compared across lives; the respawn-storm
  supervisor respawned during shutdown.
* C04: the "target already dead" boundary of the model was `<=` instead of `<`;
  two pipe mechanisms shared forwarders, so their results could not be told
  apart.
* C19: dead letters racing the publication were attributed to the wrong event
  (now matched by event id); a dead publisher publishes nothing by design.
* C20: see 9.2 (tainted keys, firing instant); calls are matched per actor.
* C11: the first near-limit sizes did not account for the envelope; sizes are
  now computed with the library's own envelope encoder.
* C14: injection right after the handshake (9.2).
* C15: the harness's own clean-up kills were recorded as observations.
* C13 (frame unit): a generated garbage body that happened to have the length
  of the valid envelope was counted as a valid frame ("valid frame not
  delivered"); validity is now carried by the generator, not inferred from the
  length.
* C05 (found by 8 x 1M-case soak runs, 2 cases): ActorOf runs the OnPrelaunch
  hook before it looks at the name, on the caller's goroutine; a racing spawn
  under the name of an actor that is being restarted can therefore put its hook
  between the old life's own OnKilled and the new life's OnRestarted (or between
  OnRestarted and the restart's own OnPrelaunch). The state machine took that
  for a new spawn and then reported "OnRestarted before the previous
  incarnation saw OnKilled". The restart's own hooks are now recognised by the
  instance they run on; a foreign hook is a late-spawn candidate.
* C09 "suspended until the decision": (1) an intermediate version of the clause
  was picked up by a thorough run that was already in progress (the harness is
  no longer edited while a tier runs); (2) found by the thorough tier: under a
  one-for-all Restart two rounds can overlap, so an actor that fails in OnLaunch
  is restarted by the directive of the earlier round (decided before it failed)
  and the *new* incarnation handles mail before the supervisor is consulted
  about the launch failure. That is a directive applied to one of its targets,
  not a failed actor running on; the window now ends at the next OnRestarted /
  OnLaunch of the actor.
* world: a gate first reached during clean-up blocked the bubble for ever
  (gates created during `Close` are created open).
* C09 "suspended until the decision", third correction (found by the thorough
  tier after the second): the directive that re-opens a freshly failed actor
  can also have been decided *before* it failed (a one-for-all Resume about a
  sibling, still queued). The exemption window now starts at the child's
  previous consultation, not at its failure.
* C09 supervision-window unit, first version of the "no dead letter" clause:
  a restart terminates the children of the restarted actor for good, so mail to
  them is rightly dead-lettered; only addressees that are alive at the end and
  none of whose ancestors was restarted or killed are judged.
* C18, uncovered when KF-C18-4 stopped matching: with a 5 s detection timeout
  the quiet phase was 60 s, but a node whose joins failed during the fault
  phase retries with a back-off of up to 30 s and may join 35 s after the
  faults stopped - inside the judged window ("running node missing
  transiently"). The known finding's signature had been hiding this harness
  error; the quiet phase is now at least 180 s.
* Window points inside a critical section made the bubble hang (a goroutine
  waiting for a mutex is not durably blocked for `synctest`): the instrumenter
  places none between Lock and Unlock.
* C18: the simulation was not a pure function of the case (the library ranges
  over maps, so the creation order of one handler's sends is random): latencies
  and losses became functions of (link, position), simultaneous events are
  ordered by a key instead of creation order; 300 generated cases x 3 runs give
  identical records. rapid reported "flaky test" before that.
* Driver: rapid's shrinker ignores an expired budget inside `minimizeBlocks`;
  with failing cases of ~100 s a seeded tree hit the 20 min deadline and was
  classified inconclusive. Real-time units now fail fast (9.1).

* **C11 `first-contact`, one run of 15 minutes that ended inconclusive
  (exit 2) on the unchanged tree under load** (round 5, machine shared with
  twelve seeding agents and a sweep). The goroutine dump showed the sender
  inside the library's reconnect loop waiting for a handshake answer, the
  receiver's accept actor idle for 14 minutes - and no goroutine of the
  harness's proxy: its accept loop had returned on an `Accept` error while
  the listening socket stayed open, so the kernel kept completing connections
  that nobody served. Machinery, not a finding: the loop now retries after
  5 ms unless the proxy was closed (`AcceptErrors` is reported in the
  statistics). The cause of the one `Accept` error was not established.

### 9.4 C18 in detail

`csim` runs 2-7 real `NodeActor`s; every inter-node message goes through
`serialize.EncodeEnvelopWithRemoting` / `DecodeEnvelopWithRemoting`. A handler
runs in its node's coroutine; `Ask(...).Result()` parks the coroutine until
the reply (delivered to a simulated future, not through the queue) or the
virtual timeout. The global `math/rand` is seeded per case (`//go:debug
randseednop=0` in the test binary).

At the start of the work a fault-free 3-node cluster with the default options
removed healthy members from +41 s on, for ever (KF-C18-3..6, one root cause:
gossip doubles as heartbeat and was suppressed whenever nothing changed). That
is repaired now (`6ee221e`, a heartbeat floor of a quarter of the detection
timeout); what remains is KF-C18-7: a node that crashed or left is removed by
the detectors and re-introduced by gossip, for ever. Therefore still two
regimes:

* **Regime S** (detection timeout one hour, longer than any scenario): the
  property's clauses as written, at the end of a 180 s quiet phase.
* **Regime L** (40 s default, 10 s, 5 s): the quiet phase lasts 8 x 1.5 x the
  timeout, at least 180 s (a node whose joins failed during the fault phase
  retries with a back-off of up to 30 s); over its second half a running node
  that is absent from a view in any sample, leaders that differ in any sample,
  membership or leader announcements that go on - all violations when every
  node that ever ran is still running; when a node died, the announcements
  that follow from its resurrection carry their own signature
  (`...|after-a-node-died`, KF-C18-9, same root cause as KF-C18-7); a dead
  node that is listed in every sample and was never announced as removed, and
  a restarted node whose entry is not its running incarnation's, are
  violations in any case.

Two genuine defects behind the restart clause were small and are fixed
(KF-C18-1, KF-C18-2); each needs its own history and each fix is necessary for
its history (checked by replaying both histories with either fix alone).

### 9.4b Checks that were strengthened because a seeded change was missed at first

| seed | what the check lacked | what was added |
|---|---|---|
| C17-1 | entries of one node with independent generation and logical clock | a "learn" operation (foreign incarnations) in the history generator |
| C12-2 | state carried between two encodings | a rejected encode interleaved with the round-trip, pooled writers |
| C13-1 | hostile bytes inside strings that are later parsed (whitespace, ASCII control) and the entry point that rebuilds references | both added to the corruption table / decoder list |
| C09-2 | "restart continued after a failed hook" | same-instance rule: no user code of the failed instance after the hook |
| C06-1 | a supervisor that respawns a child under the same name from its OnKilled handler | `RespawnKilled` probes and the respawn-storm unit |
| C19-2 | a subscription to the library's own ActorKilledEvent | event type K |
| C11-1 / C11-2 | concurrent first contact; frames within 8 bytes of the limit | two generator shapes (own unit for the first) |
| C14-1 | a frame that decodes but cannot be routed | six kinds of unroutable envelopes injected in front of real frames |
| C07-2 / C07-3 / C07-4 | misbehaving trees, timed-out stops, remoting | the tree and remoting units, goroutine count after timed-out stops (this found KF-C07-3) |
| C04-4 | askers that terminate through an abandoned or failed restart or a supervisor's Stop | four more death paths in the generator |
| C10-4 | named spawns that collide | named top-level and child spawns from all goroutines (this found KF-C10-2), registry-empty check after Stop |
| C09-3 | what a failed actor does before its supervisor has decided | clause "suspended until the decision" (sequential cases; windows with another decision in between are not judged) |
| C06-3 | clean-up code that spawns a child while the actor is already terminating | `LateSpawn` probes in C06 and the C07 tree unit |
| C13-3 | the frame reader itself (only envelopes and messages were decoded) | frame-level unit on the connection actor's own reader: hostile, off-by-one and limit-neighbourhood length fields |
| C16-3 | a reader that rejects a legal vector was reported as a harness failure (inconclusive) | it is a verdict of the "survives serialisation" clause |
| C20-4 | jobs armed by the new life of a restarted actor | every life arms drawn once / loop jobs in its OnLaunch handler (own message id and reference per life) |
| C03-3 | whether a "stashed" message is really in the stash | white-box stash length for undisturbed actors, stash-burst shape (m stashed, Unstash(n) for every relation of n to m) |
| C02-5 / C02-7 | stash order of messages that arrived through the scheduler; "system before user" when system messages arrive while user messages are being handled | scheduler-delivered stash messages; own unit `TestC02SystemFirst` (a handler enqueues k system + m user messages to itself or a peer mid-burst) |
| C03-6 | a zombie that was released must behave like any terminated actor (mail to it is dead-lettered, not swallowed) | released-zombie rule over the lives of a path |
| C04-6 / C04-7 | Ask without an explicit timeout (system-wide vs per-actor default); a second PipeTo on the same future | default timeouts in the generator and the model, `Pipe2` operation |
| C05-4 | actors assembled with the library's combination constructors (`NewComplexCombinationActor`, `NewPrelaunchActor`, ...: several hooks, one of them failing) | own unit `combo` over those constructors |
| C05-5 | a spawn by an actor that is already terminating | `LateSpawn` probes (spawn from the OnKill / OnKilled handler) in C05 |
| C07-5 / C07-6 | Stop of systems whose Start failed half-way, of cluster members (seed and joining), with stop timeouts shorter than the work | modes no-port / port-in-use / cluster-seed / cluster-joining in the remoting unit, own deadline around Stop (this found KF-C07-4) |
| C08-7 | the moment the mailbox is re-opened relative to the new life's OnLaunch | the "suspended until the decision" clause is shared by C08 and C09; the seed is caught by C09 (`seeded/CROSS.tsv`), C08's own clauses do not state it |
| C10-6 | FindActor on the path of a pending Ask (the registry holds futures under the same keys as actors) | `hold` lookups of the senders of pending Asks from every goroutine |
| C16-5 | vectors with more ids than the implementation's own thresholds (capacity hint and wire limit of 65535 entries) | unit `large`: the same laws on vectors of 1-65535 generated ids, unions on both sides of the threshold |
| C12-5 | state carried between two decodes (pooled readers keep a sticky error) | a damaged copy of the encoding is decoded first, through the same entry points and a pooled reader |
| C19-6 / C19-7 | a subscriber that terminates as a zombie; a successor under the same name that subscribes inside the predecessor's clean-up (a window of two adjacent statements) | unit `handover`: the termination / restart chain is parked at a drawn statement boundary (window points inserted into a copy of killed_handler.go at check time) while the name is spawned again and others subscribe / publish |
| C11-6 | a message the receiver cannot decode among deliverable ones on a healthy link | every k-th Tell is rejected by the receiving side's reader; the others must arrive, in order |
| C14-7 | the retry budget of a peer across two outages | second outage after a survived first one (own unit `outages`) |
| C15-4 | an encode failure before built-in remote operations (pooled writers keep a sticky error) | `badtell` operation: a burst of unencodable messages to the other system, in both runs |
| C18-5 | a configured gossip rate limit | regime S, one case in five: 1-3 messages per second, burst 1-2, on every node |
| C06-5 | one-shot jobs that have fired before the kill (stale references in the job table) next to live periodic ones | `jobonce` set-up operation and an optional 1.5 s of virtual time before the kills |
| C09-7 | restart hooks of actors assembled with `NewComplexCombinationActor` | own unit `combo` (reference model over 1-4 components with succeeding / failing OnPreRestart, OnRestarted, OnPrelaunch) |
| C09-9 | mail queued behind the *second* of two overlapping sibling failures; "delivered, not dead-lettered" | supervision-window unit: either child fails first, later failures carry queued mail, clause "only immediate decisions and no kill => no dead letter for an undisturbed addressee" (this found KF-C09-7 on the unchanged tree) |
| C04-9 | a forwarder whose delivery is slow | own real-clock unit `slowfwd`: pending future piped to a forwarder on a system that refuses connections |
| C04-10 | an asker that dies and is spawned again under its name while replies to the old incarnation are due | `Respawn` of ask-only actors in the virtual unit |
| C07-7 | a send that is inside the reconnect back-off at the moment of Stop | three fixed shapes in front of the generated cases of the remoting unit, `unreachable` drawn more often |
| C05-7 | a restart directive that also reaches the descendant whose failure was escalated | caught by C08 (`targets|incarnations`, `seeded/CROSS.tsv`); C05's per-actor lifecycle stays legal under this change |
| C12-7 / C12-9 | the short length prefixes at their boundary (256 / 65536 bytes); a codec-only message nested in a carrier whose encoding is zero bytes | own test `TestC12LengthPrefixes`; `EmptyMsg` and codec-only messages in interface-typed fields |
| C17-8 | two incarnations with the same generation and logical clock (the order-insensitivity was only checked on that projection) | commutativity / associativity also on the records (generation, clock, start stamp) |
| C20-7 | the place of a scheduled message in the receiver's queue | own unit `mailbox` (busy receiver, messages queued before and sent after the firing instant) |
| C11-7 | a dialler that does not wait for the answer to its handshake (first frame coalesced with the handshake at the acceptor, whose `Handshake.Wait` keeps only the address of what one `Read` returned) | proxy plan `HoldHandshake` (one case in four, 5-60 ms, one fixed case): the dialler's handshake is held back and handed over in one piece with whatever the dialler sent meanwhile; on a conforming tree nothing is sent meanwhile, so it is only a delay (`C11/exactly-once\|lost`) |
| C14-9 | a frame of exactly 4 MiB (the largest legal one) | C11's near-limit shape now reaches the limit itself (d = 0..7 below it) and reports the loss (`seeded/CROSS.tsv`); C14 got limit-sized undecodable injected frames, but under C14's oracle the changed receiver closes the connection and the sender recovers by reconnecting, which C14 accepts - the loss of a legal frame on a healthy link is C11's clause |
| C03-9 | the stash of an actor across a restart (the white-box stash clause skipped every restarted actor) | restarted actors that were spawned once and are running at the end: stash length >= stashed-and-never-returned minus dead-lettered (`C03/lost\|stash-dropped\|restarted`); a first version counted a message twice when two instances had stashed it (false alarm at 4 of 4 quick seeds on the unchanged tree, corrected before it was committed: ids are counted once) |
| C04-11 | the content of a PipeResult forwarded by a PipeTo that raced the completion (only the count was checked in the real-clock unit) | a PipeResult with neither reply nor error is a violation in C04's real-clock unit and in C10's operation 17 |
| C13-9 | a typed-nil `*actor.Ref` in an `ActorRef` field (the writer guards against it by reflection; `arb` produced nil and valid references only) | the encode unit (`NilPointers`) puts a nil `*actor.Ref` into *exported* reference fields in one draw of six; `arb.Equal` treats it as nil. A first version also filled unexported fields and reported `singletonForwardedMessage.sender` on the unchanged tree: that field is only ever filled from `ctx.Sender()`, an implicit precondition every caller respects - a false alarm of the generator, corrected before it was committed |
| C10-9 as a C06 change (a round-5 agent working on C06 re-invented it: `removeChild` compares references with `Equals`, so the late OnKilled of a predecessor removes the successor registered under the same name from its parent's child table; the stored patch is identical, C06's quick check missed it because paths with several lives are excluded from the kill unit's oracle) | a successor that is registered while its predecessor's OnKilled is still queued at the parent, followed by a kill of the parent | unit `replace`: the supervisor replaces its named child inside one handler (kill, wait in virtual time until `FindActor` fails, spawn the same name), then the supervisor or its parent is killed; nothing at or below the killed actor may stay registered, every life terminated, one OnKilled per life at the supervisor, child before supervisor (`C06/subtree-terminated\|replaced-child`). A first version did not advance virtual time while the handler polled and reported the unchanged tree (the handler was still waiting when the kill arrived): corrected before it was committed |
| (own mutation `seeded/selfmade/C10-M1.diff`: the completed-check of `Future.PipeTo` hoisted in front of the lock) | C10 named `Future.PipeTo` in its domain but no goroutine called it; the sequential C04 model cannot see a registration lost between the check and the lock | operation 17: `Ask` + `PipeTo` from a second goroutine racing reply / timeout / `Close`, three collector actors outside the pool of victims, oracle "one PipeResult per piped future, no successful result twice" (`C10/pipe-exactly-once`; the mutation is caught in the first quick shard); shared `Ref` objects are also read (`Equals/GetPath/GetAddress/ToActorRefs`) while others send through them |
| C03-8 | a lost wake-up inside the mailbox (a window of a few instructions between the counter read and the idle store) | caught by C01, whose unit owns the mailbox's schedule (`lost-wakeup`, `seeded/CROSS.tsv`); C03's free-running units hit the window in some runs only (then the case cannot be left: `bubble-deadlock`) |

Seeded changes of the last round that the checks still miss (listed as **missed** in 9.8; the reason each is hard is stated):

* **C18-8** (a merged-in entry no longer takes the sender's `LastSeen`: a dead node is re-adopted with a fresh timestamp and circulates for ever). The symptom - membership announcements that go on after a node died - is the signature of the known finding KF-C18-9 / KF-C18-7 on the unchanged tree (`...|after-a-node-died`), so the check cannot tell "more of the same" from the known behaviour. Separating them needs a quantitative clause (the dead node is absent from every view during the last part of a long quiet phase) and a study of how long the known resurrection lasts on the unchanged tree.
* **C18-9** (token-bucket refill rounded down while the refill instant advances: a node that asks more often than once per 1/rate never gossips again). The generator sets a rate limit only in the regime without failure detection (regime S, 1-3 messages per second, where interval x rate >= 1), so the refill never rounds to zero and a silent node cannot be removed. Catching it needs rate limits in the regime with failure detection, with rates chosen so that the unchanged tree never starves a peer of heartbeats - a soundness question that was not settled.


### 9.5 Known findings (genuine, not repaired) and why they are not small

* **KF-C14-1** Tell blocks the caller during reconnect back-off. Repair =
  outbound queue + writer goroutine per peer: a redesign of `remoting.Mailbox`
  (ordering, back-pressure and dead-letter semantics all change).
* **KF-C18-7 / KF-C18-9** removed members are resurrected because merges never
  remove; every round is announced as a membership change. Repair = tombstones
  (or removal by version-vector dominance) and a defined meaning for the
  `LastSeen` of an entry learnt from a third party: a change of the membership
  protocol. (KF-C18-3..6 were first listed here, too, with the note that "always
  gossip on the periodic tick" alone makes resurrection worse; the repair that
  was finally made - a heartbeat floor per target, a quarter of the detection
  timeout - does not: 320 000 thorough cases show the same rate of
  resurrection as before and none of the four healthy-cluster signatures.)

"""

def first_sentence(s, n=260):
    s = " ".join(s.split())
    return s if len(s) <= n else s[:n].rsplit(" ", 1)[0] + " ..."

def main():
    kf = json.load(open(f"{V}/known_findings.json"))["findings"]
    out = [BEGIN, HAND]
    out.append("### 9.6 Repairs in /repo (one `fix:` commit each)\n")
    out.append("| finding | property | commit | what failed |\n|---|---|---|---|")
    for f in kf:
        if f["status"] != "fixed":
            continue
        what = re.sub(r"^fixed: property=\S+ \S+ ", "", f["what"])
        out.append(f"| {f['id']} | {f['property']} | `{f.get('commit','')}` | {first_sentence(what, 330).replace('|','/')} |")
    out.append("\nThe unedited existing suite was re-run after every commit (network tests in a private network namespace; `TestContext_Supervision/one_for_all_graceful_restart` fails in about 1 of 15 runs with and without any of these commits and is in the baseline's flaky list).\n")
    out.append("### 9.7 Known findings listed in `known_findings.json`\n")
    out.append("| finding | property | signature |\n|---|---|---|")
    for f in kf:
        if f["status"] == "known":
            out.append(f"| {f['id']} | {f['property']} | `{f['signature'].replace('|', chr(92)+'|')}` |")
    tp = f"{V}/THOROUGH.tsv"
    if os.path.exists(tp):
        out.append("\n### 9.7b Thorough tier, last run per property\n")
        out.append("One thorough run per property at `VERIF_SEED=1` (`tools/run_all.sh thorough`, then re-runs of the checks whose harness or whose part of /repo changed afterwards). The commit is the /repo HEAD the run saw; later commits touch other packages than the ones that check exercises (actor supervision: 3317c9d, cluster: fad7336 and 6ee221e). Violations found by this tier are the entries of 9.3 (harness) and 9.6 (KF-C09-7, KF-C18-8) marked as found by the thorough tier; every row below is the run after the correction. Further thorough runs on the final tree held as well and are not in the table: `VERIF_SEED=2` for C03, C05, C06, C08, C09 and C19, and `VERIF_SEED=2` and `3` for each window unit alone (`VERIF_ONLY_UNIT`).\n")
        out.append("| property | /repo commit | evaluations | distinct non-trivial | wall (s) | result |\n|---|---|---|---|---|---|")
        for l in open(tp).read().splitlines()[1:]:
            c = l.split("\t")
            if len(c) >= 6:
                out.append("| " + " | ".join(c[:6]) + " |")
    # seeds
    out.append("\n### 9.8 Sensitivity: seeded changes and which check catches them\n")
    out.append("Fresh sub-agents (given one property's text and a scratch worktree, nothing from /verif) produced changes that compile, pass the existing suite and break the property; each was confirmed here (demonstration passes on the current HEAD, fails with the change; `tools/revalidate_seeds.sh` repeats that after every fix commit). `tools/try_all_seeds.sh` applies each to a scratch worktree of /repo's HEAD and runs the property's registered quick command against that tree (`VERIF_REPO`). Three to five rounds of agents were run per property (the fifth, for twelve properties, produced 24 changes: 11 identical to stored ones - several of them stored under a neighbouring property - and 13 new ones); second-round agents frequently re-invented a first-round change (the swapped provider/behaviour reset, the escalation-chain loop variable, the unlocked GetOrCreate, the hoisted completed-check of a future): such duplicates are stored like the others when their demonstration differs, and dropped when the patch is identical (C05 round 2). 'caught by' is the first signature reported.\n")
    rows = {}
    mp = f"{V}/seeded/MATRIX.tsv"
    if os.path.exists(mp):
        for l in open(mp).read().splitlines()[1:]:
            p = l.split("\t")
            if len(p) >= 6:
                rows[p[0]] = p
    cross = {}
    cp = f"{V}/seeded/CROSS.tsv"
    if os.path.exists(cp):
        for l in open(cp).read().splitlines():
            q = l.split("\t")
            if len(q) >= 3:
                cross[q[0]] = (q[1], q[2])
    out.append("| seed | change (one line) | quick verdict | caught by | wall |\n|---|---|---|---|---|")
    for d in sorted(glob.glob(f"{V}/seeded/C*")):
        sid = os.path.basename(d)
        try:
            m = json.load(open(d + "/meta.json"))
        except Exception:
            m = {}
        what = first_sentence(m.get("what", ""), 200).replace("|", "/")
        r = rows.get(sid)
        if r:
            verdict = {"1": "VIOLATION", "0": "**missed**", "2": "inconclusive"}.get(r[3], r[3])
            if r[3] == "0" and sid in cross:
                verdict = f"missed by {r[1]}, VIOLATION in {cross[sid][0]}"
                r = r[:4] + [cross[sid][1]] + r[5:]
            sig = r[4].replace('|', '\\|')
            out.append(f"| {sid} | {what} | {verdict} | `{sig}` | {r[5]} s |")
        else:
            out.append(f"| {sid} | {what} | (not yet swept) | | |")
    dropped = f"{V}/seeded/dropped/README.md"
    if os.path.exists(dropped):
        out.append("\nDropped (no longer breaking changes after a fix commit):\n")
        out.append(open(dropped).read().strip())
    out.append("\n" + END)
    text = "\n".join(out)
    p = f"{V}/DESIGN.md"
    s = open(p).read()
    if BEGIN in s:
        s = s[:s.index(BEGIN)] + text + s[s.index(END) + len(END):]
    else:
        anchor = "## Appendix A"
        i = s.index(anchor)
        # keep the separator line before the appendix
        s = s[:i] + text + "\n\n---------------------------------------------------------------------------\n\n" + s[i:]
    open(p, "w").write(s)
    print("DESIGN.md section 9 regenerated:", len(text.splitlines()), "lines")

if __name__ == "__main__":
    main()
