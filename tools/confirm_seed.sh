#!/bin/sh
# usage: tools/confirm_seed.sh <PID> <k> <pkgdir> <run-regex> [extra test pkgs]
# Confirms a seeded change in its scratch worktree: demo passes on the original tree, fails with
# the change, the touched package's existing tests still pass; then stores it under /verif/seeded/.
set -u
pid="$1"; k="$2"; pkg="$3"; re="$4"; extra="${5:-}"
wt=/tmp/wt-$pid; sd=$wt/SEED/$k
export GOFLAGS=-mod=mod GOPROXY=off GOSUMDB=off GOTOOLCHAIN=local
cd $wt || exit 9
git checkout -q -- . 
demo=$(ls $sd/*_test.go 2>/dev/null | head -1)
[ -n "$demo" ] || { echo "no demo test file"; exit 9; }
mkdir -p $pkg; sed "/^\/\/go:build/d" "$demo" > $pkg/zz_seed_demo_test.go
unshare -n sh -c "ip link set lo up; go1.26.8 test ${SEED_TEST_FLAGS:-} -vet=off -count=1 -timeout 300s -run '$re' ./$pkg/" > /tmp/confirm_orig.out 2>&1; r_orig=$?
git apply $sd/patch.diff || { echo "patch does not apply"; rm -f $pkg/zz_seed_demo_test.go; rmdir $pkg 2>/dev/null; exit 9; }
go1.26.8 build ./... > /tmp/confirm_build.out 2>&1; r_build=$?
unshare -n sh -c "ip link set lo up; go1.26.8 test ${SEED_TEST_FLAGS:-} -vet=off -count=1 -timeout 300s -run '$re' ./$pkg/" > /tmp/confirm_seed.out 2>&1; r_seed=$?
rm -f $pkg/zz_seed_demo_test.go; rmdir $pkg 2>/dev/null
touched=$(git diff --name-only | xargs -n1 dirname | sort -u | sed 's|^|./|' | tr '\n' ' ')
unshare -n sh -c "ip link set lo up; go1.26.8 test -vet=off -count=1 -timeout 900s $touched $extra" > /tmp/confirm_suite.out 2>&1; r_suite=$?
git checkout -q -- .
echo "demo on original: exit $r_orig ; build with change: exit $r_build ; demo with change: exit $r_seed ; existing tests ($touched $extra) with change: exit $r_suite"
tail -3 /tmp/confirm_suite.out
if [ $r_orig -eq 0 ] && [ $r_build -eq 0 ] && [ $r_seed -ne 0 ]; then
  dst=/verif/seeded/$pid-$k; mkdir -p $dst
  cp $sd/patch.diff $dst/patch.diff; cp "$demo" $dst/demo_test.go.txt
  python3 - "$sd/meta.json" "$dst/meta.json" "$pkg" "$re" "$r_orig" "$r_seed" "$r_suite" "$touched $extra" <<'PY'
import json,sys
src,dst,pkg,re_,ro,rs,rsu,touched=sys.argv[1:9]
try: m=json.load(open(src))
except Exception as e: m={"note":"agent meta unreadable: %s"%e}
m["demo_placement"]=pkg+"/ (copy demo_test.go.txt there as a _test.go file)"
m["demo_run"]="go1.26.8 test -vet=off -count=1 -run '%s' ./%s/"%(re_,pkg)
m["confirmed_by_me"]={"demo_on_original_exit":int(ro),"demo_with_change_exit":int(rs),"existing_tests_with_change_exit":int(rsu),"existing_tests_run":touched.strip(),"where":"scratch worktree /tmp/wt-* (removed afterwards)"}
json.dump(m,open(dst,"w"),indent=1,ensure_ascii=False)
PY
  echo "stored $dst"
else
  echo "NOT CONFIRMED"
fi
