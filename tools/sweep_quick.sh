#!/bin/sh
# usage: tools/sweep_quick.sh <tier> <seed>...   - silence sweep on the unchanged tree from the directory it is started in
# (meant for `vp run`: uses the snapshot as VERIF_DIR, keeps evidence/work/replays inside it; prints one line per check)
tier="$1"; shift
here=$(pwd)
export VERIF_DIR="$here" VERIF_WORKROOT="$here/.work-sweep" VERIF_EVIDENCE_DIR="$here/.ev-sweep" VERIF_REPLAYS_DIR="$here/.rp-sweep"
mkdir -p "$VERIF_WORKROOT" "$VERIF_EVIDENCE_DIR" "$VERIF_REPLAYS_DIR"
for seed in "$@"; do
  for id in $(python3 -c "import json;print(' '.join(c['property_id'] for c in json.load(open('MANIFEST.json'))['checks']))"); do
    t0=$(date +%s)
    VERIF_SEED=$seed ./run.sh $id $tier > "$here/.ev-sweep/$id.$seed.out" 2>&1; rc=$?
    t1=$(date +%s)
    echo "seed=$seed $id rc=$rc $((t1-t0))s $(grep -c '^KNOWN-FINDING' "$here/.ev-sweep/$id.$seed.out")kf $(grep -E '^(VIOLATION|INCONCLUSIVE)' "$here/.ev-sweep/$id.$seed.out" | head -2 | cut -c1-300)"
  done
done
rm -rf "$VERIF_WORKROOT"
