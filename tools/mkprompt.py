#!/usr/bin/env python3
import json, sys
pid = sys.argv[1]; n = sys.argv[2] if len(sys.argv) > 2 else "2"
props = {json.loads(l)['id']: json.loads(l) for l in open('/verif/properties.jsonl')}
p = props[pid]
t = open('/verif/tools/seed_prompt.txt').read()
print(t.replace('{WT}', '/tmp/wt-'+pid).replace('{PID}', pid).replace('{TITLE}', p['title']).replace('{STATEMENT}', p['statement']).replace('{QUANT}', p['quantifier']['text']).replace('{N}', n))
