#!/bin/sh
# usage: tools/run_all.sh <quick|thorough> [seed]  - runs every registered check on the current tree; prints one line per check
tier="${1:-quick}"; seed="${2:-1}"
cd /verif
for id in $(python3 -c "import json;print(' '.join(c['property_id'] for c in json.load(open('/verif/MANIFEST.json'))['checks']))"); do
  t0=$(date +%s)
  VERIF_SEED=$seed ./run.sh $id $tier > /tmp/run_all.$id.out 2>&1; rc=$?
  t1=$(date +%s)
  echo "$id rc=$rc $((t1-t0))s $(grep -E '^C[0-9]+ tier' /tmp/run_all.$id.out | cut -c1-90) $(grep -c '^KNOWN-FINDING' /tmp/run_all.$id.out)kf $(grep -E '^(VIOLATION|INCONCLUSIVE)' /tmp/run_all.$id.out | head -2 | cut -c1-200)"
done
