#!/bin/sh
# usage: tools/try_all_seeds.sh [tier]  - runs every stored seed through the check of its property; writes seeded/MATRIX.tsv
tier="${1:-quick}"
out=/verif/seeded/MATRIX.tsv
echo "seed	property	tier	exit	signature	wall_s" > $out
for d in /verif/seeded/C*; do
  s=$(basename $d); id=${s%-*}
  t0=$(date +%s)
  r=$(/verif/tools/try_seed.sh $d/patch.diff $id $tier 2>&1)
  t1=$(date +%s)
  ex=$(echo "$r" | sed -n 's/^exit=//p')
  sig=$(echo "$r" | sed -n 's/^violation signature=//p' | head -1)
  echo "$s	$id	$tier	$ex	$sig	$((t1-t0))" >> $out
done
git -C /repo status --short
