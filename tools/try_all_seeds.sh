#!/bin/sh
# usage: tools/try_all_seeds.sh [tier] [seed ids...]  - runs stored seeds through the check of their property.
# Without ids: every seed, seeded/MATRIX.tsv is rewritten; with ids: those rows are replaced / appended.
tier="${1:-quick}"; [ $# -gt 0 ] && shift
out=/verif/seeded/MATRIX.tsv
if [ $# -eq 0 ]; then
  set -- $(ls -d /verif/seeded/C[0-9]* | xargs -n1 basename)
  echo "seed	property	tier	exit	signature	wall_s" > $out
fi
for s in "$@"; do
  d=/verif/seeded/$s; id=${s%-*}
  t0=$(date +%s)
  r=$(/verif/tools/try_seed.sh $d/patch.diff $id $tier 2>&1)
  t1=$(date +%s)
  ex=$(echo "$r" | sed -n 's/^exit=//p' | head -1)
  sig=$(echo "$r" | sed -n 's/^violation signature=//p' | head -1)
  grep -v "^$s	" $out > $out.tmp; mv $out.tmp $out
  echo "$s	$id	$tier	$ex	$sig	$((t1-t0))" >> $out
done
(head -1 $out; tail -n +2 $out | sort) > $out.tmp; mv $out.tmp $out
git -C /repo status --short
