#!/usr/bin/env python3
"""Regenerates /verif/MANIFEST.json from the table below (kept in one place so that the
file stays valid at all times). Run: python3 tools/gen_manifest.py"""
import json, os, sys

HERE = os.path.dirname(os.path.dirname(os.path.abspath(__file__)))

CHECKS = {}

def check(pid, category, text, note, technique, design_ref, engine="vcheck"):
    CHECKS[pid] = dict(category=category, text=text, note=note, technique=technique, design_ref=design_ref, engine=engine)

check("C01", "exploration",
      "Stateless model checking of the real UnboundedMailbox code under a generator-owned scheduler: random/sticky schedules drawn by rapid plus bounded-exhaustive enumeration of ALL schedules with <=2 preemptions over a finite scenario family; oracle = invariants O1-O6 (one handler at a time, exactly-once, no lost wake-up at quiescence, pause semantics, no spin, per-sender FIFO). Evidence is reported in the exploration keys (evaluations = executed schedules).",
      "Trusted: testing/synctest quiescence, sequential consistency of sync/atomic, linearizability of RingQueue under its mutex with one consumer, and that the AST instrumenter places a yield before every shared access of unbounded_mailbox.go (it is regenerated from the working tree at each run). Exhaustive only for the stated preemption bound and scenario family.",
      "property-based testing with a controlled scheduler (rapid-drawn schedules + preemption-bounded exhaustive schedule enumeration) against history invariants",
      "DESIGN.md §4 C01, §3.2-3.4")
check("C07", "exploration",
      "Generated Start/Stop/cancel histories (sequential and concurrent groups) on real systems inside a synctest bubble, judged by a reference state machine (linearizability of each concurrent group), exact virtual-time return instants, all-actors-terminated and a goroutine-leak scan of the bubble; hangs on a mutex are classified from goroutine stacks.",
      "Trusted: testing/synctest virtual clock; interleavings inside a concurrent group are the Go scheduler's (sampled, not owned). Remoting-enabled systems are covered by the rlab checks.",
      "model-based property testing (rapid) against a reference state machine, in virtual time; generated trees, real sockets for the remoting unit, and a generated position of a top-level spawn racing Stop (spawnstop unit)",
      "DESIGN.md §4 C07")

check("C16", "exploration",
      "Generated triples of version vectors (incl. absent vs explicit-zero entries and counters at 2^63-1) checked against the lattice laws, a pointwise reference order, operand snapshots and a wire round trip.",
      "Random sampling of an infinite domain: small id pools and hostile counter constants make the interesting classes frequent (class histogram in evidence), absence is not shown.",
      "property-based testing (rapid): algebraic laws + reference model + round trip",
      "DESIGN.md §4 C16")
check("C17", "exploration",
      "Generated node histories produce reachable cluster views; every merge is checked for monotonicity and the changed flag, and drawn triples are merged in all orders and compared on the projection member -> (generation, logical clock).",
      "Reachability is modelled by re-enacting what NodeActor does with the exported ClusterView/NodeState API (bootstrap, join + generation bump, restart, suspicion, removal); the real NodeActor protocol is exercised by C18.",
      "model-based property testing (rapid): generated histories + algebraic laws on a projection",
      "DESIGN.md §4 C17")

check("C15", "exploration",
      "Generated scripts of every ref-taking operation (Tell, Ask, Ping, Watch, Unwatch, Kill, PipeTo, Future.PipeTo, Scheduler.Once) are executed twice on two real systems over loopback TCP - all roles local, then placed on either system by the generator - and the per-role observation records are compared (differential oracle), with a registered message and with a user Codec.",
      "Sampling of scripts and placements; real clock with patience-only waits; error identity compared by class (what the wire carries).",
      "property-based testing (rapid): differential oracle local vs remote over generated operation scripts",
      "DESIGN.md §4 C15")

check("C18", "exploration",
      "Generated scenarios (join orders, seed layouts, timer phases, latencies, losses, partitions, connection resets, crashes, restarts, leaves) are run with real NodeActor values in a deterministic virtual-time simulation that uses the library's wire codec; after the faults stop the clauses of the property are judged on every node's view and event stream over a bounded horizon.",
      "'Eventually' is bounded (180 s without timeouts, 12 detection timeouts with them); the actor runtime and TCP are replaced by their contracts; with failure detection active only the permanent forms of disagreement are violations, the transient ones are known findings KF-C18-3..7 (two root causes, not small patches).",
      "model-based / stateful property testing (rapid) of the real protocol code on a simulated network and clock; invariant-over-history oracle",
      "DESIGN.md §3.7, §4 C18")

check("C12", "exploration",
      "Generated values of every registered wire type (registry enumerated at run time), envelopes and primitive programs are round-tripped through the real writer/reader and compared with a semantic equality; the reader must consume exactly what the writer produced.",
      "Sampling, not exhaustive; equality normalisations are listed in the evidence assumptions and DESIGN.md §3.8.",
      "property-based testing (rapid): round-trip oracle over type-directed generators",
      "DESIGN.md §4 C12")
check("C13", "fault_enumeration",
      "For each sampled valid encoding every truncation and every single-byte corruption from a hostile table is enumerated against every decoding entry point; encoders are fed values from a grammar of unsupported kinds and nil shapes. Oracle: error or value, never a panic / worker death / disproportionate allocation / modified destination.",
      "Exhaustive per sampled encoding only (truncations, table-driven byte replacements); the encodings themselves and the unsupported values are sampled. Native go fuzzing is not used in the registered tiers (cannot be pinned to a seed).",
      "fault enumeration over generated encodings + property-based testing (rapid) with crash/allocation oracles",
      "DESIGN.md §4 C13")

check("C05", "exploration",
      "Generated actor trees, failure plans and scripts run on the real runtime in virtual time; the complete per-actor behaviour trace is judged by a lifecycle state machine (OnLaunch first, nothing after own OnKilled, restart = new incarnation that starts with its own OnLaunch, behaviour reset, instance per provider) and by OnLaunch accounting over all actors.",
      "Sampling of scenarios; sequential mode is deterministic, racing mode samples Go-scheduler interleavings. Trusted: testing/synctest quiescence.",
      "model-based property testing (rapid) of generated histories against a per-actor lifecycle state machine, in virtual time; plus generated positions of a parked termination chain (window unit)",
      "DESIGN.md §4 C05, §3.5")

check("C03", "exploration",
      "Generated histories of spawn / tell / kill / failure+decision / restart / stash with drawn target states and reference provenance run on the real runtime in virtual time; a conservation oracle over the complete trace and the dead-letter stream decides, at exact quiescence, that no message id vanished or was duplicated; a stopped system must stay quiescent.",
      "Sampling of scenarios and (in racing mode) of interleavings; 'never delivered' is decided by synctest quiescence, not by a timeout.",
      "model-based property testing (rapid): conservation invariant over generated histories, in virtual time with a quiescence oracle; plus generated positions of a parked termination chain (window unit)",
      "DESIGN.md §4 C03, §3.5")

check("C08", "exploration",
      "The decision x strategy x failure-site x tree-shape matrix is generated; after every operation the real runtime (settled in virtual time) is compared with a reference model of the supervision effect table: consultations, failure events, live set, incarnations, touched actors, delivery count, state counter.",
      "Exact for single failures and escalation chains; a case is no longer judged from its first cascade / concurrent failure on (outcome depends on the scheduler). Sampling of the matrix, class histogram per (decision, strategy) cell in evidence.",
      "model-based property testing (rapid): reference model of the supervision effect table vs the real runtime, sequentially settled in virtual time",
      "DESIGN.md §4 C08")

check("C09", "exploration",
      "Generated failure plans (every decision and strategy, bursts with the failure at every position, concurrent failures, failing restart hooks) run on the real runtime in virtual time; at exact quiescence the mailbox pause flag and lifecycle state of every registered actor are read white-box, the queued burst is checked for conservation / order / delivery, probes sent afterwards must be handled, zombies must stay silent and be released by Kill.",
      "Sampling of scenarios; 'stuck' is decided by synctest quiescence plus white-box state, not by a timeout. Concurrent-failure cases check only the schedule-independent clauses.",
      "property-based testing (rapid) with history invariants and white-box state reads at a quiescence oracle, in virtual time; plus generated positions of a parked actor on the supervision path (supwindow unit) and a reference model for combination actors",
      "DESIGN.md §4 C09")

check("C06", "exploration",
      "Generated trees, watcher / subscription / job set-ups and kill sequences (repeated, concurrent, racing spawns and late watchers) run on the real runtime in virtual time; global history invariants over the trace, the event stream and white-box tables decide subtree termination, children-first order, exactly-once notification and release of path / subscriptions / jobs.",
      "Sampling of scenarios and interleavings; quiescence by testing/synctest.",
      "property-based testing (rapid): history invariants over generated kill scenarios, virtual time, white-box table reads; plus generated positions of a parked termination chain (window unit)",
      "DESIGN.md §4 C06")

check("C04", "exploration",
      "Generated Ask / reply / timeout / asker-death / Close / PipeTo histories on a virtual clock are compared with a reference model of the earliest completing cause (exact instants, exact values, every waiter, every forwarder, empty tables afterwards); a real-clock stress with nanosecond timeouts, PipeTo on another thread and dying askers runs under the race detector with the same value / exactly-once / no-registration oracles.",
      "Virtual-time part: sampling of histories, ties accepted either way. Real-clock part: schedule sampling by the Go runtime; races are found only if they occur in a run.",
      "model-based property testing (rapid) in virtual time + randomised real-thread stress under -race with value / exactly-once / leak oracles",
      "DESIGN.md §4 C04")

check("C02", "exploration",
      "The ring queue is checked as a state machine against a slice model (plus an exhaustive boundary enumeration for sizes 1-9 and a multi-producer run under -race); on the real runtime bursts sized around every growth boundary from several senders into a blocked target, with kills inserted mid-burst, are judged by per-sender order / kill-overtaking invariants, and stash scripts by a queue+stash reference model.",
      "Sampling, except the ring boundary enumeration (exhaustive for sizes 1-9). Concurrent-sender cases rely on the Go scheduler for interleavings; the invariants hold on all of them.",
      "model-based property testing (rapid state machine + reference models) and history invariants in virtual time",
      "DESIGN.md §4 C02")

check("C19", "exploration",
      "Generated Subscribe / Unsubscribe / UnsubscribeAll / Publish / kill / restart scripts over several actors and event types run on the real runtime in virtual time; a reference model of the subscriber sets decides every publication (exactly the subscribers, exactly once), plus order per publisher, white-box table contents at quiescence and a final probe publication per type.",
      "Sequential cases are exact; racing cases check the schedule-independent clauses only. Sampling of scripts and interleavings.",
      "model-based property testing (rapid): reference model of subscriber sets vs the real event stream, virtual time, white-box table reads; plus generated positions of a parked termination chain with the name handed over (handover unit)",
      "DESIGN.md §4 C19")

check("C20", "exploration",
      "Generated timelines of Once / Loop / Cron / Cancel / Clear / kill / restart run on the real scheduler (go-quartz underneath) on a virtual clock; a reference model of firing instants decides exact counts, 'not before the delay' and 'nothing at or after cancel / clear / termination / restart' without any tolerance.",
      "Sampling of timelines on a 100 ms grid; the instant of the ending operation itself accepts either outcome (go-quartz dequeues a job before running it).",
      "model-based property testing (rapid): reference model of firing instants vs the real scheduler in virtual time",
      "DESIGN.md §4 C20")

check("C10", "exploration",
      "Seeded random scripts of the documented-concurrent API run from 4-32 real goroutines against a real system built with the race detector, while actors spawn, fail (every decision) and terminate; verdicts: worker death, any race report (signature = pair of vivid functions), foreign replies, and white-box tree consistency at quiescence.",
      "Schedules are the Go runtime's (sampled, 16 cores); the race detector is dynamic. Absence of a report is not absence of a race.",
      "randomised concurrent API stress under -race with crash / race / tree-consistency oracles",
      "DESIGN.md §4 C10")

check("C11", "exploration",
      "Generated bursts (count, size classes around 4096 and up to just under the 4 MiB frame limit, Tell / Ask mix, several senders, both directions) between two real systems, with a generator-owned proxy that re-chunks the TCP byte stream (1-byte writes, split frames, many frames per write); a fence protocol decides loss without a timeout oracle; per-sender sequence, content, replies and sender reference are compared with what was sent.",
      "Real TCP on loopback: the proxy influences read boundaries, the kernel decides them. Sampling.",
      "property-based testing (rapid) over a generated byte-stream chunking proxy with a round-trip / sequence oracle",
      "DESIGN.md §4 C11, §3.6")

check("C14", "fault_enumeration",
      "A generator-owned TCP proxy injects the faults: connection cut after every byte offset of a multi-frame stream (enumerated), refused connections against every retry limit, peer restarts, injected undecodable bodies and invalid length prefixes; the receiver's history is judged as a subsequence of the sent one, dead letters and recovery by exact counts, and the caller of Tell is located by a stack scan while the peer is unreachable.",
      "Exhaustive over cut offsets of one fixed stream (thorough); the other fault kinds are sampled. Real TCP and real time: waits are patience, never verdicts. One known finding (Tell blocks in the retry loop) is listed in known_findings.json.",
      "fault enumeration through a byte-level proxy + property-based testing (rapid) with a subsequence oracle",
      "DESIGN.md §4 C14, §3.6")

NOT_YET = {}

def main():
    props = [json.loads(l) for l in open(os.path.join(HERE, "properties.jsonl"))]
    checks = []
    na = []
    for p in props:
        pid = p["id"]
        if pid in CHECKS:
            c = CHECKS[pid]
            checks.append({
                "property_id": pid,
                "quick_cmd": f"./run.sh {pid} quick",
                "thorough_cmd": f"./run.sh {pid} thorough",
                "evidence_file": f"/verif/evidence/{pid}.json",
                "replay_cmd_template": f"./run.sh {pid} quick --replay {{path}}",
                "engine": c["engine"],
                "level_claimed": {"category": c["category"], "text": c["text"], "design_ref": c["design_ref"]},
                "level_note": c["note"],
                "technique": c["technique"],
            })
        else:
            na.append({"property_id": pid, "reason": NOT_YET.get(pid, "check not built yet in this session (work in progress; DESIGN.md §4 describes the planned generated check) - not a claim that the technique cannot apply")})
    m = {
        "version": 1,
        "setup_cmd": "cd /verif && mkdir -p bin && cd harness && GOFLAGS=-mod=mod GOPROXY=off GOSUMDB=off GOTOOLCHAIN=local go1.26.8 build -o ../bin/vcheck ./cmd/vcheck",
        "hooks": {
            "guard": "verif",
            "enable": "no hook is committed to /repo: instrumentation (yield points, white-box accessors) is generated from the working tree at check time and compiled in with `go test -overlay` by bin/vcheck; the tag `verif` is reserved for harness-side files only",
            "baseline_off_cmd": "cd /repo && GOFLAGS=-mod=mod GOPROXY=off GOSUMDB=off GOTOOLCHAIN=local go1.26.8 test -vet=off -count=1 ./...",
            "source_commits": [],
            "add_only": True,
        },
        "engines": [
            {"name": "vcheck", "path": "/verif/harness/cmd/vcheck", "serves_properties": sorted(CHECKS.keys()),
             "kind_free_text": "Go driver: builds rapid-based property tests of /verif/harness against /repo's working tree (go test -c, optional -overlay instrumentation, optional -race), shards them by seed over up to 16 processes, aggregates evidence, maps outcomes to exit codes, matches violations against known_findings.json"},
        ],
        "checks": checks,
        "not_applicable": na,
        "notes": "All checks are property-based tests / fuzzers (pgregory.net/rapid v1.3.0; generated cases, histories, schedules - including generator-owned positions of a slow actor, DESIGN.md 3.2 - and faults; no registered command uses native go fuzzing, DESIGN.md 9.1) run against the real vivid code. VERIF_SEED selects the rapid seed. Exit 2 = inconclusive (never a verdict). Fix commits in /repo are listed in known_findings.json with status fixed.",
    }
    json.dump(m, open(os.path.join(HERE, "MANIFEST.json"), "w"), indent=1, ensure_ascii=False)
    print("MANIFEST.json:", len(checks), "checks,", len(na), "not_applicable")

if __name__ == "__main__":
    main()
