#!/bin/sh
# usage: tools/try_seed.sh <patch.diff> <ID> [tier]   - applies a seeded change to /repo, runs the check, reverts.
set -u
patch="$1"; id="$2"; tier="${3:-quick}"
cd /verif
if [ -n "$(git -C /repo status --porcelain)" ]; then echo "repo dirty, abort"; exit 9; fi
git -C /repo apply "$patch" || { echo "patch does not apply"; exit 9; }
# the evidence file describes the unchanged tree: keep it across the seeded run
[ -f evidence/$id.json ] && cp evidence/$id.json /tmp/try_seed.evidence.$id
./run.sh "$id" "$tier" > /tmp/try_seed.out 2>&1; rc=$?
git -C /repo checkout -- . 
[ -f /tmp/try_seed.evidence.$id ] && mv /tmp/try_seed.evidence.$id evidence/$id.json
grep -E "^(VIOLATION|violation|INCONCLUSIVE|C[0-9]+ tier)" /tmp/try_seed.out | cut -c1-400
echo "exit=$rc"
