#!/bin/sh
# usage: tools/try_seed.sh <patch.diff> <ID> [tier]
# Applies a seeded change to a scratch worktree of /repo's HEAD, runs the property's registered check against
# that tree (VERIF_REPO) and removes the worktree. /repo, the registered evidence files and .work are not touched,
# so this can run while other checks are running.
set -u
patch="$1"; id="$2"; tier="${3:-quick}"
cd /verif
wt=/tmp/wt-try-$$; scratch=/tmp/verif-try-$$
git -C /repo worktree add --detach $wt HEAD >/dev/null 2>&1 || { echo "cannot create worktree"; exit 9; }
trap 'git -C /repo worktree remove --force $wt >/dev/null 2>&1; rm -rf $scratch' EXIT
git -C $wt apply "$patch" || { echo "patch does not apply"; exit 9; }
VERIF_REPO=$wt VERIF_WORKROOT=$scratch/work VERIF_EVIDENCE_DIR=$scratch/evidence VERIF_REPLAYS_DIR=$scratch/replays ./run.sh "$id" "$tier" > $scratch.out 2>&1; rc=$?
grep -E "^(VIOLATION|violation|INCONCLUSIVE|C[0-9]+ tier)" $scratch.out | cut -c1-400
rm -f $scratch.out
echo "exit=$rc"
