#!/bin/sh
# usage: tools/try_seed.sh <patch.diff> <ID> [tier]   - applies a seeded change to /repo, runs the check, reverts.
set -u
patch="$1"; id="$2"; tier="${3:-quick}"
cd /verif
if [ -n "$(git -C /repo status --porcelain)" ]; then echo "repo dirty, abort"; exit 9; fi
git -C /repo apply "$patch" || { echo "patch does not apply"; exit 9; }
./run.sh "$id" "$tier" > /tmp/try_seed.out 2>&1; rc=$?
git -C /repo checkout -- . 
grep -E "^(VIOLATION|violation|INCONCLUSIVE|C[0-9]+ tier)" /tmp/try_seed.out | cut -c1-400
echo "exit=$rc"
# restore evidence of the unchanged tree later by re-running the check
