#!/bin/sh
# usage: tools/precommit.sh  - the driver builds, the manifest regenerates and validates, evidence files validate
set -e
export GOFLAGS=-mod=mod GOPROXY=off GOSUMDB=off GOTOOLCHAIN=local
cd /verif/harness
go1.26.8 build -o /tmp/vcheck.precommit ./cmd/vcheck || { echo "precommit: DRIVER BUILD FAILED"; exit 1; }
rm -f /tmp/vcheck.precommit
cd /verif && python3 tools/gen_manifest.py >/dev/null
python3-vt - <<'PY'
import json, jsonschema, glob
jsonschema.validate(json.load(open('/verif/MANIFEST.json')), json.load(open('/root/.vp/MANIFEST.schema.json')))
es = json.load(open('/root/.vp/EVIDENCE.schema.json'))
bad = 0
for f in sorted(glob.glob('/verif/evidence/*.json')):
    try:
        jsonschema.validate(json.load(open(f)), es)
    except Exception as e:
        bad += 1
        print('INVALID', f, str(e)[:200])
print('precommit ok' if not bad else 'precommit: %d invalid evidence files' % bad)
PY
