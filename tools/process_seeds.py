#!/usr/bin/env python3
"""usage: tools/process_seeds.py <PID>
Takes the finished output of a seeding agent in /tmp/wt-<PID>/SEED/<k>/ (patch.diff, demo_test.go, meta.json),
moves the worktree to /repo's HEAD, confirms every change there (tools/confirm_seed.sh), stores the confirmed ones
as /verif/seeded/<PID>-<n>, runs the property's quick check against each (tools/try_seed.sh), updates
seeded/MATRIX.tsv and removes the worktree. Identical patches to an already stored seed are skipped."""
import glob, os, re, subprocess, sys, json, hashlib

pid = sys.argv[1]
wt = f"/tmp/wt-{pid}"
V = "/verif"

def sh(cmd, **kw):
    return subprocess.run(cmd, shell=True, capture_output=True, text=True, **kw)

head = sh("git -C /repo rev-parse HEAD").stdout.strip()
sh(f"git -C {wt} checkout -q -- . ; git -C {wt} checkout -q --detach {head}")

def norm_patch(p):
    lines = [l for l in open(p).read().splitlines() if (l.startswith('+') or l.startswith('-')) and not l.startswith('+++') and not l.startswith('---')]
    return hashlib.sha1("\n".join(l.strip() for l in lines).encode()).hexdigest()

known = {norm_patch(p): os.path.basename(os.path.dirname(p)) for p in glob.glob(f"{V}/seeded/C*/patch.diff")}
existing = [int(os.path.basename(d).split('-')[1]) for d in glob.glob(f"{V}/seeded/{pid}-*")]
dropped = [int(os.path.basename(d).split('-')[1]) for d in glob.glob(f"{V}/seeded/dropped/{pid}-*")]
nxt = max(existing + dropped + [2]) + 1
rows = []
unconfirmed = False
for sd in sorted(glob.glob(f"{wt}/SEED/*")):
    if os.path.isdir(sd) and not os.path.basename(sd).startswith("in_"):
        os.rename(sd, os.path.join(os.path.dirname(sd), "in_" + os.path.basename(sd)))
for sd in sorted(glob.glob(f"{wt}/SEED/in_*")):
    if not os.path.isdir(sd):
        continue
    patch = f"{sd}/patch.diff"
    demos = [f for f in glob.glob(f"{sd}/*_test.go")]
    if not os.path.exists(patch) or not demos:
        print(f"{sd}: incomplete (no patch or demo)")
        continue
    h = norm_patch(patch)
    if h in known:
        print(f"{sd}: identical to stored seed {known[h]} - skipped")
        continue
    if sh(f"git -C {wt} apply --check {patch}").returncode != 0:
        print(f"{sd}: patch does not apply to HEAD - skipped")
        continue
    demo = sorted(demos, key=lambda f: (os.path.basename(f) != "demo_test.go", f))[0]
    src = open(demo).read()
    headc = src.split("\npackage ", 1)[0]
    pkgname = re.search(r"^package (\w+)", src, re.M).group(1)
    m = re.findall(r"((?:internal|pkg)/[A-Za-z0-9_/]+)", headc)
    place = None
    for cand in m:
        cand = cand.rstrip("/")
        if cand.endswith("_test.go") or "." in os.path.basename(cand):
            cand = os.path.dirname(cand)
        if os.path.isdir(f"{wt}/{cand}"):
            # the demo's package must fit the directory's package
            dirpk = None
            for g in glob.glob(f"{wt}/{cand}/*.go"):
                mm = re.search(r"^package (\w+)", open(g).read(), re.M)
                if mm and not g.endswith("_test.go"):
                    dirpk = mm.group(1)
                    break
            if dirpk is None or pkgname in (dirpk, dirpk + "_test"):
                place = cand
                break
        elif re.match(r"internal/[a-z0-9_]+$", cand) and pkgname.replace("_test", "") == os.path.basename(cand):
            place = cand  # a directory of its own
            break
    if place is None:
        place = "internal/zz" + pkgname.replace("_test", "")
    tests = re.findall(r"^func (Test\w+)\(", src, re.M)
    rx = "^(" + "|".join(tests) + ")$" if tests else "Test"
    n = nxt
    nxt += 1
    os.rename(sd, f"{wt}/SEED/{n}")
    # keep only the chosen demo as the first *_test.go
    r = sh(f"cd {V} && tools/confirm_seed.sh {pid} {n} {place} '{rx}' ./internal/actor 2>&1 | tail -3")
    out = r.stdout.strip()
    ok = "stored" in out
    print(f"{pid}-{n}: placement {place}, tests {rx[:80]} -> {'CONFIRMED' if ok else 'NOT CONFIRMED'}")
    if not ok:
        print("   ", out.replace("\n", " | ")[:400])
        unconfirmed = True
        continue
    known[h] = f"{pid}-{n}"
    t = sh(f"cd {V} && tools/try_all_seeds.sh quick {pid}-{n} >/dev/null 2>&1; grep '^{pid}-{n}\t' seeded/MATRIX.tsv")
    print("    try:", t.stdout.strip())
if unconfirmed:
    print(f"worktree {wt} kept: not every change was confirmed")
else:
    sh(f"git -C /repo worktree remove --force {wt}")
