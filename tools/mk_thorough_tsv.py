#!/usr/bin/env python3
"""usage: tools/mk_thorough_tsv.py  - collects the last thorough-tier result per property from the run logs under /tmp
(run_all sweep + later re-runs) into /verif/THOROUGH.tsv: id, /repo commit the run saw, evaluations, distinct_nontrivial,
wall seconds, exit status. The commit column is filled from the argument map below (the runs do not record it)."""
import re, glob, os, sys
rows = {}
def take(path, commit):
    if not os.path.exists(path): return
    for l in open(path, errors='replace'):
        m = re.search(r'(C\d\d) tier=thorough seed=(\d+) evaluations=(\d+) distinct_nontrivial=(\d+) wall=([\d.]+)s', l)
        if m:
            viol = 'VIOLATION' in open(path, errors='replace').read() if path.startswith('/tmp/th2.') or 'c18.thorough2' in path else ('VIOLATION' in l)
            rows[m.group(1)] = (commit, m.group(3), m.group(4), m.group(5), 'violation' if viol else 'held')
sweep = {'C01':'bc97182','C02':'bc97182','C03':'bc97182','C04':'bc97182','C05':'bc97182','C06':'bc97182','C07':'bc97182','C08':'bc97182','C09':'bc97182','C10':'bc97182','C11':'bc97182','C12':'bc97182','C13':'bc97182','C14':'bc97182/3317c9d','C15':'3317c9d','C16':'3317c9d','C17':'3317c9d','C18':'3317c9d','C19':'3317c9d','C20':'3317c9d'}
if os.path.exists('/tmp/thorough_all.out'):
    for l in open('/tmp/thorough_all.out'):
        m = re.search(r'^(C\d\d) rc=(\d+) .*evaluations=(\d+) distinct_nontrivial=(\d+) wall=([\d.]+)s', l)
        if m:
            rows[m.group(1)] = (sweep[m.group(1)], m.group(3), m.group(4), m.group(5), 'held' if m.group(2) == '0' else 'violation (see DESIGN 9.3 / 9.6)')
take('/tmp/c18.thorough2.out', 'fad7336')
for f in sorted(glob.glob('/tmp/th2.C*.out')):
    take(f, 'fad7336')
with open('/verif/THOROUGH.tsv', 'w') as o:
    o.write('property\trepo_commit\tevaluations\tdistinct_nontrivial\twall_s\tresult\n')
    for k in sorted(rows):
        o.write(k + '\t' + '\t'.join(rows[k]) + '\n')
print(open('/verif/THOROUGH.tsv').read())
