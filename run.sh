#!/bin/sh
# Entry point of every registered check: ./run.sh <ID> <quick|thorough> [--replay path]
# Builds the driver from source if needed (setup_cmd does it once) and runs it.
set -e
cd "$(dirname "$0")"
export GOFLAGS=-mod=mod GOPROXY=off GOSUMDB=off GOTOOLCHAIN=local
if [ ! -x bin/vcheck ] || [ -n "$(find harness/cmd -newer bin/vcheck -name '*.go' 2>/dev/null | head -1)" ]; then
  mkdir -p bin
  (cd harness && go1.26.8 build -o ../bin/vcheck ./cmd/vcheck) || { echo "INCONCLUSIVE: driver build failed"; exit 2; }
fi
id="$1"; tier="${2:-quick}"; shift; if [ $# -gt 0 ]; then shift; fi
exec ./bin/vcheck "--tier=$tier" "$@" "$id"
